#!/bin/bash
# ./thorough.sh <ID>   (called by ./check <ID> thorough after the stable harness is built)
# Phase D: libFuzzer campaigns with the property's oracle in-target, then the stable harness
# (phases A-C + confirmation of every corpus entry / artefact) writes the evidence and decides.
set -u
cd "$(dirname "$(readlink -f "$0")")"
export VERIF_ROOT="$PWD"
ID="$1"
SEED="${VERIF_SEED:-0}"
JOBS="${VERIF_FUZZ_JOBS:-16}"
HARNESS=harness/target/release/harness
FUZZBIN=harness/fuzz/target/x86_64-unknown-linux-gnu/release
OUT="out/fuzz/$ID"
rm -rf "$OUT"; mkdir -p "$OUT"

# rebuild the fuzz targets from /repo's current working tree (nightly toolchain, no sanitizer:
# coset is safe Rust; stack exhaustion is handled by the supervised workers)
if ( cd harness && CARGO_NET_OFFLINE=true cargo +nightly fuzz build -s none ) > "$OUT/build.log" 2>&1; then
  FUZZ=1
else
  echo "note: fuzz targets did not build (see $OUT/build.log); thorough tier runs without phase D" >&2
  FUZZ=0
fi

CONFIRM=""; EXECS=0; NOTE=""
campaign() { # target name corpus-seed-dir|"" runs max_len
  local target="$1" name="$2" seeddir="$3" runs="$4" maxlen="$5"
  local dir="$PWD/$OUT/$target-$name"
  mkdir -p "$dir/corpus" "$dir/artifacts" "$dir/logs"
  if [ -n "$seeddir" ] && [ -d "$seeddir" ]; then cp "$seeddir"/* "$dir/corpus/" 2>/dev/null || true; fi
  ( cd "$dir/logs" && VERIF_PROP="$ID" timeout 900 "$VERIF_ROOT/$FUZZBIN/$target" "$dir/corpus" \
      -runs="$runs" -seed="$((SEED + 1))" -len_control=0 -max_len="$maxlen" -jobs="$JOBS" -workers="$JOBS" \
      -artifact_prefix="$dir/artifacts/" -print_final_stats=1 -rss_limit_mb=4096 -timeout=60 ) > "$dir/driver.log" 2>&1
  local n
  n=$(grep -h "stat::number_of_executed_units" "$dir"/logs/fuzz-*.log 2>/dev/null | awk '{s+=$2} END {print s+0}')
  EXECS=$((EXECS + n))
  CONFIRM="$CONFIRM,$target:$dir/corpus,$target:$dir/artifacts"
  NOTE="$NOTE $target/$name:${n}execs"
}

# C01 quantifies over both cargo feature sets: run the generated phases once more against a
# harness built with coset's `std` feature (separate target dir); a violation there is reported.
STD_RC=0
if [ "$ID" = "C01" ]; then
  if ( cd harness && CARGO_NET_OFFLINE=true cargo build --release --offline --features std --target-dir target-std ) > "$OUT/build-std.log" 2>&1; then
    harness/target-std/release/harness run C01 quick > "$OUT/std-run.log" 2>&1; STD_RC=$?
    grep -E "^VIOLATION|^  detail" "$OUT/std-run.log"; grep -E "^C01 " "$OUT/std-run.log" | sed 's/^/[with coset std feature] /'
    NOTE="$NOTE std-feature-run:exit$STD_RC($(grep -o 'evaluations=[0-9]*' "$OUT/std-run.log" | head -1))"
  else
    echo "note: harness with coset/std did not build (see $OUT/build-std.log)" >&2
  fi
fi

if [ "$FUZZ" = 1 ]; then
  case "$ID" in
    C01) campaign bytes seeded corpus/bytes-seed 150000 4096; campaign bytes empty "" 100000 65536 ;;
    C07|C13) campaign bytes seeded corpus/bytes-seed 150000 1024; campaign bytes empty "" 150000 1024 ;;
  esac
  MAXT=$($HARNESS list >/dev/null 2>&1; echo 2048)
  case "$ID" in
    C01) campaign tape empty "" 50000 2048 ;;
    C15|C16|C17) campaign tape empty "" 300000 256 ;;
    *) campaign tape empty "" 300000 "$MAXT" ;;
  esac
fi
export VERIF_FUZZ_CONFIRM="${CONFIRM#,}" VERIF_FUZZ_EXECS="$EXECS" VERIF_FUZZ_NOTE="$NOTE"
"$HARNESS" run "$ID" thorough
rc=$?
# keep artefacts, drop the (large) working corpora
rm -rf "$OUT"/*/corpus "$OUT"/*/logs
if [ "$rc" = 0 ] && [ "$STD_RC" = 1 ]; then rc=1; fi
exit $rc

#!/bin/bash
# tools/tryseed.sh <seeded-dir-name> <check ID>...   apply seeded/<dir>/patch.diff to /repo, run quick checks, undo
cd /verif
[ -z "$(git -C /repo status --porcelain)" ] || { echo "/repo dirty"; exit 2; }
git -C /repo apply "/verif/seeded/$1/patch.diff" || exit 2
shift
for c in "$@"; do
  out=$(./check "$c" quick 2>&1); rc=$?
  echo "$c exit=$rc $(echo "$out" | grep -E '^VIOLATION|^  detail' | head -2 | tr '\n' ' ' | cut -c1-500)"
done
git -C /repo checkout -- .

#!/usr/bin/env python3
"""Regenerate /verif/MANIFEST.json from the list of properties the harness implements."""
import json, subprocess, os, sys
root = os.path.dirname(os.path.dirname(os.path.abspath(__file__)))
props = [json.loads(l) for l in open(os.path.join(root, "properties.jsonl"))]
impl = subprocess.run([os.path.join(root, "harness/target/release/harness"), "list"], capture_output=True, text=True).stdout.split("\n")
impl = [l.split()[0] for l in impl if l.strip()]
notes = json.load(open(os.path.join(root, "tools/manifest_notes.json")))
fix_commits = [l.strip() for l in open(os.path.join(root, "tools/fix_commits.txt")) if l.strip()] if os.path.exists(os.path.join(root, "tools/fix_commits.txt")) else []
checks = []
na = []
for p in props:
    pid = p["id"]
    n = notes.get(pid, {})
    if pid in impl and not n.get("not_applicable"):
        checks.append({
            "property_id": pid,
            "quick_cmd": f"./check {pid} quick",
            "thorough_cmd": f"./check {pid} thorough",
            "evidence_file": f"evidence/{pid}.json",
            "replay_cmd_template": f"./check {pid} --replay {{path}}",
            "engine": "harness",
            "level_claimed": {
                "category": "exploration",
                "text": n.get("text", "generated-input search against an explicit oracle; exploration, not proof"),
                "design_ref": n.get("design_ref", f"DESIGN.md section 4, {pid}"),
            },
            "level_note": n.get("level_note", "trusted base: the harness' own CBOR codec and reference models"),
            "technique": n.get("technique", "property-based testing (proptest-driven tapes, structured generators, reference-model oracle)"),
        })
    else:
        na.append({"property_id": pid, "reason": n.get("na_reason", "check not built yet in this session (work in progress); nothing is claimed for it")})
m = {
    "version": 1,
    "setup_cmd": "./setup.sh",
    "hooks": {
        "guard": "coset_verif",
        "enable": "no hooks are needed: every observation point is reachable through coset's public API, so checks build /repo unmodified (cargo path dependency on /repo); the guard name is reserved but unused",
        "baseline_off_cmd": "cd /repo && cargo test --workspace --no-fail-fast --offline",
        "source_commits": fix_commits,
        "add_only": True,
    },
    "engines": [
        {"name": "harness", "path": "harness/", "serves_properties": [c["property_id"] for c in checks],
         "kind_free_text": "Rust crate: tape-based generators (arbitrary::Unstructured) driven and shrunk by proptest, independent CBOR codec and reference models as oracles, supervised worker processes on 2 MiB stacks, counting allocator; libFuzzer targets (cargo-fuzz) reuse the same oracles in the thorough tier"},
    ],
    "checks": checks,
    "not_applicable": na,
    "notes": "VERIF_SEED selects the run (default 0). Exit 0 held / 1 VIOLATION / 2 inconclusive or infrastructure. Known findings: KNOWN_FINDINGS.txt (read-only at run time).",
}
json.dump(m, open(os.path.join(root, "MANIFEST.json"), "w"), indent=1)
print("claimed:", [c["property_id"] for c in checks]); print("not applicable:", [x["property_id"] for x in na])

#!/bin/bash
# tools/longfuzz.sh <minutes-per-campaign> <ID>...
# Long coverage-guided campaigns beyond the thorough tier (exploration only, not evidence): for each
# property a `tape` campaign (and a `bytes` campaign where the property has a raw-bytes oracle),
# LF_WORKERS (default 2) libFuzzer workers each, all campaigns in parallel.  Crashing inputs are kept under
# out/longfuzz/<ID>/; anything found must be re-run through ./check --replay in /verif.
set -u
cd "$(dirname "$(readlink -f "$0")")/.."
ROOT="$PWD"
MIN="$1"; shift
( cd harness && CARGO_NET_OFFLINE=true cargo +nightly fuzz build -s none ) > /dev/null 2>&1 || { echo "fuzz build failed"; exit 2; }
BIN="$ROOT/harness/fuzz/target/x86_64-unknown-linux-gnu/release"
for ID in "$@"; do
  for target in tape bytes; do
    if [ "$target" = bytes ]; then case "$ID" in C01|C07|C13) ;; *) continue ;; esac; fi
    dir="$ROOT/out/longfuzz/$ID/$target"; rm -rf "$dir"; mkdir -p "$dir/corpus" "$dir/artifacts" "$dir/logs"
    [ "$target" = bytes ] && cp "$ROOT"/corpus/bytes-seed/* "$dir/corpus/" 2>/dev/null
    ( cd "$dir/logs" && VERIF_PROP="$ID" "$BIN/$target" "$dir/corpus" -max_total_time=$((MIN * 60)) -len_control=0 -max_len=4096 \
        -jobs=${LF_WORKERS:-2} -workers=${LF_WORKERS:-2} -artifact_prefix="$dir/artifacts/" -print_final_stats=1 -rss_limit_mb=4096 -timeout=60 > "$dir/driver.log" 2>&1 ) &
  done
done
wait
for ID in "$@"; do
  for target in tape bytes; do
    dir="$ROOT/out/longfuzz/$ID/$target"; [ -d "$dir" ] || continue
    n=$(grep -h "stat::number_of_executed_units" "$dir"/logs/fuzz-*.log 2>/dev/null | awk '{s+=$2} END {print s+0}')
    a=$(ls "$dir/artifacts" 2>/dev/null | wc -l)
    echo "$ID $target execs=$n artifacts=$a corpus=$(ls "$dir/corpus" | wc -l)"
    grep -h "FUZZ-FAILURE" "$dir"/logs/fuzz-*.log 2>/dev/null | sort | uniq -c | sort -rn | head -5 | cut -c1-400
  done
done

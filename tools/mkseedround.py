#!/usr/bin/env python3
"""tools/mkseedround.py <N>: scratch worktrees /tmp/seed<N>/<ID>/repo, PROPERTY.txt, EARLIER.txt (notes of the
earlier seeded changes of that property) and PROMPT.txt for a round of seeded-change sub-agents."""
import json, os, subprocess, sys, glob
N = sys.argv[1]
EXTRA = ''
if int(N) >= 10:
    EXTRA = ("For this round prefer, where the property allows it, a defect made of TWO cooperating sites that each look fine "
             "when reviewed alone (e.g. a helper whose contract is subtly changed plus one caller that relied on the old contract; an encoder-side "
             "and a decoder-side change that agree with each other but not with the specification; a cached / precomputed value plus one code path that "
             "does not invalidate it), or one that needs a multi-step sequence of public operations (decode, then edit a public field or pass the value "
             "through a builder or another structure, then encode / call a helper) rather than a single call on a single input. ")
props = {json.loads(l)['id']: json.loads(l) for l in open('/verif/properties.jsonl')}
if int(N) >= 11:
    EXTRA += ("Look also at routes that a tester driving the byte-level API would not take: the Value-level API (`to_cbor_value` / `from_cbor_value` on "
              "`Value` trees assembled by hand, including shapes the byte parser never produces for that content), values whose public fields were "
              "assigned directly instead of going through builders or decoders, the trait implementations (`Default`, `Clone`, `PartialEq`, `Debug`, "
              "`Ord`, `From`) where the property depends on them, and the way two otherwise unrelated features meet in one message. ")
os.makedirs(f'/tmp/seed{N}', exist_ok=True)
for pid, p in props.items():
    base = f'/tmp/seed{N}/{pid}'
    os.makedirs(base + '/out', exist_ok=True)
    open(base + '/PROPERTY.txt', 'w').write(f"{pid}: {p.get('title','')}\n\n{p.get('statement','')}\n")
    r = subprocess.run(f'git -C /repo worktree add --detach {base}/repo HEAD', shell=True, capture_output=True, text=True)
    if r.returncode != 0: print(pid, r.stderr[:200])
    dirs = sorted(glob.glob(f'/verif/seeded/{pid}') + glob.glob(f'/verif/seeded/{pid}-r*'), key=lambda d: int(d.split('-r')[1]) if '-r' in d else 1)
    prev = []
    for i, d in enumerate(dirs):
        f = d + '/notes.md'
        n = open(f).read() if os.path.exists(f) else ''
        prev.append(f"--- earlier defect {i+1} (notes of its author) ---\n{n.strip()[:650]}")
    open(base + '/EARLIER.txt', 'w').write("\n".join(prev) + "\n")
    k = len(dirs)
    prompt = f"""You are helping test a verification framework by producing a realistic *seeded defect* in a Rust library. Work ONLY inside {base} (never touch /repo or /verif, do not read anything under /verif, do not look at other directories under /tmp/seed{N}).

{base}/repo is a git worktree of the Rust crate `coset` (google/coset 0.3.8: typed COSE structures with CBOR encode/decode). The sandbox has no network: always build/test offline, e.g. `cd {base}/repo && CARGO_NET_OFFLINE=true cargo test --offline`. The existing test suite (117 tests) passes on the unmodified tree. IMPORTANT: never use `git stash`; to test the unmodified tree use `git diff -- src > {base}/out/patch.diff; git checkout -- src; <run>; git apply {base}/out/patch.diff`. Do not add or edit tests under src/ (the patch must leave the existing tests untouched).

Read {base}/PROPERTY.txt: it states a semantic property the library is supposed to have. Your job: make a source change to the library (under {base}/repo/src only) of the kind that really happens in maintenance pull requests and survives review — e.g. factoring duplicated code into a shared helper or macro, replacing a hand-written loop by iterator adaptors, switching a data structure, adding support for a new registered value / header parameter / entry point, tightening or relaxing validation "for interoperability" or "hardening", a performance shortcut or cache, porting code to a newer API of a dependency, handling an error more "gracefully", a no_std / allocation-saving rewrite — with a slip in it such that
 1. the crate still compiles and the ENTIRE existing test suite still passes unedited (`cargo test --offline`), and
 2. the property in PROPERTY.txt is now violated for some inputs or call sequences.
{k} earlier seeded defects for this same property are described in {base}/EARLIER.txt; all of them were eventually detected by the framework under test (an automated property-based tester with structured generators for every COSE structure, reference models of acceptance, an independent CBOR codec, boundary lattices for integers, lengths and nesting depth, related texts / sibling structures / correlated headers, builder call-sequence models, in-memory states reachable only through public fields, and byte-level fuzzing). First make a table for yourself: every clause of the property statement x every public type / function / trait method in src/ that the clause covers (all eight message structures and their nested forms, headers in both buckets and in counter-signatures, keys and key sets, claims sets, KDF context parts, registry label types, every builder method and constructor, tagged and untagged and Value-level entry points, encode as well as decode direction, error *kinds* as well as acceptance, derived or hand-written trait impls such as Clone / PartialEq / Debug / Default / Ord / Hash / From where the property depends on them, the `std` feature). Cross out what the earlier defects touched. Put your defect in a cell that is still blank; among blank cells prefer one where the violation shows only under a combination an automated tester is unlikely to assemble (a particular pair of features used together, a particular order of calls, a value that is legal but that nobody writes, a structure used in a role it is rarely used in). {EXTRA}It must not be exposed by the existing tests, and it must be a genuine violation of the property as stated (not merely a behaviour change the statement does not cover).

Deliverables, all written under {base}/out/:
 - patch.diff: output of `git -C {base}/repo diff -- src` for your change (source files only).
 - demo.rs: a self-contained Rust integration test file (to be dropped into {base}/repo/tests/demo.rs; you may use the `hex` dev-dependency, available offline) that FAILS with your change applied and PASSES on the unmodified tree. Verify both yourself. A stack overflow / abort / multi-second hang counts as failing.
 - notes.md: 5-10 lines: what you changed, which clause of the property and which entry point it violates, why the existing tests do not notice, and exactly what is needed for the violation to manifest.
Leave the worktree with your source change applied and tests/demo.rs present. Report back briefly: a one-paragraph summary of the change and the commands you ran with outcomes (tests pass with change: yes/no; demo fails with change: yes/no; demo passes without change: yes/no).
"""
    open(base + '/PROMPT.txt', 'w').write(prompt)
print("prepared", len(props))

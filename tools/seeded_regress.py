#!/usr/bin/env python3
"""Re-run every stored seeded change (seeded/<ID>[-rN]/patch.diff) against the current checks.
For each: git -C /repo apply, ./check <ID> quick (expect exit 1 + VIOLATION), git -C /repo checkout -- .
Writes seeded/REGRESS.json.  Must not run concurrently with anything else that uses /repo."""
import subprocess, os, json, sys, re
REPO = os.environ.get("REGRESS_REPO", "/repo")      # a scratch worktree of /repo may be used instead ...
VERIF = os.environ.get("REGRESS_VERIF", "/verif")   # ... together with a copy of /verif whose harness depends on it (tools/regress_bg.sh)
def sh(cmd, cwd=None):
    return subprocess.run(cmd, shell=True, cwd=cwd, capture_output=True, text=True)
assert sh("git status --porcelain", REPO).stdout.strip() == "", "/repo dirty"
only = sys.argv[1:]
res = {}
for d in sorted(os.listdir(VERIF + "/seeded")):
    pd = f"{VERIF}/seeded/{d}/patch.diff"
    if not os.path.exists(pd): continue
    pid = d.split("-")[0]
    if only and pid not in only and d not in only: continue
    r = sh(f"git apply {pd}", REPO)
    if r.returncode != 0:
        res[d] = {"error": "patch does not apply: " + r.stderr[:200]}; print(d, res[d]); continue
    try:
        rr = sh(f"./check {pid} quick", VERIF)
        first = [l for l in rr.stdout.splitlines() if l.startswith("  detail")][:1]
        res[d] = {"exit": rr.returncode, "caught": rr.returncode == 1 and "VIOLATION property=" + pid in rr.stdout, "first": (first[0][:200] if first else "")}
    finally:
        sh("git checkout -- .", REPO)
    print(d, res[d]["exit"], "caught" if res[d].get("caught") else "MISSED", flush=True)
json.dump(res, open(VERIF + "/seeded/REGRESS.json", "w"), indent=1)
expected = set(l.split()[0] for l in open(VERIF + "/seeded/EXPECTED_MISSES.txt") if l.strip() and not l.startswith("#"))
for d in expected:
    if d in res:
        res[d]["expected_miss"] = True
        if res[d].get("caught"):
            print(d, "listed as an expected miss but caught")
json.dump(res, open(VERIF + "/seeded/REGRESS.json", "w"), indent=1)
missed = [d for d, v in res.items() if not v.get("caught") and d not in expected]
print("missed:", missed)
sys.exit(1 if missed else 0)

#!/bin/bash
# Run every quick check on the current tree over several seeds; print anything that is not a clean pass.
# usage: tools/silence.sh <seed>...
cd /verif
bad=0
for s in "$@"; do
  for p in C01 C02 C03 C04 C05 C06 C07 C08 C09 C10 C11 C12 C13 C14 C15 C16 C17 C18 C19 C20; do
    out=$(VERIF_SEED=$s ./check $p quick 2>&1); rc=$?
    if [ $rc -ne 0 ] || echo "$out" | grep -q "^VIOLATION"; then
      bad=1; echo "== $p seed=$s exit=$rc"; echo "$out" | grep -v "^KNOWN" | tail -4 | cut -c1-700
    fi
  done
  echo "seed $s done"
done
exit $bad

#!/usr/bin/env python3
import json, jsonschema, glob, sys
m = json.load(open('/verif/MANIFEST.json'))
jsonschema.validate(m, json.load(open('/root/.vp/MANIFEST.schema.json')))
es = json.load(open('/root/.vp/EVIDENCE.schema.json'))
bad = 0
for c in m['checks']:
    f = '/verif/' + c['evidence_file']
    try:
        jsonschema.validate(json.load(open(f)), es)
    except Exception as e:
        bad += 1; print('BAD', f, str(e)[:200])
print('manifest valid; evidence files bad:', bad)

#!/bin/bash
# tools/coverage.sh [ID...]   (default: all twenty)
# Source-coverage of /repo/src reached by the quick checks (not a registered check, not evidence):
# builds the harness with -C instrument-coverage (nightly, llvm-tools) into a scratch target dir,
# runs the quick tier of each property from a scratch VERIF_ROOT (so /verif/evidence is untouched),
# merges the worker profiles and prints the llvm-cov report plus every line of /repo/src that no
# check executed.  Everything lives under a scratch directory that is removed at the end.
set -u
S=$(mktemp -d /tmp/cosetcov.XXXXXX)
trap 'rm -rf "$S"' EXIT
B=$(dirname "$(rustc +nightly --print target-libdir)")/bin
IDS="${*:-C01 C02 C03 C04 C05 C06 C07 C08 C09 C10 C11 C12 C13 C14 C15 C16 C17 C18 C19 C20}"
( cd /verif/harness && LLVM_PROFILE_FILE="$S/build-%p.profraw" CARGO_NET_OFFLINE=true RUSTFLAGS="-C instrument-coverage" \
    cargo +nightly build --release --offline --target-dir "$S/target" ) > "$S/build.log" 2>&1 || { tail -20 "$S/build.log"; exit 2; }
mkdir -p "$S/root/evidence" "$S/root/out" "$S/prof"
for f in regress corpus KNOWN_FINDINGS.txt; do ln -sfn /verif/$f "$S/root/$f"; done
for p in $IDS; do
  ( cd "$S/root" && VERIF_ROOT="$S/root" LLVM_PROFILE_FILE="$S/prof/%p-%m.profraw" "$S/target/release/harness" run "$p" quick 2>&1 | tail -1 | cut -c1-160 )
done
"$B/llvm-profdata" merge -sparse "$S"/prof/*.profraw -o "$S/all.profdata"
"$B/llvm-cov" report "$S/target/release/harness" -instr-profile="$S/all.profdata" --sources /repo/src 2>/dev/null
echo "--- lines of /repo/src never executed:"
"$B/llvm-cov" show "$S/target/release/harness" -instr-profile="$S/all.profdata" --sources /repo/src 2>/dev/null | grep -E "^\s+[0-9]+\|\s+0\|"

#!/bin/bash
# tools/regress_bg.sh [ID-or-dir...]  — tools/seeded_regress.py against a scratch worktree of /repo and a scratch
# copy of /verif (so /repo stays free for other work); result copied to /verif/seeded/REGRESS.json.
# Scratch lives under /tmp/regress and is removed at the end.
set -u
S=/tmp/regress
rm -rf $S; mkdir -p $S
git -C /repo worktree prune
git -C /repo worktree add --detach $S/repo HEAD >/dev/null 2>&1 || { echo "worktree failed"; exit 2; }
rsync -a --exclude target --exclude out --exclude .git /verif/ $S/verif/
sed -i "s|path = \"/repo\"|path = \"$S/repo\"|" $S/verif/harness/Cargo.toml
( cd $S/verif && mkdir -p out evidence && cd harness && CARGO_NET_OFFLINE=true cargo build --release --offline >/dev/null 2>&1 ) || { echo "build failed"; exit 2; }
REGRESS_REPO=$S/repo REGRESS_VERIF=$S/verif python3 $S/verif/tools/seeded_regress.py "$@"
rc=$?
if [ $# -eq 0 ]; then cp $S/verif/seeded/REGRESS.json /verif/seeded/REGRESS.json; else cp $S/verif/seeded/REGRESS.json /verif/out/REGRESS-partial.json; fi
git -C /repo worktree remove --force $S/repo; rm -rf $S
exit $rc

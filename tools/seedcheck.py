#!/usr/bin/env python3
"""Confirm a seeded change produced by a sub-agent and run the checks against it.
usage: tools/seedcheck.py <ID> [extra check ids...]
 1. in the agent's scratch worktree /tmp/seed/<ID>/repo: src diff == out/patch.diff; unit suite passes with the change;
    demo fails with the change; demo passes without it (src checked out), change re-applied
 2. apply the patch to /repo, run ./check <ID> quick (and extra checks), undo
 3. store /verif/seeded/<ID>/{patch.diff, demo.rs, notes.md, meta.json}
"""
import subprocess, sys, os, json, shutil, re
args = [a for a in sys.argv[1:] if not a.startswith("--round")]
ROUND = next((a.split("=")[1] for a in sys.argv[1:] if a.startswith("--round=")), "1")
ID = args[0]; extra = args[1:]
BASE = "/tmp/seed" if ROUND == "1" else f"/tmp/seed{ROUND}"
W = f"{BASE}/{ID}/repo"; OUT = f"{BASE}/{ID}/out"
def sh(cmd, cwd=None, timeout=3600):
    return subprocess.run(cmd, shell=True, cwd=cwd, capture_output=True, text=True, timeout=timeout)
env = "CARGO_NET_OFFLINE=true "
meta = {"property": ID, "round": int(ROUND), "ran": []}
patch = open(f"{OUT}/patch.diff").read()
# normalise: make sure worktree src has exactly the patch
sh("git checkout -- src", W)
r = sh(f"git apply {OUT}/patch.diff", W); assert r.returncode == 0, r.stderr
shutil.copy(f"{OUT}/demo.rs", f"{W}/tests/demo.rs") if os.path.isdir(f"{W}/tests") else (os.makedirs(f"{W}/tests"), shutil.copy(f"{OUT}/demo.rs", f"{W}/tests/demo.rs"))
r = sh(env + "cargo test --offline --lib 2>&1 | grep 'test result'", W)
meta["suite_with_change"] = r.stdout.strip(); meta["ran"].append("cargo test --offline --lib (with change)")
r = sh(env + "cargo test --offline --test demo 2>&1 | tail -5", W)
meta["demo_with_change_fails"] = ("FAILED" in r.stdout or "overflowed" in r.stdout or "SIGABRT" in r.stdout or "error:" in r.stdout); meta["ran"].append("cargo test --offline --test demo (with change)")
sh("git checkout -- src", W)
r = sh(env + "cargo test --offline --test demo 2>&1 | grep 'test result'", W)
meta["demo_without_change"] = r.stdout.strip(); meta["ran"].append("cargo test --offline --test demo (without change)")
sh(f"git apply {OUT}/patch.diff", W)
_m = re.search(r"(\d+) passed; (\d+) failed", meta["suite_with_change"])
ok = (_m is not None and int(_m.group(1)) >= 117 and int(_m.group(2)) == 0) and meta["demo_with_change_fails"] and ("ok." in meta["demo_without_change"])
meta["confirmed"] = ok
# run checks against /repo
assert sh("git status --porcelain", "/repo").stdout.strip() == "", "/repo dirty"
r = sh(f"git apply {OUT}/patch.diff", "/repo"); assert r.returncode == 0, r.stderr
res = {}
try:
    for c in [ID] + extra:
        rr = sh(f"./check {c} quick", "/verif")
        first = [l for l in rr.stdout.splitlines() if l.startswith("VIOLATION") or l.startswith("  detail")][:2]
        res[c] = {"exit": rr.returncode, "first": " ".join(first)[:400]}
        meta["ran"].append(f"git -C /repo apply patch.diff; ./check {c} quick; git -C /repo checkout -- .")
finally:
    sh("git checkout -- .", "/repo")
meta["checks"] = res
d = f"/verif/seeded/{ID}" if ROUND == "1" else f"/verif/seeded/{ID}-r{ROUND}"; os.makedirs(d, exist_ok=True)
for f in ["patch.diff", "demo.rs", "notes.md"]:
    if os.path.exists(f"{OUT}/{f}"): shutil.copy(f"{OUT}/{f}", f"{d}/{f}")
notes = open(f"{OUT}/notes.md").read() if os.path.exists(f"{OUT}/notes.md") else ""
meta["needs_to_manifest"] = notes[:1500]
json.dump(meta, open(f"{d}/meta.json", "w"), indent=1)
print(ID, "confirmed" if ok else "NOT CONFIRMED", {k: v["exit"] for k, v in res.items()})
for k, v in res.items(): print("  ", k, v["first"][:300])

#![no_main]
//! libFuzzer target over raw wire bytes: the oracle of the property named by VERIF_PROP
//! (C01, C07 or C13) runs inside the target.
use libfuzzer_sys::fuzz_target;

fuzz_target!(|data: &[u8]| {
    coset_verif::fuzz::run_bytes(data);
});

#![no_main]
//! libFuzzer target over generator tapes: the bytes are the tape of the property's structured
//! generator (VERIF_PROP selects the property); the oracle runs inside the target.
use libfuzzer_sys::fuzz_target;

fuzz_target!(|data: &[u8]| {
    coset_verif::fuzz::run_tape(data);
});

//! Generators of abstract items (header maps, message arrays, keys, claims sets, KDF contexts):
//! valid by construction, with optional planted faults.  Truth is always decided by `model.rs`;
//! the generator only steers the distribution and logs what it planted.

use crate::cbor::{Item, Wrapped};
use crate::model::Kind;
use crate::registry as reg;
use crate::tape::Gen;

/// Fault budget and log.
pub struct Faults {
    pub remaining: u32,
    /// 1/`odds` chance at each site while budget remains
    pub odds: u32,
    pub log: Vec<&'static str>,
}

impl Faults {
    pub fn none() -> Self {
        Faults { remaining: 0, odds: 1, log: vec![] }
    }
    pub fn one() -> Self {
        Faults { remaining: 1, odds: 6, log: vec![] }
    }
    pub fn many() -> Self {
        Faults { remaining: 4, odds: 4, log: vec![] }
    }
    pub fn take(&mut self, g: &mut Gen, name: &'static str) -> bool {
        let odds = self.odds;
        self.take_odds(g, name, odds)
    }
    /// Like `take` with explicit odds (for sites that would otherwise dominate).
    pub fn take_odds(&mut self, g: &mut Gen, name: &'static str, odds: u32) -> bool {
        if self.remaining == 0 {
            return false;
        }
        if g.ratio(1, odds) {
            self.remaining -= 1;
            self.log.push(name);
            true
        } else {
            false
        }
    }
}

// ---------------------------------------------------------------------------------------------
// leaves
// ---------------------------------------------------------------------------------------------

pub const INT_LATTICE: &[i128] = &[
    0, 1, 23, 24, 255, 256, 65535, 65536, 0xffff_ffff, 0x1_0000_0000, i64::MAX as i128, i64::MAX as i128 + 1,
    u64::MAX as i128, -1, -24, -25, -256, -257, -65536, -65537, -0x1_0000_0000, -0x1_0000_0001, i64::MIN as i128,
    i64::MIN as i128 - 1, -(1i128 << 64),
];

pub fn gen_any_int(g: &mut Gen) -> i128 {
    match g.weighted(&[4, 3, 2, 1]) {
        0 => g.range_i64(-30, 30) as i128,
        1 => *g.pick(INT_LATTICE),
        2 => g.i64() as i128,
        _ => {
            // anywhere in CBOR's range
            let hi = g.u64() as i128;
            if g.bool() {
                hi
            } else {
                -1 - hi
            }
        }
    }
}

pub const FLOATS: &[f64] = &[
    0.0,
    -0.0,
    1.0,
    1.5,
    1.1,
    -4.1,
    65504.0,
    100000.0,
    3.4028234663852886e+38,
    1.0e+300,
    5.960464477539063e-8,
    0.00006103515625,
    f64::INFINITY,
    f64::NEG_INFINITY,
    1.0e-310,
    1700000000.5,
];

pub fn gen_float(g: &mut Gen, allow_nan: bool) -> f64 {
    if allow_nan && g.ratio(1, 12) {
        // NaNs with different payloads
        return *g.pick(&[f64::NAN, f64::from_bits(0x7ff8_0000_0000_0001), f64::from_bits(0xfff8_0000_0000_0000), f64::from_bits(0x7ff0_0000_0040_0000)]);
    }
    if g.ratio(1, 4) {
        let f = f64::from_bits(g.u64());
        if f.is_nan() && !allow_nan {
            return 2.5;
        }
        return f;
    }
    *g.pick(FLOATS)
}

pub const TAGS: &[u64] = &[0, 1, 4, 5, 16, 17, 18, 24, 32, 61, 96, 97, 98, 255, 256, 55799, 0xffff_ffff, 0x1_0000_0000, u64::MAX];

/// Arbitrary value of ciborium's data model (no tag 2/3, no undefined / simple values), for
/// positions the crate does not interpret.
pub fn gen_value(g: &mut Gen, depth: usize, allow_nan: bool) -> Item {
    let leaf_only = depth == 0;
    let k = g.weighted(&[5, 4, 4, 2, 1, 2, if leaf_only { 0 } else { 2 }, if leaf_only { 0 } else { 2 }, if leaf_only { 0 } else { 1 }]);
    match k {
        0 => Item::Int(gen_any_int(g)),
        1 => Item::Bytes(g.small_bytes()),
        2 => Item::Text(g.text()),
        3 => Item::Bool(g.bool()),
        4 => Item::Null,
        5 => Item::Float(gen_float(g, allow_nan)),
        6 => {
            let n = g.below(4);
            Item::Array((0..n).map(|_| gen_value(g, depth - 1, allow_nan)).collect())
        }
        7 => {
            let n = g.below(4);
            Item::Map(
                (0..n)
                    .map(|_| {
                        let k = if g.ratio(1, 5) { gen_value(g, depth - 1, allow_nan) } else { gen_label_item(g) };
                        (k, gen_value(g, depth - 1, allow_nan))
                    })
                    .collect(),
            )
        }
        _ => Item::Tag(*g.pick(TAGS), Box::new(gen_value(g, depth - 1, allow_nan))),
    }
}

/// int or text label (in range).
pub fn gen_label_item(g: &mut Gen) -> Item {
    if g.ratio(1, 4) {
        Item::Text(g.text())
    } else {
        Item::Int(match g.weighted(&[4, 2, 1]) {
            0 => g.range_i64(-12, 40) as i128,
            // every head-width boundary of both signs, and the 64-bit extremes
            1 => *g.pick(&[
                0i128, 8, 23, 24, 255, 256, 257, 65535, 65536, 0xffff_ffff, 0x1_0000_0000, -1, -24, -25, -256, -257, -65536, -65537,
                -0x1_0000_0000, -0x1_0000_0001, 1 << 31, -(1 << 31), i64::MAX as i128, i64::MAX as i128 - 1, i64::MIN as i128, i64::MIN as i128 + 1,
            ]),
            _ => g.i64() as i128,
        })
    }
}

/// A *valid* item of some structure presented in a wrapping that is not the structure itself:
/// tag 24 / another tag over its encoding as a byte string, the bare byte string, a tag directly
/// around it, or a one-element array holding it.
pub fn gen_embedded(g: &mut Gen, valid: Item) -> Item {
    let enc = crate::cbor::encode(&valid);
    match g.below(6) {
        0 => Item::Tag(24, Box::new(Item::Bytes(enc))),
        1 => Item::Bytes(enc),
        2 => Item::Tag(*g.pick(&[24u64, 55799, 61, 0, 18]), Box::new(valid)),
        3 => Item::Array(vec![valid]),
        4 => Item::Tag(*g.pick(&[16u64, 17, 18, 96, 97, 98, 63]), Box::new(Item::Bytes(enc))),
        _ => Item::Text(crate::cbor::hex(&enc)),
    }
}

/// A key that is not a label: wrong kind, or an integer outside the 64-bit signed range.
pub fn gen_non_label(g: &mut Gen) -> Item {
    match g.below(9) {
        0 => Item::Bytes(g.small_bytes()),
        1 => Item::Array(vec![]),
        2 => Item::Float(1.0),
        3 => Item::Bool(true),
        4 => Item::Null,
        5 => Item::Map(vec![]),
        6 => Item::Tag(1, Box::new(Item::Int(1))),
        7 => Item::Int(*g.pick(&[i64::MAX as i128 + 1, u64::MAX as i128, i64::MIN as i128 - 1, -(1i128 << 64)])),
        _ => Item::Array(vec![Item::Int(1)]),
    }
}

/// A value of a kind other than `not` (by kind name).
pub fn gen_wrong_kind(g: &mut Gen, not: &[&str]) -> Item {
    let cands: Vec<Item> = vec![
        Item::Int(g.range_i64(-3, 30) as i128),
        Item::Bytes(g.nonempty_bytes()),
        Item::Text(g.text()),
        Item::Array(vec![]),
        Item::Array(vec![Item::Int(1), Item::Bytes(vec![1])]),
        Item::Map(vec![]),
        Item::Bool(g.bool()),
        Item::Null,
        Item::Float(1.5),
        Item::Tag(24, Box::new(Item::Bytes(vec![0xa0]))),
    ];
    let ok: Vec<Item> = cands.into_iter().filter(|c| !not.contains(&c.kind())).collect();
    ok[g.below(ok.len())].clone()
}

fn pick_registered(g: &mut Gen, t: reg::Table) -> i64 {
    t[g.below(t.len())].1
}

fn gen_private(g: &mut Gen) -> i64 {
    match g.below(6) {
        0 => -65537,
        1 => i64::MIN,
        4 => i64::MIN + 1,
        5 => -65538,
        2 => -65538 - g.range_i64(0, 100000),
        _ => -((g.u64() >> 2) as i64) - 65537,
    }
}

/// registered / private-use / text
fn gen_reg_private(g: &mut Gen, t: reg::Table) -> Item {
    match g.weighted(&[5, 2, 2]) {
        0 => Item::Int(pick_registered(g, t) as i128),
        1 => Item::Int(gen_private(g) as i128),
        _ => Item::Text(g.text()),
    }
}

fn gen_reg(g: &mut Gen, t: reg::Table) -> Item {
    if g.ratio(1, 4) {
        Item::Text(g.text())
    } else {
        Item::Int(pick_registered(g, t) as i128)
    }
}

/// An integer that `t` does not register (and, if `private_ok` is false, possibly in the private
/// range, which is then a fault too).
pub fn gen_unregistered(g: &mut Gen, t: reg::Table, has_private: bool) -> Item {
    loop {
        let c = match g.below(8) {
            // next to the private-use boundary, next to an assigned value
            6 => -65536 + g.range_i64(0, 12),
            7 => t[g.below(t.len())].1.saturating_add(g.range_i64(-2, 2)),
            0 => g.range_i64(-70, 70),
            1 => -65536,
            2 => g.range_i64(258, 9999),
            3 => g.range_i64(-65535, -300),
            4 => i64::MAX,
            _ => {
                if has_private {
                    g.range_i64(41, 99)
                } else {
                    gen_private(g)
                }
            }
        };
        if !reg::registered(t, c) && !(has_private && reg::is_private(c)) {
            return Item::Int(c as i128);
        }
        if g.is_empty() {
            // deterministic fallback
            for c in [1000i64, 77, 99, -99, 12345] {
                if !reg::registered(t, c) {
                    return Item::Int(c as i128);
                }
            }
        }
    }
}

pub fn gen_out_of_range(g: &mut Gen) -> Item {
    Item::Int(*g.pick(&[i64::MAX as i128 + 1, u64::MAX as i128, i64::MIN as i128 - 1, -(1i128 << 64), (1i128 << 63) + 12345]))
}

const GOOD_CT: &[&str] = &[
    "a/b", "text/plain", "x/y z", "é/ü", "/", "a/", "/b", "a /b",
    // the media types RFC 8152 section 16.9 / RFC 9052 section 2 register for COSE objects
    "application/cose; cose-type=\"cose-sign\"", "application/cose; cose-type=\"cose-sign1\"",
    "application/cose; cose-type=\"cose-encrypt\"", "application/cose; cose-type=\"cose-encrypt0\"",
    "application/cose; cose-type=\"cose-mac\"", "application/cose; cose-type=\"cose-mac0\"",
    "application/cose-key", "application/cose-key-set", "application/cwt",
];

/// Registered *names* (IANA COSE registries) that a sender confusing names and numbers would put
/// where the registered integer belongs.
pub const REG_VALUE_NAMES: &[&str] = &[
    "P-256", "P-384", "P-521", "X25519", "X448", "Ed25519", "Ed448", "secp256k1", "OKP", "EC2", "RSA", "Symmetric", "ES256", "EdDSA",
    "A128KW", "A192KW", "A256KW", "A128GCM", "HS256", "direct", "sign", "verify", "encrypt", "decrypt",
];

/// Value of a key-type-specific parameter or other uninterpreted slot: any value, with registered
/// numbers, registered names and coordinate-sized byte strings over-represented.
/// A value nested `d` levels deep (arrays, one-entry maps, tags), well inside the CBOR parser's
/// recursion limit of 256 wherever the generators place it.
pub fn gen_deep_value(g: &mut Gen) -> Item {
    if g.ratio(1, 3) {
        return gen_bushy_value(g);
    }
    let d = match g.below(3) {
        0 => 10 + g.below(30),
        1 => 40 + g.below(90),
        _ => 130 + g.below(51),
    };
    let mut v = Item::Int(g.range_i64(-30, 30) as i128);
    let kind = g.below(4);
    for _ in 0..d {
        v = match if kind == 3 { g.below(3) } else { kind } {
            0 => Item::Array(vec![v]),
            1 => Item::Map(vec![(Item::Int(0), v)]),
            _ => Item::Tag(60000, Box::new(v)),
        };
    }
    v
}

/// A value holding many containers (around and beyond the parser's depth limit of 256 in *number*)
/// at trivial depth: lists of empty arrays / maps / tags, lists of short lists, a wide map of arrays.
pub fn gen_bushy_value(g: &mut Gen) -> Item {
    let k = *g.pick(&[120usize, 254, 255, 256, 257, 300, 600]) + g.below(3);
    let leaf = |i: usize| match i % 3 {
        0 => Item::Array(vec![]),
        1 => Item::Map(vec![]),
        _ => Item::Tag(60000, Box::new(Item::Int(i as i128))),
    };
    match g.below(4) {
        0 => Item::Array((0..k).map(leaf).collect()),
        1 => Item::Array((0..k).map(|_| Item::Array(vec![])).collect()),
        2 => Item::Array((0..k / 16 + 1).map(|j| Item::Array((0..16).map(|i| leaf(i + j)).collect())).collect()),
        _ => Item::Map((0..k).map(|i| (Item::Int(i as i128), Item::Array(vec![Item::Int(i as i128)]))).collect()),
    }
}

/// An opaque value that is itself a well-formed structure of one of the crate's types (a COSE_Key,
/// a header map, a claims set, a message, a key set), its map entries possibly in another order than
/// the crate's encoders emit, bare or in the wrappers the registered-but-uninterpreted parameters
/// give it (`cnf` = {1: COSE_Key} / {2: Encrypted_COSE_Key} / {3: kid}).  Opaque means opaque:
/// nothing in it is for the crate to interpret, normalise or police.
/// Inside an opaque value a protected slot is just a byte string.
fn flatten_wrapped(i: &mut Item) {
    match i {
        Item::Wrapped(w) => *i = Item::Bytes(w.content()),
        Item::Map(m) => m.iter_mut().for_each(|(k, x)| {
            flatten_wrapped(k);
            flatten_wrapped(x)
        }),
        Item::Array(a) => a.iter_mut().for_each(flatten_wrapped),
        Item::Tag(_, x) => flatten_wrapped(x),
        _ => {}
    }
}

pub fn gen_foreign_structure(g: &mut Gen) -> Item {
    let mut none = Faults::none();
    let mut v = match g.below(6) {
        0 | 1 => gen_key(g, &mut none),
        2 => gen_header(g, &mut none, 1),
        3 => gen_claims(g, &mut none),
        4 => {
            let k = *g.pick(&crate::model::KINDS);
            gen_msg(g, k, &mut none, 1)
        }
        _ => gen_keyset(g, &mut none),
    };
    fn shuffle(g: &mut Gen, i: &mut Item) {
        match i {
            Item::Map(m) => {
                match g.below(3) {
                    0 => {}
                    1 => m.reverse(),
                    _ => {
                        let p = g.permutation(m.len());
                        *m = p.into_iter().map(|k| m[k].clone()).collect();
                    }
                }
                for (_, x) in m.iter_mut() {
                    shuffle(g, x);
                }
            }
            Item::Array(a) => a.iter_mut().for_each(|x| shuffle(g, x)),
            _ => {}
        }
    }
    shuffle(g, &mut v);
    flatten_wrapped(&mut v);
    match g.below(4) {
        0 => v,
        1 => Item::Map(vec![(Item::Int(1), v)]),
        2 => Item::Map(vec![(Item::Int(g.range_i64(1, 3) as i128), v)]),
        _ => Item::Array(vec![v]),
    }
}

pub fn gen_param_value(g: &mut Gen) -> Item {
    if g.ratio(1, 60) {
        return gen_deep_value(g);
    }
    if g.ratio(1, 30) {
        return gen_foreign_structure(g);
    }
    match g.weighted(&[6, 1, 1, 1]) {
        0 => gen_value(g, 2, true),
        1 => Item::Text((*g.pick(REG_VALUE_NAMES)).to_string()),
        2 => Item::Int(g.range_i64(-8, 8) as i128),
        _ => {
            let n = *g.pick(&[31usize, 32, 33, 48, 49, 66, 67]);
            let mut b = g.bytes(n);
            if g.bool() {
                b[0] = 0;
                b[1] |= 0x80;
            }
            Item::Bytes(b)
        }
    }
}

// ---------------------------------------------------------------------------------------------
// headers
// ---------------------------------------------------------------------------------------------

fn gen_alg(g: &mut Gen, f: &mut Faults) -> Item {
    if f.take(g, "alg-bad") {
        return match g.below(4) {
            0 => gen_unregistered(g, reg::ALGORITHM, true),
            1 => gen_wrong_kind(g, &["int", "tstr"]),
            2 => gen_out_of_range(g),
            _ => Item::Float(-7.0),
        };
    }
    gen_reg_private(g, reg::ALGORITHM)
}

fn gen_crit(g: &mut Gen, f: &mut Faults) -> Item {
    if f.take(g, "crit-bad") {
        return match g.below(5) {
            0 => Item::Array(vec![]),
            1 => gen_wrong_kind(g, &["array"]),
            2 => Item::Array(vec![gen_unregistered(g, reg::HEADER_PARAMETER, false)]),
            3 => Item::Array(vec![Item::Int(1), Item::Float(2.0)]),
            _ => Item::Array(vec![Item::Int(4), gen_out_of_range(g)]),
        };
    }
    let n = 1 + g.below(3);
    Item::Array((0..n).map(|_| gen_reg(g, reg::HEADER_PARAMETER)).collect())
}

pub fn gen_content_type(g: &mut Gen, f: &mut Faults) -> Item {
    if f.take(g, "content-type-bad") {
        return match g.below(15) {
            12 | 13 | 14 => {
                // media-type-like text with parameters and non-ASCII characters whose number of slashes is wrong
                const Q: &[&str] = &["a", "text", "x-é", "café", "json", ";", "; ", ";p=1", "p=", "+", ".", "中", "中文", "😀", "é", "ü;", "\"q\""];
                let n = 2 + g.below(6);
                let mut t = String::new();
                for _ in 0..n {
                    let piece: &&str = g.pick(Q);
                    t.push_str(piece);
                }
                if g.bool() {
                    // two (or three) slashes instead of none
                    for _ in 0..(2 + g.below(2)) {
                        let mut at = g.below(t.len() + 1);
                        while !t.is_char_boundary(at) {
                            at -= 1;
                        }
                        t.insert(at, '/');
                    }
                }
                let t = t.trim_matches(crate::model::is_white_space).to_string();
                Item::Text(if t.matches('/').count() == 1 { format!("{}/", t) } else { t })
            }
            0 => gen_unregistered(g, reg::COAP_CONTENT_FORMAT, false),
            1 => Item::Int(-1),
            2 => Item::Text(String::new()),
            3 => Item::Text("plain".into()),
            4 => Item::Text("a/b/c".into()),
            5 => Item::Text(" a/b".into()),
            6 => Item::Text("a/b ".into()),
            7 => Item::Text("\u{a0}a/b".into()),
            8 => Item::Text("a/b\u{2003}".into()),
            9 => Item::Text("a/b\n".into()),
            10 => gen_wrong_kind(g, &["int", "tstr"]),
            _ => Item::Text(format!("{}a/b{}", g.pick(&["\t", "\u{3000}", "\u{85}", ""]), g.pick(&["\u{2028}", "\u{1680}", " "]))),
        };
    }
    if f.take_odds(g, "content-type-free-form", 12) {
        // free composition of media-type-like pieces: may or may not be well-formed (the model decides)
        const PIECES: &[&str] = &["a", "text", "application", "/", "/", "x-é", "café", "json", ";", "; ", "p=", "\"a/b\"", "+", ".", "中", " ", "😀"];
        let n = 1 + g.below(6);
        let mut t = String::new();
        for _ in 0..n {
            let piece: &&str = g.pick(PIECES);
            t.push_str(piece);
        }
        return Item::Text(t);
    }
    if g.ratio(1, 8) {
        // well-formed by construction: type "/" subtype with slash-free parameters
        // (pieces may hold `;` — the only structure demanded is a single `/` somewhere)
        const W: &[&str] = &["a", "text", "application", "x-é", "café", "json", "vnd.x+cbor", "中", "😀", "a;b", "vnd.example;v=1", ";a", "x=\"y\""];
        const P: &[&str] = &["", ";p=1", "; charset=utf-8", ";q=\"é\"", "+x;y", " ;z"];
        let a: &&str = g.pick(W);
        let b: &&str = g.pick(W);
        let p: &&str = g.pick(P);
        return Item::Text(format!("{}/{}{}", a, b, p));
    }
    if g.bool() {
        Item::Int(pick_registered(g, reg::COAP_CONTENT_FORMAT) as i128)
    } else if g.ratio(1, 3) {
        // random type/subtype without white space at the ends
        let mut a = g.text().replace('/', "").trim().to_string();
        let mut b = g.text().replace('/', "").trim().to_string();
        if a.chars().next().map(crate::model::is_white_space).unwrap_or(false) {
            a.insert(0, 'x');
        }
        if b.chars().last().map(crate::model::is_white_space).unwrap_or(false) {
            b.push('x');
        }
        let t = format!("{}/{}", a, b);
        // the ends must not be white space even when a or b is empty
        let t = if t.starts_with(crate::model::is_white_space) || t.ends_with(crate::model::is_white_space) { "a/b".to_string() } else { t };
        Item::Text(t)
    } else {
        Item::Text((*g.pick(GOOD_CT)).to_string())
    }
}

fn gen_nonempty_bstr_field(g: &mut Gen, f: &mut Faults, name: &'static str) -> Item {
    if f.take(g, name) {
        return if g.bool() { Item::Bytes(vec![]) } else { gen_wrong_kind(g, &["bstr"]) };
    }
    Item::Bytes(g.nonempty_bytes())
}

/// Value of label 7 holding a chain of `c` nested counter-signatures, each level carried in the
/// protected or the unprotected header of the one above, sometimes in the array form.
fn gen_cs_chain(g: &mut Gen, c: usize) -> Item {
    // the whole chain through unprotected headers, through protected ones, or mixed
    let mode = g.below(3);
    gen_cs_chain_mode(g, c, mode)
}

fn gen_cs_chain_mode(g: &mut Gen, c: usize, mode: usize) -> Item {
    let inner = if c > 1 { Item::Map(vec![(Item::Int(7), gen_cs_chain_mode(g, c - 1, mode))]) } else { Item::Map(vec![]) };
    let in_protected = match mode {
        0 => false,
        1 => true,
        _ => g.bool(),
    };
    let (prot, unprot) = if c > 1 && in_protected { (Wrapped::new(inner), Item::Map(vec![])) } else { (Item::Bytes(vec![]), inner) };
    let sig = Item::Array(vec![prot, unprot, Item::Bytes(vec![c as u8])]);
    if g.ratio(1, 4) {
        Item::Array(vec![sig, Item::Array(vec![Item::Bytes(vec![]), Item::Map(vec![]), Item::Bytes(vec![0xcc])])])
    } else {
        sig
    }
}

/// The maximum counter-signature nesting the decoder admits (`MAX_COUNTER_SIG_DEPTH` in the crate).
pub const CS_LIMIT: usize = 8;

fn gen_counter_sig(g: &mut Gen, f: &mut Faults, depth: usize) -> Item {
    g.cs_level += 1;
    let r = gen_counter_sig_at(g, f, depth);
    g.cs_level -= 1;
    r
}

fn gen_counter_sig_at(g: &mut Gen, f: &mut Faults, depth: usize) -> Item {
    if f.take(g, "countersig-bad") {
        return match g.below(6) {
            0 => Item::Array(vec![]),
            1 => gen_wrong_kind(g, &["array"]),
            2 => {
                // array starting with a kind that is neither bstr nor array
                let first = gen_wrong_kind(g, &["bstr", "array"]);
                Item::Array(vec![first, Item::Map(vec![]), Item::Bytes(vec![1])])
            }
            3 => {
                // single signature of wrong arity
                let mut s = gen_msg_valid_array(g, Kind::Signature, depth);
                match g.below(4) {
                    0 => {
                        s.pop();
                    }
                    1 => s.push(Item::Bytes(vec![9])),
                    // an extra item in front of / inside an otherwise complete triple
                    2 => s.insert(0, Item::Bytes(g.small_bytes())),
                    _ => s.insert(1, Item::Bytes(g.small_bytes())),
                }
                Item::Array(s)
            }
            4 => {
                // array of signatures whose later element is bad
                let good = Item::Array(gen_msg_valid_array(g, Kind::Signature, depth));
                let bad = match g.below(3) {
                    0 => gen_wrong_kind(g, &["array"]),
                    1 => Item::Array(vec![Item::Bytes(vec![]), Item::Map(vec![])]),
                    _ => Item::Array(vec![Item::Bytes(vec![]), Item::Map(vec![]), Item::Int(1)]),
                };
                Item::Array(vec![good, bad])
            }
            _ => {
                // inner header bad: signature whose unprotected header holds an empty kid
                Item::Array(vec![Item::Bytes(vec![]), Item::Map(vec![(Item::Int(4), Item::Bytes(vec![]))]), Item::Bytes(vec![1])])
            }
        };
    }
    if g.ratio(1, 30) {
        // rarely: a long array of counter-signatures, the later ones possibly counter-signed themselves
        let n = 6 + g.below(8);
        return Item::Array((0..n).map(|i| gen_msg(g, Kind::Signature, &mut Faults::none(), if i >= 5 { depth.min(1) } else { 0 })).collect());
    }
    let n = g.weighted(&[5, 2, 1]);
    if n == 0 {
        gen_msg(g, Kind::Signature, f, depth)
    } else {
        Item::Array((0..=n).map(|_| gen_msg(g, Kind::Signature, f, depth)).collect())
    }
}

const EXTRA_INT_LABELS: &[i128] = &[
    0, 8, 9, 10, 11, 32, 33, 34, 35, 256, 257, -1, -2, -24, -25, -256, -257, -65536, -65537, 1 << 31, -(1 << 31),
    i64::MAX as i128, i64::MIN as i128, 23, 24, 65535, 65536,
];

fn gen_extra_label(g: &mut Gen, reserved: &[i128]) -> Item {
    if g.ratio(1, 3) {
        return Item::Text(match g.below(5) {
            0 => String::new(),
            1 => "a".into(),
            2 => "aaaaaaaaaaaaaaaaaaaaaaaaaaaaaaaaaa".into(),
            3 => "é€".into(),
            _ => g.text(),
        });
    }
    loop {
        let c = if g.ratio(1, 4) { g.i64() as i128 } else { *g.pick(EXTRA_INT_LABELS) };
        if !reserved.contains(&c) {
            return Item::Int(c);
        }
        if g.is_empty() {
            return Item::Int(1000);
        }
    }
}

/// Labels for the many-extras mode: spread over one-, two-, three-byte integers of both signs and
/// short texts, never colliding with the typed labels 1-7.
fn gen_spread_label(g: &mut Gen, i: usize) -> Item {
    match g.below(5) {
        0 => Item::Int(8 + g.range_i64(0, 15) as i128),
        1 => Item::Int(24 + g.range_i64(0, 231) as i128),
        2 => Item::Int(256 + g.range_i64(0, 60000) as i128),
        3 => Item::Int(-1 - g.range_i64(0, 300) as i128),
        _ => Item::Text(format!("{}{}", g.pick(&["", "k", "kk"]), i)),
    }
}

/// Before a duplicate is planted: a few more labels of *different kinds and encoded sizes* (short
/// texts, one-, two- and four-byte integers of both signs), so that the repeated label has
/// neighbours of every class around it.
/// An integer label that is a well-known digest of a text label of the same map (FNV-1a / FNV-1 in
/// 64 and 32 bits, djb2, the text's bytes read as a big-endian number): distinct labels all the same —
/// a map key is a CBOR data item, an integer never equals a text.
pub fn add_digest_label(g: &mut Gen, entries: &mut Vec<(Item, Item)>) {
    let t = match entries.iter().find_map(|(k, _)| k.as_text().map(|s| s.to_string())) {
        Some(t) => t,
        None => {
            let t = (*g.pick(&["example", "a", "", "kid"])).to_string();
            let at = g.below(entries.len() + 1);
            entries.insert(at, (Item::Text(t.clone()), Item::Int(1)));
            t
        }
    };
    let b = t.as_bytes();
    let d: u64 = match g.below(6) {
        0 => b.iter().fold(0xcbf2_9ce4_8422_2325u64, |h, x| (h ^ *x as u64).wrapping_mul(0x0000_0100_0000_01b3)),
        1 => b.iter().fold(0xcbf2_9ce4_8422_2325u64, |h, x| h.wrapping_mul(0x0000_0100_0000_01b3) ^ *x as u64),
        2 => b.iter().fold(0x811c_9dc5u32, |h, x| (h ^ *x as u32).wrapping_mul(0x0100_0193)) as u64,
        3 => b.iter().fold(5381u64, |h, x| h.wrapping_mul(33).wrapping_add(*x as u64)),
        4 => b.iter().take(8).fold(0u64, |h, x| (h << 8) | *x as u64),
        _ => b.len() as u64,
    };
    let l = Item::Int(d as i64 as i128);
    if matches!(&l, Item::Int(i) if (0..=7).contains(i)) || entries.iter().any(|(k, _)| k == &l) {
        return;
    }
    let at = g.below(entries.len() + 1);
    entries.insert(at, (l, Item::Int(2)));
}

/// Two integer labels that fall on the same bit / slot of a small table: they differ by 32, 64, 128,
/// 256 or 65536 (word widths and table sizes), around 0 and around the bounds of such a table.
pub fn add_aliasing_labels(g: &mut Gen, entries: &mut Vec<(Item, Item)>) {
    let m = *g.pick(&[32i128, 64, 64, 64, 128, 256, 65536]);
    let a = *g.pick(&[0i128, 0, 8, 9, 10, 31, 32, 33, 63, -1, -32, -64, -65]);
    let k = 1 + g.below(2) as i128;
    let b = if g.bool() { a + k * m } else { a - k * m };
    for l in [a, b] {
        let l = Item::Int(l);
        if !entries.iter().any(|(k, _)| k == &l) {
            let at = g.below(entries.len() + 1);
            entries.insert(at, (l, Item::Int(3)));
        }
    }
}

pub fn add_mixed_labels(g: &mut Gen, entries: &mut Vec<(Item, Item)>) {
    let n = 2 + g.below(4);
    for i in 0..n {
        let l = match g.below(7) {
            0 => Item::Text((*g.pick(&["a", "b", "z", ""])).to_string()),
            1 => Item::Int(256 + g.range_i64(0, 65279) as i128),
            2 => Item::Int(-129 - g.range_i64(0, 127) as i128),
            3 => Item::Int(24 + g.range_i64(0, 231) as i128),
            4 => Item::Int(-25 - g.range_i64(0, 103) as i128),
            5 => Item::Int(-32769 - g.range_i64(0, 32767) as i128),
            _ => Item::Int(65536 + g.range_i64(0, 1 << 20) as i128),
        };
        if entries.iter().any(|(k, _)| k == &l) {
            continue;
        }
        let at = g.below(entries.len() + 1);
        entries.insert(at, (l, Item::Int(i as i128)));
    }
}

fn label_eq(a: &Item, b: &Item) -> bool {
    a == b
}

/// A header map.  `depth` bounds counter-signature nesting.
pub fn gen_header(g: &mut Gen, f: &mut Faults, depth: usize) -> Item {
    if f.take_odds(g, "header-not-map", 40) {
        if g.bool() {
            let inner = gen_header(g, &mut Faults::none(), 0);
            return gen_embedded(g, inner);
        }
        return gen_wrong_kind(g, &["map"]);
    }
    let mut entries: Vec<(Item, Item)> = vec![];
    // empty header fairly often
    if g.ratio(1, 5) {
        return Item::Map(entries);
    }
    let dense = g.ratio(1, 4);
    let want = |g: &mut Gen| if dense { g.ratio(3, 4) } else { g.ratio(1, 4) };
    if want(g) {
        entries.push((Item::Int(1), gen_alg(g, f)));
    }
    if want(g) {
        entries.push((Item::Int(2), gen_crit(g, f)));
    }
    if want(g) {
        entries.push((Item::Int(3), gen_content_type(g, f)));
    }
    if want(g) {
        entries.push((Item::Int(4), gen_nonempty_bstr_field(g, f, "kid-bad")));
    }
    let iv = want(g);
    let piv = want(g);
    if iv && piv {
        if f.take(g, "iv-and-piv") {
            entries.push((Item::Int(5), Item::Bytes(g.nonempty_bytes())));
            entries.push((Item::Int(6), Item::Bytes(g.nonempty_bytes())));
        } else if g.bool() {
            entries.push((Item::Int(5), gen_nonempty_bstr_field(g, f, "iv-bad")));
        } else {
            entries.push((Item::Int(6), gen_nonempty_bstr_field(g, f, "piv-bad")));
        }
    } else if iv {
        entries.push((Item::Int(5), gen_nonempty_bstr_field(g, f, "iv-bad")));
    } else if piv {
        entries.push((Item::Int(6), gen_nonempty_bstr_field(g, f, "piv-bad")));
    }
    if depth > 0 && g.ratio(1, if dense { 2 } else { 6 }) {
        entries.push((Item::Int(7), gen_counter_sig(g, f, depth - 1)));
    } else if g.cs_level < CS_LIMIT && g.ratio(1, 30) {
        // rarely: a chain of counter-signatures using up to all the nesting the decoder still admits
        // here (whatever structure this header belongs to: body, signer, nested recipient ...)
        let room = CS_LIMIT - g.cs_level;
        let c = if g.bool() { room } else { 1 + g.below(room) };
        entries.push((Item::Int(7), gen_cs_chain(g, c)));
    }
    // extras (rarely: dozens of them, with labels of mixed encoded lengths)
    let many = g.ratio(1, 25);
    let nextra = if many { 20 + g.below(50) } else { g.weighted(&[4, 3, 2, 1, 1]) };
    for i in 0..nextra {
        let l = if many { gen_spread_label(g, i) } else { gen_extra_label(g, &[1, 2, 3, 4, 5, 6, 7]) };
        if entries.iter().any(|(k, _)| label_eq(k, &l)) {
            continue;
        }
        let v = if many {
            Item::Int(i as i128)
        } else if g.ratio(1, 60) {
            gen_deep_value(g)
        } else if matches!(&l, Item::Int(9 | 10 | 32 | 33 | 34 | 35)) && g.bool() {
            // labels the registry assigns without the crate interpreting them (CounterSignature0, kid
            // context, x5bag, x5chain, x5t, x5u): values of the shapes their definitions give, and near misses
            match g.below(7) {
                0 => Item::Bytes(g.small_bytes()),
                1 => Item::Array(vec![Item::Bytes(g.small_bytes())]),
                2 => Item::Array(vec![Item::Bytes(g.small_bytes()), Item::Bytes(g.small_bytes())]),
                3 => Item::Array(vec![]),
                4 => Item::Array(vec![Item::Int(-16), Item::Bytes(g.small_bytes())]),
                5 => Item::Text("https://example.com/cert.pem".into()),
                _ => Item::Array(vec![Item::Array(vec![Item::Bytes(g.small_bytes())])]),
            }
        } else {
            gen_value(g, 2, true)
        };
        entries.push((l, v));
    }
    if g.ratio(1, 40) {
        add_digest_label(g, &mut entries);
    }
    if g.ratio(1, 25) {
        add_aliasing_labels(g, &mut entries);
    }
    if f.take(g, "non-label-key") {
        let at = g.below(entries.len() + 1);
        entries.insert(at, (gen_non_label(g), gen_value(g, 1, false)));
    }
    if !entries.is_empty() && (f.take(g, "duplicate-label") || (many && f.take_odds(g, "duplicate-label", 2))) {
        if !many && g.bool() {
            add_mixed_labels(g, &mut entries);
        }
        let src = g.below(entries.len());
        let k = entries[src].0.clone();
        let v = if g.bool() { entries[src].1.clone() } else { gen_value(g, 1, false) };
        let at = g.below(entries.len() + 1);
        entries.insert(at, (k, v));
    }
    // order: standard order mostly; otherwise a random permutation
    if g.ratio(1, 3) {
        let p = g.permutation(entries.len());
        entries = p.into_iter().map(|i| entries[i].clone()).collect();
    }
    Item::Map(entries)
}

/// A protected-header slot.
pub fn gen_protected(g: &mut Gen, f: &mut Faults, depth: usize) -> Item {
    if f.take(g, "protected-bad") {
        return match g.below(9) {
            // the content is a valid header map wrapped once more (bstr, tag 24, array, hex text)
            7 | 8 => {
                let inner = gen_header(g, &mut Faults::none(), 0);
                let inner = if matches!(&inner, Item::Map(m) if m.is_empty()) && g.bool() { Item::Map(vec![(Item::Int(1), Item::Int(-7))]) } else { inner };
                Wrapped::new(gen_embedded(g, inner))
            }
            0 => gen_wrong_kind(g, &["bstr"]),
            1 => {
                // map + trailing bytes
                let mut w = Wrapped { inner: gen_header(g, &mut Faults::none(), 0), junk: vec![], cut: 0, wire: None };
                w.junk = match g.below(3) {
                    0 => vec![0x00],
                    1 => vec![0xa0],
                    _ => g.nonempty_bytes(),
                };
                Item::Wrapped(Box::new(w))
            }
            2 => {
                // truncated map (at least one entry so that cutting leaves something)
                let inner = Item::Map(vec![(Item::Int(4), Item::Bytes(g.nonempty_bytes()))]);
                Item::Wrapped(Box::new(Wrapped { inner, junk: vec![], cut: 1 + g.below(2), wire: None }))
            }
            3 => Wrapped::new(gen_wrong_kind(g, &["map"])),
            4 => Wrapped::new(gen_header(g, &mut Faults { remaining: 1, odds: 1, log: vec![] }, 0)),
            5 => Item::Bytes(g.nonempty_bytes()),
            _ => Item::Null,
        };
    }
    match g.weighted(&[3, 5, 1]) {
        0 => Item::Bytes(vec![]),
        1 => Wrapped::new(gen_header(g, f, depth)),
        _ => Wrapped::new(Item::Map(vec![])), // wrapped empty map: h'a0'
    }
}

fn gen_content(g: &mut Gen, f: &mut Faults) -> Item {
    if f.take(g, "content-bad") {
        return gen_wrong_kind(g, &["bstr", "null"]);
    }
    if g.ratio(1, 4) {
        Item::Null
    } else {
        Item::Bytes(g.small_bytes())
    }
}

fn gen_auth(g: &mut Gen, f: &mut Faults) -> Item {
    if f.take(g, "auth-bad") {
        return gen_wrong_kind(g, &["bstr"]);
    }
    Item::Bytes(g.small_bytes())
}

/// A list whose length sits on or next to a power of two where a counter, a stamp or an index of
/// the implementation might wrap (255, 256, 257, 511, 512, 513, rarely 65535-65537): mostly the
/// plain element, a few occurrences of the marked element at distances 1, 255, 256, 257, length-1.
pub fn sparse_long_list(g: &mut Gen, plain: Item, marked: Item) -> Vec<Item> {
    let n = if g.ratio(1, 12) { *g.pick(&[65535usize, 65536, 65537]) } else { *g.pick(&[254usize, 255, 256, 257, 258, 300, 511, 512, 513]) };
    let mut v: Vec<Item> = (0..n).map(|_| plain.clone()).collect();
    let first = g.below(n.min(6));
    v[first] = marked.clone();
    for _ in 0..g.weighted(&[1, 3, 2]) {
        let d = *g.pick(&[1usize, 254, 255, 256, 257, 510, 511, 512, n - 1]);
        if first + d < n {
            v[first + d] = marked.clone();
        }
    }
    v
}

fn gen_nested(g: &mut Gen, kind: Kind, f: &mut Faults, depth: usize) -> Item {
    if f.take(g, "nested-bad") {
        return match g.below(7) {
            // a single structure where the list of structures belongs (not wrapped in a list)
            4 => gen_msg(g, kind, &mut Faults::none(), 0),
            // a list nested one level too deep
            5 => Item::Array(vec![Item::Array(vec![gen_msg(g, kind, &mut Faults::none(), 0)])]),
            // a structure of the other nested kind (signature vs recipient shapes)
            6 => {
                let other = if kind == Kind::Signature { Kind::Recipient } else { Kind::Signature };
                let mut v = vec![gen_protected(g, &mut Faults::none(), 0), gen_header(g, &mut Faults::none(), 0)];
                v.push(if other == Kind::Signature { Item::Bytes(g.small_bytes()) } else { Item::Null });
                Item::Array(vec![Item::Array(v)])
            }
            0 => gen_wrong_kind(g, &["array"]),
            1 => Item::Array(vec![gen_wrong_kind(g, &["array"])]),
            2 => {
                let good = gen_msg(g, kind, &mut Faults::none(), 0);
                let bad = Item::Array(vec![Item::Bytes(vec![]), Item::Map(vec![])]);
                Item::Array(if g.bool() { vec![good, bad] } else { vec![bad, good] })
            }
            _ => Item::Array(vec![gen_msg(g, kind, &mut Faults { remaining: 1, odds: 1, log: vec![] }, 0)]),
        };
    }
    if g.ratio(1, 50) {
        // rarely: a long list of minimal structures
        let n = 12 + g.below(40);
        return Item::Array((0..n).map(|_| gen_msg(g, kind, &mut Faults::none(), 0)).collect());
    }
    if g.ratio(1, 150) {
        // rarer: a list as long as a byte-sized (or 16-bit) counter, a few elements of it with content
        let plain = Item::Array(vec![Item::Bytes(vec![]), Item::Map(vec![]), if kind == Kind::Signature { Item::Bytes(vec![]) } else { Item::Null }]);
        let marked = gen_msg(g, kind, &mut Faults::none(), 0);
        return Item::Array(sparse_long_list(g, plain, marked));
    }
    let n = if depth == 0 { g.weighted(&[1, 6, 2, 1, 1]) } else { g.weighted(&[1, 5, 3, 2, 1]) };
    let mut v: Vec<Item> = (0..n).map(|_| gen_msg(g, kind, f, depth.saturating_sub(1))).collect();
    // correlation between siblings: a later element carries the protected content (or is a whole
    // copy) of an earlier one — patterns A,A / A,B,B / A,B,A ...
    if n >= 2 && g.ratio(1, 4) {
        for k in 1..n {
            if g.bool() {
                let from = g.below(k);
                if g.ratio(1, 4) {
                    v[k] = v[from].clone();
                } else {
                    let p = match &v[from] {
                        Item::Array(a) if !a.is_empty() => Some(a[0].clone()),
                        _ => None,
                    };
                    if let (Some(p), Item::Array(a)) = (p, &mut v[k]) {
                        if !a.is_empty() {
                            a[0] = p;
                        }
                    }
                }
            }
        }
    }
    Item::Array(v)
}

/// Slots of a structurally valid message array of `kind` (faults may still be planted inside
/// slots through `f`).
fn gen_msg_slots(g: &mut Gen, kind: Kind, f: &mut Faults, depth: usize) -> Vec<Item> {
    let mut v = vec![gen_protected(g, f, depth), gen_header(g, f, depth)];
    match kind {
        Kind::Signature => v.push(gen_auth(g, f)),
        Kind::Sign1 | Kind::Mac0 => {
            v.push(gen_content(g, f));
            v.push(gen_auth(g, f));
        }
        Kind::Sign => {
            v.push(gen_content(g, f));
            v.push(gen_nested(g, Kind::Signature, f, depth));
        }
        Kind::Mac => {
            v.push(gen_content(g, f));
            v.push(gen_auth(g, f));
            v.push(gen_nested(g, Kind::Recipient, f, depth));
        }
        Kind::Encrypt => {
            v.push(gen_content(g, f));
            v.push(gen_nested(g, Kind::Recipient, f, depth));
        }
        Kind::Encrypt0 => v.push(gen_content(g, f)),
        Kind::Recipient => {
            v.push(gen_content(g, f));
            if depth > 0 && g.ratio(1, 3) {
                v.push(gen_nested(g, Kind::Recipient, f, depth));
            } else if g.ratio(1, 8) {
                v.push(Item::Array(vec![]));
            }
        }
    }
    v
}

fn gen_msg_valid_array(g: &mut Gen, kind: Kind, depth: usize) -> Vec<Item> {
    gen_msg_slots(g, kind, &mut Faults::none(), depth)
}

/// A message array of `kind`.
pub fn gen_msg(g: &mut Gen, kind: Kind, f: &mut Faults, depth: usize) -> Item {
    if f.take_odds(g, "msg-not-array", 30) {
        if g.bool() {
            let inner = Item::Array(gen_msg_slots(g, kind, &mut Faults::none(), 0));
            let e = gen_embedded(g, inner);
            // (a one-element array holding the message is still an array: keep it — the arity check must reject it)
            return e;
        }
        return gen_wrong_kind(g, &["array"]);
    }
    let mut v = gen_msg_slots(g, kind, f, depth);
    // correlation: sometimes a nested signer / recipient carries the same protected content as the
    // body (the styled encoder still draws their bytes independently)
    if g.ratio(1, 8) {
        let body_prot = v[0].clone();
        if let Some(Item::Array(nested)) = v.last_mut() {
            if !nested.is_empty() {
                let at = g.below(nested.len());
                if let Item::Array(inner) = &mut nested[at] {
                    if !inner.is_empty() {
                        inner[0] = body_prot;
                    }
                }
            }
        }
    }
    if f.take_odds(g, "msg-arity-alias", 60) {
        // a length that aliases the right arity when truncated to 8 or 16 bits
        let extra = if g.ratio(1, 6) { 65536 } else { 256 * (1 + g.below(2)) };
        for _ in 0..extra {
            v.push(Item::Null);
        }
    }
    if f.take(g, "msg-arity") {
        match g.below(4) {
            0 => {
                v.pop();
            }
            1 => v.push(gen_value(g, 1, false)),
            2 => {
                let at = g.below(v.len() + 1);
                v.insert(at, Item::Bytes(g.small_bytes()));
            }
            _ => {
                let at = g.below(v.len());
                v.remove(at);
            }
        }
    }
    if f.take(g, "msg-slots-swapped") && v.len() >= 2 {
        let i = g.below(v.len());
        let j = g.below(v.len());
        v.swap(i, j);
    }
    Item::Array(v)
}

// ---------------------------------------------------------------------------------------------
// keys
// ---------------------------------------------------------------------------------------------

fn gen_key_ops(g: &mut Gen, f: &mut Faults) -> Item {
    if f.take(g, "key-ops-bad") {
        return match g.below(6) {
            0 => Item::Array(vec![]),
            1 => gen_wrong_kind(g, &["array"]),
            2 => Item::Array(vec![Item::Int(1), gen_unregistered(g, reg::KEY_OPERATION, false)]),
            3 => {
                let x = Item::Int(g.range_i64(1, 10) as i128);
                Item::Array(vec![x.clone(), Item::Int(2), x])
            }
            4 => Item::Array(vec![Item::Text("op".into()), Item::Int(3), Item::Text("op".into())]),
            _ => Item::Array(vec![Item::Float(1.0)]),
        };
    }
    // mostly 1-4 entries; sometimes many (all ten registered operations and more text ones)
    let n = if g.ratio(1, 8) { 8 + g.below(12) } else { 1 + g.below(4) };
    let mut v: Vec<Item> = vec![];
    for i in 0..n {
        let c = if n > 6 && i < 10 && g.ratio(3, 4) { Item::Int(1 + i as i128) } else if n > 6 { Item::Text(format!("op{}", i)) } else { gen_reg(g, reg::KEY_OPERATION) };
        if !v.contains(&c) {
            v.push(c);
        }
    }
    if n > 6 && g.bool() {
        let p = g.permutation(v.len());
        v = p.into_iter().map(|i| v[i].clone()).collect();
    }
    Item::Array(v)
}

pub fn gen_key(g: &mut Gen, f: &mut Faults) -> Item {
    if f.take_odds(g, "key-not-map", 30) {
        if g.bool() {
            let inner = gen_key(g, &mut Faults::none());
            return gen_embedded(g, inner);
        }
        return gen_wrong_kind(g, &["map"]);
    }
    if f.remaining == 0 && g.ratio(1, 12) {
        return gen_realistic_key(g);
    }
    let mut entries: Vec<(Item, Item)> = vec![];
    if !f.take(g, "kty-absent") {
        let kty = if f.take(g, "kty-bad") {
            match g.below(4) {
                0 => Item::Int(0),
                1 => gen_unregistered(g, reg::KEY_TYPE, false),
                2 => gen_wrong_kind(g, &["int", "tstr"]),
                _ => gen_out_of_range(g),
            }
        } else if g.ratio(1, 5) {
            Item::Text(g.text())
        } else {
            Item::Int(g.range_i64(1, 6) as i128)
        };
        entries.push((Item::Int(1), kty));
    }
    if g.ratio(1, 3) {
        entries.push((Item::Int(2), gen_nonempty_bstr_field(g, f, "key-kid-bad")));
    }
    if g.ratio(1, 3) {
        entries.push((Item::Int(3), gen_alg(g, f)));
    }
    if g.ratio(1, 3) {
        entries.push((Item::Int(4), gen_key_ops(g, f)));
    }
    if g.ratio(1, 3) {
        entries.push((Item::Int(5), gen_nonempty_bstr_field(g, f, "base-iv-bad")));
    }
    let many = g.ratio(1, 25);
    let nextra = if many { 20 + g.below(50) } else { g.weighted(&[2, 3, 3, 2, 1]) };
    for i in 0..nextra {
        let l = if many {
            gen_spread_label(g, i)
        } else if g.ratio(2, 3) {
            Item::Int(-(g.range_i64(1, 12)) as i128)
        } else {
            gen_extra_label(g, &[1, 2, 3, 4, 5])
        };
        if entries.iter().any(|(k, _)| k == &l) {
            continue;
        }
        entries.push((l, if many { Item::Int(i as i128) } else { gen_param_value(g) }));
    }
    if g.ratio(1, 40) {
        add_digest_label(g, &mut entries);
    }
    if g.ratio(1, 25) {
        add_aliasing_labels(g, &mut entries);
    }
    if f.take(g, "non-label-key") {
        let at = g.below(entries.len() + 1);
        entries.insert(at, (gen_non_label(g), gen_value(g, 1, false)));
    }
    if !entries.is_empty() && (f.take(g, "duplicate-label") || (many && f.take_odds(g, "duplicate-label", 2))) {
        let src = g.below(entries.len());
        let k = entries[src].0.clone();
        let at = g.below(entries.len() + 1);
        entries.insert(at, (k, gen_value(g, 1, false)));
    }
    if g.ratio(1, 3) {
        let p = g.permutation(entries.len());
        entries = p.into_iter().map(|i| entries[i].clone()).collect();
    }
    Item::Map(entries)
}

/// Key material as applications hold it: a coordinate / scalar / modulus of the size its curve or
/// key type calls for, one octet shorter (leading zero stripped) or one longer (an ASN.1 sign octet
/// `00` in front of a top-bit-set value, a SEC1 prefix), all-zero, all-ones.
fn gen_key_material(g: &mut Gen, size: usize) -> Item {
    let n = match g.below(6) {
        0 => size.saturating_sub(1).max(1),
        1 | 2 => size + 1,
        _ => size,
    };
    let mut b = match g.below(5) {
        0 => vec![0u8; n],
        1 => vec![0xffu8; n],
        _ => g.bytes(n),
    };
    if n == size + 1 {
        b[0] = *g.pick(&[0u8, 0, 0, 2, 3, 4]);
        if g.ratio(2, 3) {
            b[1] |= 0x80;
        }
    } else if g.bool() {
        b[0] |= 0x80;
    }
    Item::Bytes(b)
}

/// A well-formed key of one of the registered key types with the parameters that type defines
/// (OKP / EC2 with a registered curve and field-sized coordinates, RSA, symmetric), kid / alg /
/// key_ops as usual, in the registered or a shuffled member order.
pub fn gen_realistic_key(g: &mut Gen) -> Item {
    let mut e: Vec<(Item, Item)> = vec![];
    match g.below(4) {
        0 => {
            let (crv, size) = *g.pick(&[(1i128, 32usize), (2, 48), (3, 66), (8, 32)]);
            e.push((Item::Int(1), Item::Int(2)));
            e.push((Item::Int(-1), if g.ratio(1, 8) { Item::Text((*g.pick(&["P-256", "P-384", "P-521", "secp256k1"])).to_string()) } else { Item::Int(crv) }));
            e.push((Item::Int(-2), gen_key_material(g, size)));
            e.push((Item::Int(-3), if g.ratio(1, 4) { Item::Bool(g.bool()) } else { gen_key_material(g, size) }));
            if g.bool() {
                e.push((Item::Int(-4), gen_key_material(g, size)));
            }
        }
        1 => {
            let (crv, size) = *g.pick(&[(4i128, 32usize), (5, 56), (6, 32), (7, 57)]);
            e.push((Item::Int(1), Item::Int(1)));
            e.push((Item::Int(-1), Item::Int(crv)));
            e.push((Item::Int(-2), gen_key_material(g, size)));
            if g.bool() {
                e.push((Item::Int(-4), gen_key_material(g, size)));
            }
        }
        2 => {
            e.push((Item::Int(1), Item::Int(3)));
            let n = *g.pick(&[128usize, 256]);
            e.push((Item::Int(-1), gen_key_material(g, n)));
            e.push((Item::Int(-2), Item::Bytes(vec![1, 0, 1])));
        }
        _ => {
            e.push((Item::Int(1), Item::Int(4)));
            let n = *g.pick(&[16usize, 24, 32, 64]);
            e.push((Item::Int(-1), gen_key_material(g, n)));
        }
    }
    let mut none = Faults::none();
    if g.bool() {
        e.push((Item::Int(2), Item::Bytes(g.nonempty_bytes())));
    }
    if g.ratio(1, 3) {
        e.push((Item::Int(3), gen_alg(g, &mut none)));
    }
    if g.ratio(1, 3) {
        e.push((Item::Int(4), gen_key_ops(g, &mut none)));
    }
    if g.ratio(1, 3) {
        let p = g.permutation(e.len());
        e = p.into_iter().map(|i| e[i].clone()).collect();
    }
    Item::Map(e)
}

pub fn gen_keyset(g: &mut Gen, f: &mut Faults) -> Item {
    if f.take_odds(g, "keyset-not-array", 30) {
        return gen_wrong_kind(g, &["array"]);
    }
    if g.ratio(1, 60) {
        // a key set as long as a byte-sized (or 16-bit) counter: minimal keys, a few with content
        let plain = Item::Map(vec![(Item::Int(1), Item::Int(4))]);
        let marked = gen_key(g, &mut Faults::none());
        return Item::Array(sparse_long_list(g, plain, marked));
    }
    let n = g.weighted(&[1, 4, 3, 2]);
    let mut v: Vec<Item> = (0..n).map(|_| gen_key(g, f)).collect();
    // correlation between sibling keys: a later key is an earlier one again — whole, or with one
    // parameter changed / added / removed (same kid and kty, other key material, and the like)
    if n >= 2 && g.ratio(1, 4) {
        for k in 1..n {
            if g.bool() {
                let from = g.below(k);
                let mut c = v[from].clone();
                if let Item::Map(m) = &mut c {
                    match g.below(4) {
                        0 => {}
                        1 => {
                            let l = Item::Int(-20 - g.range_i64(0, 9) as i128);
                            if !m.iter().any(|(k, _)| k == &l) {
                                m.push((l, Item::Bytes(g.small_bytes())));
                            }
                        }
                        2 => {
                            // change the value of a key-type-specific (negative) parameter, if any
                            if let Some(e) = m.iter_mut().find(|(l, _)| matches!(l, Item::Int(i) if *i < 0)) {
                                e.1 = Item::Bytes(g.nonempty_bytes());
                            } else {
                                m.push((Item::Int(-1), Item::Int(g.range_i64(1, 8) as i128)));
                            }
                        }
                        _ => {
                            if m.len() > 1 {
                                let at = g.below(m.len());
                                if m[at].0 != Item::Int(1) {
                                    m.remove(at);
                                }
                            }
                        }
                    }
                }
                v[k] = c;
            }
        }
    }
    Item::Array(v)
}

// ---------------------------------------------------------------------------------------------
// claims
// ---------------------------------------------------------------------------------------------

fn gen_time(g: &mut Gen, f: &mut Faults) -> Item {
    if f.take(g, "time-bad") {
        return match g.below(3) {
            0 => gen_out_of_range(g),
            // an epoch-time or date-string tag around the number (NumericDate is untagged)
            1 => Item::Tag(*g.pick(&[1u64, 0, 100, 1004]), Box::new(if g.bool() { Item::Int(1700000000) } else { Item::Float(1.5) })),
            _ => gen_wrong_kind(g, &["int", "float"]),
        };
    }
    if g.bool() {
        Item::Int(match g.below(4) {
            0 => 1700000000,
            1 => g.i64() as i128,
            2 => *g.pick(&[0i128, -1, i64::MAX as i128, i64::MIN as i128, 23, 24, 0xffff_ffff]),
            _ => g.range_i64(-100, 100) as i128,
        })
    } else {
        Item::Float(gen_float(g, true))
    }
}

pub fn gen_claims(g: &mut Gen, f: &mut Faults) -> Item {
    if f.take_odds(g, "claims-not-map", 30) {
        if g.bool() {
            let inner = gen_claims(g, &mut Faults::none());
            return gen_embedded(g, inner);
        }
        return gen_wrong_kind(g, &["map"]);
    }
    let mut entries: Vec<(Item, Item)> = vec![];
    for k in 1..=3 {
        if g.ratio(1, 3) {
            let v = if f.take(g, "text-claim-bad") {
                if g.bool() {
                    // a tagged text (URI, base64url, MIME ... tags) where plain text belongs
                    let t = if g.bool() { "coap://as.example.com".to_string() } else { g.text() };
                    Item::Tag(*g.pick(&[32u64, 33, 34, 36, 0, 24, 55799]), Box::new(Item::Text(t)))
                } else {
                    gen_wrong_kind(g, &["tstr"])
                }
            } else {
                Item::Text(g.text())
            };
            entries.push((Item::Int(k), v));
        }
    }
    for k in 4..=6 {
        if g.ratio(1, 3) {
            entries.push((Item::Int(k), gen_time(g, f)));
        }
    }
    if g.ratio(1, 3) {
        let v = if f.take(g, "cti-bad") {
            if g.ratio(1, 3) { Item::Tag(*g.pick(&[24u64, 21, 22, 23, 37]), Box::new(Item::Bytes(g.small_bytes()))) } else { gen_wrong_kind(g, &["bstr"]) }
        } else {
            Item::Bytes(g.small_bytes())
        };
        entries.push((Item::Int(7), v));
    }
    if g.ratio(1, 20) {
        // two negative names a multiple of 64 / 256 / 65536 apart (registered -257..-260 or private use),
        // or the two most negative private-use names
        let a: i128 = *g.pick(&[-257i128, -258, -259, -260, -65537, -65538, -70000, i64::MIN as i128 + 1]);
        let m = *g.pick(&[64i128, 64, 128, 256, 65536]);
        let mut b = a - m * (1 + g.below(3) as i128);
        while b > -65537 {
            b -= m * 1024;
        }
        if a == i64::MIN as i128 + 1 {
            b = i64::MIN as i128;
        }
        for l in [a, b] {
            if !entries.iter().any(|(k, _)| k == &Item::Int(l)) {
                entries.push((Item::Int(l), Item::Int(1)));
            }
        }
    }
    let many = g.ratio(1, 25);
    let nextra = if many { 20 + g.below(50) } else { g.weighted(&[3, 3, 2, 1]) };
    for i in 0..nextra {
        let l = if many {
            if g.bool() { Item::Text(format!("c{}", i)) } else { Item::Int(-65537 - g.range_i64(0, 100000) as i128) }
        } else if f.take(g, "claim-key-bad") {
            match g.below(3) {
                0 => gen_unregistered(g, reg::CWT_CLAIM_NAME, true),
                1 => gen_non_label(g),
                _ => gen_out_of_range(g),
            }
        } else {
            match g.weighted(&[4, 2, 2]) {
                0 => Item::Int(*g.pick(&[0i128, 8, 9, 38, 39, 40, -260, -259, -258, -257])),
                1 => Item::Int(gen_private(g) as i128),
                _ => Item::Text(g.text()),
            }
        };
        if entries.iter().any(|(k, _)| k == &l) {
            continue;
        }
        // the confirmation claim carries a key, an encrypted key or a key id; other claims anything
        let v = if l == Item::Int(8) && g.bool() {
            let mut none = Faults::none();
            match g.below(6) {
                0 => Item::Map(vec![(Item::Int(3), Item::Bytes(g.small_bytes()))]),
                1 => Item::Map(vec![(Item::Int(2), Item::Array(vec![Item::Bytes(vec![0xa1, 0x01, 0x01]), Item::Map(vec![(Item::Int(5), Item::Bytes(g.nonempty_bytes()))]), Item::Bytes(g.small_bytes())]))]),
                // (opaque all the same: a member 1 that is almost a key, or no key at all, is still a claim value)
                2 => {
                    let mut k = gen_key(g, &mut Faults::one());
                    flatten_wrapped(&mut k);
                    Item::Map(vec![(Item::Int(1), k)])
                }
                3 => {
                    let mut h = gen_header(g, &mut none, 0);
                    flatten_wrapped(&mut h);
                    Item::Map(vec![(Item::Int(1), h)])
                }
                _ => {
                    let mut k = gen_key(g, &mut none);
                    if let Item::Map(m) = &mut k {
                        let p = g.permutation(m.len());
                        *m = p.into_iter().map(|i| m[i].clone()).collect();
                    }
                    flatten_wrapped(&mut k);
                    Item::Map(vec![(Item::Int(1), k)])
                }
            }
        } else if g.ratio(1, 12) {
            gen_param_value(g)
        } else {
            gen_value(g, 2, true)
        };
        entries.push((l, v));
    }
    if !entries.is_empty() && (f.take(g, "duplicate-label") || (many && f.take_odds(g, "duplicate-label", 2))) {
        let src = g.below(entries.len());
        let k = entries[src].0.clone();
        let at = g.below(entries.len() + 1);
        entries.insert(at, (k, gen_value(g, 1, false)));
    }
    if g.ratio(1, 3) {
        let p = g.permutation(entries.len());
        entries = p.into_iter().map(|i| entries[i].clone()).collect();
    }
    Item::Map(entries)
}

// ---------------------------------------------------------------------------------------------
// KDF context
// ---------------------------------------------------------------------------------------------

fn gen_bstr_or_nil(g: &mut Gen, f: &mut Faults, name: &'static str) -> Item {
    if f.take(g, name) {
        return gen_wrong_kind(g, &["bstr", "null"]);
    }
    if g.bool() {
        Item::Null
    } else {
        Item::Bytes(g.small_bytes())
    }
}

pub fn gen_party(g: &mut Gen, f: &mut Faults) -> Item {
    if f.take(g, "party-shape") {
        return match g.below(3) {
            0 => gen_wrong_kind(g, &["array"]),
            1 => Item::Array(vec![Item::Null, Item::Null]),
            _ => Item::Array(vec![Item::Null, Item::Null, Item::Null, Item::Null]),
        };
    }
    let id = gen_bstr_or_nil(g, f, "party-identity-bad");
    let nonce = if f.take(g, "party-nonce-bad") {
        if g.bool() {
            gen_out_of_range(g)
        } else {
            gen_wrong_kind(g, &["bstr", "null", "int"])
        }
    } else {
        match g.below(3) {
            0 => Item::Null,
            1 => Item::Bytes(g.small_bytes()),
            _ => Item::Int(if g.bool() { g.i64() as i128 } else { *g.pick(&[0i128, -1, 23, 24, i64::MAX as i128, i64::MIN as i128]) }),
        }
    };
    let other = gen_bstr_or_nil(g, f, "party-other-bad");
    Item::Array(vec![id, nonce, other])
}

pub fn gen_supp(g: &mut Gen, f: &mut Faults) -> Item {
    if f.take(g, "supp-shape") {
        return match g.below(3) {
            0 => gen_wrong_kind(g, &["array"]),
            1 => Item::Array(vec![Item::Int(128)]),
            _ => Item::Array(vec![Item::Int(128), Item::Bytes(vec![]), Item::Bytes(vec![1]), Item::Bytes(vec![2])]),
        };
    }
    let kdl = if f.take(g, "key-data-length-bad") {
        match g.below(4) {
            0 => Item::Int(-1),
            1 => Item::Int(-(1i128 << 64)),
            2 => Item::Bytes(vec![1]),
            _ => Item::Float(128.0),
        }
    } else {
        Item::Int(match g.below(4) {
            0 => 128,
            1 => g.u64() as i128,
            2 => *g.pick(&[0i128, 23, 24, 256, u64::MAX as i128, i64::MAX as i128 + 1]),
            _ => g.range_i64(0, 512) as i128,
        })
    };
    let p = gen_protected(g, f, 1);
    let mut v = vec![kdl, p];
    if g.ratio(1, 3) {
        v.push(if f.take(g, "supp-other-bad") { gen_wrong_kind(g, &["bstr"]) } else { Item::Bytes(g.small_bytes()) });
    }
    Item::Array(v)
}

pub fn gen_kdf(g: &mut Gen, f: &mut Faults) -> Item {
    if f.take_odds(g, "kdf-shape", 15) {
        return match g.below(3) {
            0 => gen_wrong_kind(g, &["array"]),
            1 => {
                let n = g.below(4);
                Item::Array((0..n).map(|_| Item::Null).collect())
            }
            _ => Item::Array(vec![Item::Int(1), gen_party(g, &mut Faults::none()), gen_party(g, &mut Faults::none())]),
        };
    }
    let alg = gen_alg(g, f);
    let u = gen_party(g, f);
    let v = gen_party(g, f);
    let s = gen_supp(g, f);
    let mut a = vec![alg, u, v, s];
    let n = g.weighted(&[4, 2, 1, 1]);
    for _ in 0..n {
        a.push(if f.take(g, "supp-priv-bad") { gen_wrong_kind(g, &["bstr"]) } else { Item::Bytes(g.small_bytes()) });
    }
    Item::Array(a)
}

//! C19 — builders apply exactly the documented effect of each call, in any order.
//!
//! Every builder is described by: an op type (data only), a palette of ops (for exhaustive short
//! sequences), a random op generator, an interpreter over the real builder, and a model that
//! applies each call's *documented* effect to a struct literal through public fields.

use crate::cbor::{encode, Item};
use crate::props::common::same;
use crate::props::structs::{ref_enc_structure, ref_mac_structure, ref_sig_structure};
use crate::props::segment;
use crate::registry as reg;
use crate::run::{catch, hash_str, CaseResult, Ctx, Property, Tier};
use crate::tape::Gen;
use coset::cbor::value::Value;
use coset::cwt::{ClaimName, ClaimsSet, ClaimsSetBuilder, Timestamp};
use coset::iana::{self, EnumI64};
use coset::*;
use std::fmt::Debug;

/// Outcome of interpreting a sequence: the built value, or the index of the call that panicked.
type Run<T> = Result<T, usize>;

trait Spec {
    type Op: Clone + Debug;
    type Out: PartialEq + Debug;
    const NAME: &'static str;
    fn palette() -> Vec<Self::Op>;
    fn gen_op(g: &mut Gen) -> Self::Op;
    fn real(ops: &[Self::Op]) -> Run<Self::Out>;
    fn model(ops: &[Self::Op]) -> Run<Self::Out>;
    /// extra invariant on the final value
    fn invariant(_out: &Self::Out) -> Result<(), String> {
        Ok(())
    }
}

thread_local! {
    /// whether `start!` hands out `Builder::default()` instead of `Builder::new()`
    static VIA_DEFAULT: std::cell::Cell<bool> = const { std::cell::Cell::new(false) };
}

/// A fresh builder: `new()`, or (second pass of `check`) the `Default` value, which is a builder in
/// the same initial state — every call sequence has the same documented effect from either.
macro_rules! start {
    ($b:ty) => {
        if VIA_DEFAULT.with(|c| c.get()) { <$b>::default() } else { <$b>::new() }
    };
}

fn check<S: Spec>(ops: &[S::Op]) -> CaseResult {
    check_from::<S>(ops, false)?;
    check_from::<S>(ops, true).map_err(|e| format!("[builder obtained through Default] {}", e))
}

fn check_from<S: Spec>(ops: &[S::Op], via_default: bool) -> CaseResult {
    VIA_DEFAULT.with(|c| c.set(via_default));
    let real = S::real(ops);
    VIA_DEFAULT.with(|c| c.set(false));
    let model = S::model(ops);
    match (&real, &model) {
        (Ok(r), Ok(m)) => {
            ensure!(same(r, m), "{}: built value differs from the documented effect of the calls\n  calls: {:?}\n  built:    {}\n  expected: {}", S::NAME, ops, crate::props::common::short(r, 900), crate::props::common::short(m, 900));
            S::invariant(r).map_err(|e| format!("{}: {} after {:?}", S::NAME, e, ops))
        }
        (Err(i), Err(j)) => {
            ensure!(i == j, "{}: call #{} panicked but the documented refusal is at call #{}\n  calls: {:?}", S::NAME, i, j, ops);
            Ok(())
        }
        (Err(i), Ok(_)) => Err(format!("{}: call #{} ({:?}) panicked although nothing documents a refusal\n  calls: {:?}", S::NAME, i, ops.get(*i), ops)),
        (Ok(_), Err(j)) => Err(format!("{}: call #{} ({:?}) must be refused with a panic but was applied\n  calls: {:?}", S::NAME, j, ops.get(*j), ops)),
    }
}

/// Fold ops over a builder, catching a panic at each step.
macro_rules! fold_real {
    ($init:expr, $ops:expr, |$b:ident, $op:ident| $body:expr) => {{
        let mut cur = Some($init);
        let mut failed = None;
        for (i, $op) in $ops.iter().enumerate() {
            let $b = cur.take().unwrap();
            let $op = $op.clone();
            match catch(move || $body) {
                Ok(nb) => cur = Some(nb),
                Err(_) => {
                    failed = Some(i);
                    break;
                }
            }
        }
        match failed {
            Some(i) => Err(i),
            None => Ok(cur.unwrap().build()),
        }
    }};
}

// ---- shared argument palettes ----------------------------------------------------------------

fn bytes_palette() -> Vec<Vec<u8>> {
    vec![vec![], vec![1], vec![0xaa, 0xbb]]
}
fn gen_bytes(g: &mut Gen) -> Vec<u8> {
    if g.ratio(1, 3) {
        bytes_palette()[g.below(3)].clone()
    } else {
        g.small_bytes()
    }
}
/// Key-material-shaped bytes: lengths at and next to the field sizes of the registered curves and
/// the symmetric key sizes, with the leading octets an integer or SEC1 point encoding would have
/// (0x00 before a high bit, 0x00 0x00, 0xff, the 02/03/04 point prefixes).
fn gen_coord(g: &mut Gen) -> Vec<u8> {
    if g.bool() {
        return gen_bytes(g);
    }
    let n = *g.pick(&[16usize, 24, 28, 31, 32, 33, 47, 48, 49, 56, 57, 64, 65, 66, 67, 97, 133]);
    let mut b = g.bytes(n);
    match g.below(7) {
        0 => {
            b[0] = 0;
            b[1] |= 0x80;
        }
        1 => {
            b[0] = 0;
            b[1] = 0;
        }
        2 => b[0] = 0xff,
        3 => b[0] = 0x02 + g.below(3) as u8,
        4 => b.iter_mut().for_each(|x| *x = 0),
        _ => {}
    }
    b
}
fn values_palette() -> Vec<Value> {
    vec![Value::Null, Value::from(7), Value::Bytes(vec![1])]
}
fn gen_val(g: &mut Gen) -> Value {
    match g.below(9) {
        0 => Value::Null,
        1 => Value::from(g.i64()),
        2 => Value::Bytes(g.small_bytes()),
        3 => Value::Text(g.text()),
        4 => Value::Array(vec![Value::Bool(g.bool())]),
        // the shapes the registered-but-uninterpreted parameters take (certificate bags and chains, hashes,
        // URIs, nested maps) and their near misses: lists of 0, 1, 2 byte strings, [int, bstr], ...
        5 => Value::Array((0..g.below(4)).map(|_| Value::Bytes(g.small_bytes())).collect()),
        6 => Value::Array(vec![Value::from(g.range_i64(-50, 50)), Value::Bytes(g.small_bytes())]),
        7 => Value::Map(vec![(Value::from(g.range_i64(-3, 3)), Value::Array(vec![Value::Bytes(g.small_bytes())]))]),
        _ => Value::Array(vec![Value::Array(vec![Value::Bytes(g.small_bytes())])]),
    }
}

/// A label argument for an "any other label" call: small integers, every number some COSE / CWT
/// registry assigns (they may mean something to the crate one day) and its neighbours, the
/// private-use boundary, any 64-bit integer.
fn gen_label_arg(g: &mut Gen, small: (i64, i64)) -> i64 {
    match g.below(5) {
        0 | 1 => g.range_i64(small.0, small.1),
        2 => {
            let tables = [reg::HEADER_PARAMETER, reg::HEADER_ALGORITHM_PARAMETER, reg::KEY_PARAMETER, reg::OKP_KEY_PARAMETER, reg::EC2_KEY_PARAMETER, reg::RSA_KEY_PARAMETER, reg::WALNUT_DSA_KEY_PARAMETER, reg::CWT_CLAIM_NAME, reg::KEY_OPERATION];
            let t = tables[g.below(tables.len())];
            t[g.below(t.len())].1.saturating_add([0i64, 0, 0, 0, 0, 0, 1, -1][g.below(8)])
        }
        3 => -65536 + g.range_i64(-3, 3),
        _ => g.i64(),
    }
}
/// A counter-signature as a decoder yields it: its protected header retains (non-canonical) wire bytes.
fn decoded_countersig() -> CoseSignature {
    CoseSignature {
        protected: ProtectedHeader { original_data: Some(vec![0xa1, 0x18, 0x01, 0x26]), header: Header { alg: Some(Algorithm::Assigned(iana::Algorithm::ES256)), ..Default::default() } },
        unprotected: Header::default(),
        signature: vec![0x5e],
    }
}

fn hdr_palette() -> Vec<Header> {
    vec![
        Header { counter_signatures: vec![decoded_countersig()], ..Default::default() },
        Header::default(),
        Header { key_id: vec![9], ..Default::default() },
        Header { alg: Some(Algorithm::Assigned(iana::Algorithm::ES256)), iv: vec![1, 2], rest: vec![(Label::Int(99), Value::from(1))], ..Default::default() },
        Header { partial_iv: vec![3], ..Default::default() },
    ]
}
fn gen_hdr(g: &mut Gen) -> Header {
    if g.ratio(1, 2) {
        let p = hdr_palette();
        return p[g.below(p.len())].clone();
    }
    let mut h = Header::default();
    if g.bool() {
        h.alg = Some(Algorithm::PrivateUse(-70000 - g.range_i64(0, 9)));
    }
    if g.bool() {
        h.key_id = g.small_bytes();
    }
    if g.bool() {
        h.content_type = Some(ContentType::Text("a/b".into()));
    }
    if g.bool() {
        h.rest.push((Label::Text(g.text()), gen_val(g)));
    }
    match g.below(6) {
        0 => h.iv = g.small_bytes(),
        1 => h.partial_iv = g.small_bytes(),
        _ => {}
    }
    if g.ratio(1, 4) {
        h.counter_signatures.push(decoded_countersig());
        if g.bool() {
            h.counter_signatures.push(CoseSignature { protected: ProtectedHeader { original_data: Some(vec![0xbf, 0xff]), header: Header::default() }, ..Default::default() });
        }
    }
    h
}
fn built_protected(h: &Header) -> ProtectedHeader {
    // documented: setting a protected header discards any retained wire bytes
    ProtectedHeader { original_data: None, header: h.clone() }
}
/// A counter-signature holding `depth` further levels of counter-signatures (struct literals).
fn nested_sig(depth: usize) -> CoseSignature {
    let mut s = CoseSignature { signature: vec![0xd0], ..Default::default() };
    for level in 0..depth {
        let hdr = Header { counter_signatures: vec![s], ..Default::default() };
        s = if level % 2 == 0 {
            CoseSignature { protected: built_protected(&hdr), signature: vec![level as u8], ..Default::default() }
        } else {
            CoseSignature { unprotected: hdr, signature: vec![level as u8], ..Default::default() }
        };
    }
    s
}

fn sig_palette() -> Vec<CoseSignature> {
    vec![
        CoseSignature::default(),
        CoseSignature { signature: vec![5], unprotected: Header { key_id: vec![1], ..Default::default() }, ..Default::default() },
        nested_sig(7),
        nested_sig(8),
        nested_sig(12),
        // signer descriptions as a decoder yields them: protected bytes retained, not the crate's own encoding
        decoded_countersig(),
        CoseSignature { protected: ProtectedHeader { original_data: Some(vec![0xa0]), header: Header::default() }, unprotected: Header::default(), signature: vec![6] },
        CoseSignature { protected: ProtectedHeader { original_data: Some(vec![0xa2, 0x04, 0x41, 0x31, 0x01, 0x26]), header: Header { alg: Some(Algorithm::Assigned(iana::Algorithm::ES256)), key_id: vec![0x31], ..Default::default() } }, unprotected: Header::default(), signature: vec![] },
    ]
}
fn gen_sig(g: &mut Gen) -> CoseSignature {
    if g.bool() {
        { let p = sig_palette(); p[g.below(p.len())].clone() }
    } else {
        CoseSignature { protected: built_protected(&gen_hdr(g)), unprotected: gen_hdr(g), signature: g.small_bytes() }
    }
}
fn rcp_palette() -> Vec<CoseRecipient> {
    vec![CoseRecipient::default(), CoseRecipient { ciphertext: Some(vec![3]), ..Default::default() }]
}
fn gen_rcp(g: &mut Gen) -> CoseRecipient {
    if g.bool() {
        rcp_palette()[g.below(2)].clone()
    } else {
        CoseRecipient { protected: built_protected(&gen_hdr(g)), unprotected: gen_hdr(g), ciphertext: if g.bool() { Some(g.small_bytes()) } else { None }, recipients: vec![] }
    }
}
const ENC_CTXS: [EncryptionContext; 5] = [EncryptionContext::CoseEncrypt, EncryptionContext::CoseEncrypt0, EncryptionContext::EncRecipient, EncryptionContext::MacRecipient, EncryptionContext::RecRecipient];

// ---- HeaderBuilder ---------------------------------------------------------------------------

#[derive(Clone, Debug)]
enum HOp {
    Algorithm(i64),
    KeyId(Vec<u8>),
    AddCritical(i64),
    AddCriticalLabel(String),
    ContentFormat(i64),
    ContentType(String),
    Iv(Vec<u8>),
    PartialIv(Vec<u8>),
    AddCounterSignature(CoseSignature),
    Value(i64, Value),
    TextValue(String, Value),
}
struct HeaderSpec;
impl Spec for HeaderSpec {
    type Op = HOp;
    type Out = Header;
    const NAME: &'static str = "HeaderBuilder";
    fn palette() -> Vec<HOp> {
        let mut v = vec![
            HOp::Algorithm(-7),
            HOp::Algorithm(1),
            HOp::KeyId(vec![]),
            HOp::KeyId(vec![1]),
            HOp::AddCritical(1),
            HOp::AddCritical(34),
            HOp::AddCriticalLabel("c".into()),
            HOp::ContentFormat(60),
            HOp::ContentType("a/b".into()),
            HOp::Iv(vec![]),
            HOp::Iv(vec![1]),
            HOp::PartialIv(vec![]),
            HOp::PartialIv(vec![2]),
            HOp::AddCounterSignature(sig_palette()[1].clone()),
            HOp::AddCounterSignature(sig_palette()[3].clone()),
            HOp::TextValue("t".into(), Value::Null),
        ];
        for l in [-1i64, 0, 1, 2, 3, 4, 5, 6, 7, 8, 9, i64::MIN, i64::MAX] {
            v.push(HOp::Value(l, Value::from(1)));
        }
        // registered parameters the crate does not interpret, with values of the shape their definitions give
        v.push(HOp::Value(33, Value::Array(vec![Value::Bytes(vec![0x30, 0x01])])));
        v.push(HOp::Value(34, Value::Array(vec![Value::from(-16), Value::Bytes(vec![2])])));
        v
    }
    fn gen_op(g: &mut Gen) -> HOp {
        if g.ratio(1, 3) {
            let p = Self::palette();
            return p[g.below(p.len())].clone();
        }
        match g.below(11) {
            0 => HOp::Algorithm(reg::ALGORITHM[g.below(reg::ALGORITHM.len())].1),
            1 => HOp::KeyId(gen_bytes(g)),
            2 => HOp::AddCritical(reg::HEADER_PARAMETER[g.below(reg::HEADER_PARAMETER.len())].1),
            3 => HOp::AddCriticalLabel(g.text()),
            4 => HOp::ContentFormat(reg::COAP_CONTENT_FORMAT[g.below(reg::COAP_CONTENT_FORMAT.len())].1),
            5 => HOp::ContentType(g.text()),
            6 => HOp::Iv(gen_bytes(g)),
            7 => HOp::PartialIv(gen_bytes(g)),
            8 => HOp::AddCounterSignature(gen_sig(g)),
            9 => HOp::Value(gen_label_arg(g, (-2, 10)), gen_val(g)),
            _ => HOp::TextValue(g.text(), gen_val(g)),
        }
    }
    fn real(ops: &[HOp]) -> Run<Header> {
        fold_real!(start!(HeaderBuilder), ops, |b, op| match op {
            HOp::Algorithm(a) => b.algorithm(iana::Algorithm::from_i64(a).unwrap()),
            HOp::KeyId(k) => b.key_id(k),
            HOp::AddCritical(p) => b.add_critical(iana::HeaderParameter::from_i64(p).unwrap()),
            HOp::AddCriticalLabel(t) => b.add_critical_label(RegisteredLabel::Text(t)),
            HOp::ContentFormat(c) => b.content_format(iana::CoapContentFormat::from_i64(c).unwrap()),
            HOp::ContentType(t) => b.content_type(t),
            HOp::Iv(v) => b.iv(v),
            HOp::PartialIv(v) => b.partial_iv(v),
            HOp::AddCounterSignature(s) => b.add_counter_signature(s),
            HOp::Value(l, v) => b.value(l, v),
            HOp::TextValue(t, v) => b.text_value(t, v),
        })
    }
    fn model(ops: &[HOp]) -> Run<Header> {
        let mut h = Header::default();
        for (i, op) in ops.iter().enumerate() {
            match op.clone() {
                HOp::Algorithm(a) => h.alg = Some(Algorithm::Assigned(iana::Algorithm::from_i64(a).unwrap())),
                HOp::KeyId(k) => h.key_id = k,
                HOp::AddCritical(p) => h.crit.push(RegisteredLabel::Assigned(iana::HeaderParameter::from_i64(p).unwrap())),
                HOp::AddCriticalLabel(t) => h.crit.push(RegisteredLabel::Text(t)),
                HOp::ContentFormat(c) => h.content_type = Some(ContentType::Assigned(iana::CoapContentFormat::from_i64(c).unwrap())),
                HOp::ContentType(t) => h.content_type = Some(ContentType::Text(t)),
                HOp::Iv(v) => {
                    h.iv = v;
                    h.partial_iv = vec![];
                }
                HOp::PartialIv(v) => {
                    h.partial_iv = v;
                    h.iv = vec![];
                }
                HOp::AddCounterSignature(s) => h.counter_signatures.push(s),
                HOp::Value(l, v) => {
                    // labels 1-7 belong to typed fields: refused
                    if (1..=7).contains(&l) {
                        return Err(i);
                    }
                    h.rest.push((Label::Int(l), v));
                }
                HOp::TextValue(t, v) => h.rest.push((Label::Text(t), v)),
            }
        }
        Ok(h)
    }
    fn invariant(h: &Header) -> Result<(), String> {
        if !h.iv.is_empty() && !h.partial_iv.is_empty() {
            return Err("built header carries both an IV and a Partial IV".into());
        }
        Ok(())
    }
}

// ---- message builders ------------------------------------------------------------------------

#[derive(Clone, Debug)]
enum MOp {
    Protected(Header),
    Unprotected(Header),
    /// payload / ciphertext
    Content(Vec<u8>),
    /// signature / tag
    Auth(Vec<u8>),
    AddSignature(CoseSignature),
    AddRecipient(CoseRecipient),
    /// create helpers with a constant closure returning the bytes; `fallible` selects the try_ form
    Create { aad: Vec<u8>, out: Vec<u8>, fallible: bool },
    CreateDetached { payload: Vec<u8>, aad: Vec<u8>, out: Vec<u8>, fallible: bool },
    /// COSE_Sign: add_created_signature & co
    AddCreated { sig: CoseSignature, aad: Vec<u8>, out: Vec<u8>, fallible: bool },
    AddDetached { sig: CoseSignature, payload: Vec<u8>, aad: Vec<u8>, out: Vec<u8>, fallible: bool },
    /// recipient: create_ciphertext with an explicit context
    CreateCtx { ctx: usize, plaintext: Vec<u8>, aad: Vec<u8>, out: Vec<u8>, fallible: bool },
}

fn mop_common_palette() -> Vec<MOp> {
    vec![
        MOp::Protected(hdr_palette()[0].clone()),
        MOp::Protected(hdr_palette()[1].clone()),
        MOp::Protected(hdr_palette()[3].clone()),
        MOp::Unprotected(hdr_palette()[2].clone()),
        MOp::Content(vec![]),
        MOp::Content(vec![7, 7]),
    ]
}

fn gen_mop_common(g: &mut Gen) -> MOp {
    match g.below(3) {
        0 => MOp::Protected(gen_hdr(g)),
        1 => MOp::Unprotected(gen_hdr(g)),
        _ => MOp::Content(gen_bytes(g)),
    }
}

macro_rules! msg_spec {
    ($spec:ident, $name:expr, $builder:ty, $out:ty, palette: $pal:expr, gen: $gen:expr, real: |$b:ident, $op:ident| $real:expr, model: |$m:ident, $mop:ident, $i:ident| $model:expr) => {
        struct $spec;
        impl Spec for $spec {
            type Op = MOp;
            type Out = $out;
            const NAME: &'static str = $name;
            fn palette() -> Vec<MOp> {
                let mut v = mop_common_palette();
                v.extend($pal);
                v
            }
            fn gen_op(g: &mut Gen) -> MOp {
                if g.ratio(1, 4) {
                    let p = Self::palette();
                    return p[g.below(p.len())].clone();
                }
                if g.bool() {
                    gen_mop_common(g)
                } else {
                    let f: fn(&mut Gen) -> MOp = $gen;
                    f(g)
                }
            }
            fn real(ops: &[MOp]) -> Run<$out> {
                fold_real!(start!($builder), ops, |$b, $op| $real)
            }
            fn model(ops: &[MOp]) -> Run<$out> {
                let mut $m = <$out>::default();
                for ($i, $mop) in ops.iter().enumerate() {
                    let $mop = $mop.clone();
                    let r: Result<(), ()> = $model;
                    if r.is_err() {
                        return Err($i);
                    }
                }
                Ok($m)
            }
        }
    };
}

/// The creator closures echo what they were handed behind their own output, so that the built
/// value shows *which* bytes each helper signed / MACed / authenticated at the time of its call.
fn echo(mut out: Vec<u8>, handed: &[u8]) -> Vec<u8> {
    out.extend_from_slice(handed);
    out
}

/// Bytes a protected header contributes to a structure: retained bytes, h'' when empty, else its
/// encoded map (Err when it has no encoding: the helper then refuses).
fn pb(p: &ProtectedHeader) -> Result<Vec<u8>, ()> {
    if let Some(w) = &p.original_data {
        return Ok(w.clone());
    }
    if p.header.is_empty() {
        return Ok(vec![]);
    }
    p.header.clone().to_vec().map_err(|_| ())
}

fn unsupported<T>() -> T {
    unreachable!("op not in this builder's alphabet")
}

msg_spec!(SignatureSpec, "CoseSignatureBuilder", CoseSignatureBuilder, CoseSignature,
    palette: vec![MOp::Auth(vec![]), MOp::Auth(vec![4])],
    gen: |g| MOp::Auth(gen_bytes(g)),
    real: |b, op| match op {
        MOp::Protected(h) => b.protected(h),
        MOp::Unprotected(h) => b.unprotected(h),
        MOp::Content(_) => b, // COSE_Signature has no payload: not in its alphabet (kept as a no-op for the shared palette)
        MOp::Auth(s) => b.signature(s),
        _ => unsupported(),
    },
    model: |m, op, _i| {
        match op {
            MOp::Protected(h) => m.protected = built_protected(&h),
            MOp::Unprotected(h) => m.unprotected = h,
            MOp::Content(_) => {}
            MOp::Auth(s) => m.signature = s,
            _ => unsupported(),
        }
        Ok(())
    });

msg_spec!(Sign1Spec, "CoseSign1Builder", CoseSign1Builder, CoseSign1,
    palette: vec![MOp::Auth(vec![4]), MOp::Create { aad: vec![], out: vec![1], fallible: false }, MOp::Create { aad: vec![2], out: vec![], fallible: true },
                  MOp::CreateDetached { payload: vec![5], aad: vec![], out: vec![8], fallible: false }, MOp::CreateDetached { payload: vec![], aad: vec![1], out: vec![9], fallible: true }],
    gen: |g| match g.below(3) {
        0 => MOp::Auth(gen_bytes(g)),
        1 => MOp::Create { aad: gen_bytes(g), out: gen_bytes(g), fallible: g.bool() },
        _ => MOp::CreateDetached { payload: gen_bytes(g), aad: gen_bytes(g), out: gen_bytes(g), fallible: g.bool() },
    },
    real: |b, op| match op {
        MOp::Protected(h) => b.protected(h),
        MOp::Unprotected(h) => b.unprotected(h),
        MOp::Content(p) => b.payload(p),
        MOp::Auth(s) => b.signature(s),
        MOp::Create { aad, out, fallible: false } => b.create_signature(&aad, |d| echo(out, d)),
        MOp::Create { aad, out, fallible: true } => b.try_create_signature(&aad, |d| -> Result<Vec<u8>, ()> { Ok(echo(out, d)) }).unwrap(),
        MOp::CreateDetached { payload, aad, out, fallible: false } => b.create_detached_signature(&payload, &aad, |d| echo(out, d)),
        MOp::CreateDetached { payload, aad, out, fallible: true } => b.try_create_detached_signature(&payload, &aad, |d| -> Result<Vec<u8>, ()> { Ok(echo(out, d)) }).unwrap(),
        _ => unsupported(),
    },
    model: |m, op, _i| {
        match op {
            MOp::Protected(h) => m.protected = built_protected(&h),
            MOp::Unprotected(h) => m.unprotected = h,
            MOp::Content(p) => m.payload = Some(p),
            MOp::Auth(s) => m.signature = s,
            MOp::Create { aad, out, .. } => m.signature = echo(out, &ref_sig_structure("Signature1", &(match pb(&m.protected) { Ok(x) => x, Err(()) => return Err(_i) }), None, &aad, m.payload.as_deref().unwrap_or(&[]))),
            MOp::CreateDetached { payload, aad, out, .. } => {
                // documented: panics if a payload is embedded
                if m.payload.is_some() {
                    return Err(_i);
                }
                let out = echo(out, &ref_sig_structure("Signature1", &(match pb(&m.protected) { Ok(x) => x, Err(()) => return Err(_i) }), None, &aad, &payload));
                m.signature = out;
            }
            _ => unsupported(),
        }
        Ok(())
    });

msg_spec!(SignSpec, "CoseSignBuilder", CoseSignBuilder, CoseSign,
    palette: vec![MOp::AddSignature(sig_palette()[1].clone()),
                  MOp::AddCreated { sig: sig_palette()[0].clone(), aad: vec![], out: vec![1], fallible: false },
                  MOp::AddCreated { sig: sig_palette()[1].clone(), aad: vec![3], out: vec![2], fallible: true },
                  MOp::AddDetached { sig: sig_palette()[0].clone(), payload: vec![1], aad: vec![], out: vec![3], fallible: false },
                  MOp::AddDetached { sig: sig_palette()[1].clone(), payload: vec![], aad: vec![], out: vec![4], fallible: true }],
    gen: |g| match g.below(3) {
        0 => MOp::AddSignature(gen_sig(g)),
        1 => MOp::AddCreated { sig: gen_sig(g), aad: gen_bytes(g), out: gen_bytes(g), fallible: g.bool() },
        _ => MOp::AddDetached { sig: gen_sig(g), payload: gen_bytes(g), aad: gen_bytes(g), out: gen_bytes(g), fallible: g.bool() },
    },
    real: |b, op| match op {
        MOp::Protected(h) => b.protected(h),
        MOp::Unprotected(h) => b.unprotected(h),
        MOp::Content(p) => b.payload(p),
        MOp::AddSignature(s) => b.add_signature(s),
        MOp::AddCreated { sig, aad, out, fallible: false } => b.add_created_signature(sig, &aad, |d| echo(out, d)),
        MOp::AddCreated { sig, aad, out, fallible: true } => b.try_add_created_signature(sig, &aad, |d| -> Result<Vec<u8>, ()> { Ok(echo(out, d)) }).unwrap(),
        MOp::AddDetached { sig, payload, aad, out, fallible: false } => b.add_detached_signature(sig, &payload, &aad, |d| echo(out, d)),
        MOp::AddDetached { sig, payload, aad, out, fallible: true } => b.try_add_detached_signature(sig, &payload, &aad, |d| -> Result<Vec<u8>, ()> { Ok(echo(out, d)) }).unwrap(),
        _ => unsupported(),
    },
    model: |m, op, _i| {
        match op {
            MOp::Protected(h) => m.protected = built_protected(&h),
            MOp::Unprotected(h) => m.unprotected = h,
            MOp::Content(p) => m.payload = Some(p),
            MOp::AddSignature(s) => m.signatures.push(s),
            MOp::AddCreated { mut sig, aad, out, .. } => {
                // signs the body header, signer header and payload in force at the time of the call
                sig.signature = echo(out, &ref_sig_structure("Signature", &(match pb(&m.protected) { Ok(x) => x, Err(()) => return Err(_i) }), Some(&(match pb(&sig.protected) { Ok(x) => x, Err(()) => return Err(_i) })), &aad, m.payload.as_deref().unwrap_or(&[])));
                m.signatures.push(sig);
            }
            MOp::AddDetached { mut sig, payload, aad, out, .. } => {
                if m.payload.is_some() {
                    return Err(_i);
                }
                sig.signature = echo(out, &ref_sig_structure("Signature", &(match pb(&m.protected) { Ok(x) => x, Err(()) => return Err(_i) }), Some(&(match pb(&sig.protected) { Ok(x) => x, Err(()) => return Err(_i) })), &aad, &payload));
                m.signatures.push(sig);
            }
            _ => unsupported(),
        }
        Ok(())
    });

macro_rules! mac_like {
    ($spec:ident, $name:expr, $builder:ty, $out:ty, $has_rcp:tt) => {
        msg_spec!($spec, $name, $builder, $out,
            palette: {
                let mut v = vec![MOp::Auth(vec![4]), MOp::Create { aad: vec![], out: vec![1], fallible: false }, MOp::Create { aad: vec![1], out: vec![2], fallible: true }];
                if $has_rcp { v.push(MOp::AddRecipient(rcp_palette()[1].clone())); }
                v
            },
            gen: |g| match g.below(if $has_rcp { 3 } else { 2 }) {
                0 => MOp::Auth(gen_bytes(g)),
                1 => MOp::Create { aad: gen_bytes(g), out: gen_bytes(g), fallible: g.bool() },
                _ => MOp::AddRecipient(gen_rcp(g)),
            },
            real: |b, op| mac_real!(b, op, $has_rcp),
            model: |m, op, _i| {
                match op {
                    MOp::Protected(h) => m.protected = built_protected(&h),
                    MOp::Unprotected(h) => m.unprotected = h,
                    MOp::Content(p) => m.payload = Some(p),
                    MOp::Auth(s) => m.tag = s,
                    MOp::Create { aad, out, .. } => {
                        // documented: panics if the payload has not been set
                        if m.payload.is_none() {
                            return Err(_i);
                        }
                        m.tag = echo(out, &ref_mac_structure(if $has_rcp { "MAC" } else { "MAC0" }, &(match pb(&m.protected) { Ok(x) => x, Err(()) => return Err(_i) }), &aad, m.payload.as_deref().unwrap_or(&[])));
                    }
                    MOp::AddRecipient(r) => mac_add_rcp!(m, r, $has_rcp),
                    _ => unsupported(),
                }
                Ok(())
            });
    };
}
macro_rules! mac_real {
    ($b:ident, $op:ident, true) => {
        match $op {
            MOp::Protected(h) => $b.protected(h),
            MOp::Unprotected(h) => $b.unprotected(h),
            MOp::Content(p) => $b.payload(p),
            MOp::Auth(s) => $b.tag(s),
            MOp::Create { aad, out, fallible: false } => $b.create_tag(&aad, |d| echo(out, d)),
            MOp::Create { aad, out, fallible: true } => $b.try_create_tag(&aad, |d| -> Result<Vec<u8>, ()> { Ok(echo(out, d)) }).unwrap(),
            MOp::AddRecipient(r) => $b.add_recipient(r),
            _ => unsupported(),
        }
    };
    ($b:ident, $op:ident, false) => {
        match $op {
            MOp::Protected(h) => $b.protected(h),
            MOp::Unprotected(h) => $b.unprotected(h),
            MOp::Content(p) => $b.payload(p),
            MOp::Auth(s) => $b.tag(s),
            MOp::Create { aad, out, fallible: false } => $b.create_tag(&aad, |d| echo(out, d)),
            MOp::Create { aad, out, fallible: true } => $b.try_create_tag(&aad, |d| -> Result<Vec<u8>, ()> { Ok(echo(out, d)) }).unwrap(),
            _ => unsupported(),
        }
    };
}
macro_rules! mac_add_rcp {
    ($m:ident, $r:ident, true) => {
        $m.recipients.push($r)
    };
    ($m:ident, $r:ident, false) => {{
        let _ = $r;
        unsupported::<()>()
    }};
}
mac_like!(MacSpec, "CoseMacBuilder", CoseMacBuilder, CoseMac, true);
mac_like!(Mac0Spec, "CoseMac0Builder", CoseMac0Builder, CoseMac0, false);

msg_spec!(EncryptSpec, "CoseEncryptBuilder", CoseEncryptBuilder, CoseEncrypt,
    palette: vec![MOp::Create { aad: vec![], out: vec![1], fallible: false }, MOp::Create { aad: vec![1], out: vec![], fallible: true }, MOp::AddRecipient(rcp_palette()[1].clone())],
    gen: |g| if g.bool() { MOp::Create { aad: gen_bytes(g), out: gen_bytes(g), fallible: g.bool() } } else { MOp::AddRecipient(gen_rcp(g)) },
    real: |b, op| match op {
        MOp::Protected(h) => b.protected(h),
        MOp::Unprotected(h) => b.unprotected(h),
        MOp::Content(p) => b.ciphertext(p),
        MOp::Create { aad, out, fallible: false } => b.create_ciphertext(b"pt", &aad, |_, a| echo(out, a)),
        MOp::Create { aad, out, fallible: true } => b.try_create_ciphertext(b"pt", &aad, |_, a| -> Result<Vec<u8>, ()> { Ok(echo(out, a)) }).unwrap(),
        MOp::AddRecipient(r) => b.add_recipient(r),
        _ => unsupported(),
    },
    model: |m, op, _i| {
        match op {
            MOp::Protected(h) => m.protected = built_protected(&h),
            MOp::Unprotected(h) => m.unprotected = h,
            MOp::Content(p) => m.ciphertext = Some(p),
            MOp::Create { aad, out, .. } => m.ciphertext = Some(echo(out, &ref_enc_structure("Encrypt", &(match pb(&m.protected) { Ok(x) => x, Err(()) => return Err(_i) }), &aad))),
            MOp::AddRecipient(r) => m.recipients.push(r),
            _ => unsupported(),
        }
        Ok(())
    });

msg_spec!(Encrypt0Spec, "CoseEncrypt0Builder", CoseEncrypt0Builder, CoseEncrypt0,
    palette: vec![MOp::Create { aad: vec![], out: vec![1], fallible: false }, MOp::Create { aad: vec![1], out: vec![], fallible: true }],
    gen: |g| MOp::Create { aad: gen_bytes(g), out: gen_bytes(g), fallible: g.bool() },
    real: |b, op| match op {
        MOp::Protected(h) => b.protected(h),
        MOp::Unprotected(h) => b.unprotected(h),
        MOp::Content(p) => b.ciphertext(p),
        MOp::Create { aad, out, fallible: false } => b.create_ciphertext(b"pt", &aad, |_, a| echo(out, a)),
        MOp::Create { aad, out, fallible: true } => b.try_create_ciphertext(b"pt", &aad, |_, a| -> Result<Vec<u8>, ()> { Ok(echo(out, a)) }).unwrap(),
        _ => unsupported(),
    },
    model: |m, op, _i| {
        match op {
            MOp::Protected(h) => m.protected = built_protected(&h),
            MOp::Unprotected(h) => m.unprotected = h,
            MOp::Content(p) => m.ciphertext = Some(p),
            MOp::Create { aad, out, .. } => m.ciphertext = Some(echo(out, &ref_enc_structure("Encrypt0", &(match pb(&m.protected) { Ok(x) => x, Err(()) => return Err(_i) }), &aad))),
            _ => unsupported(),
        }
        Ok(())
    });

msg_spec!(RecipientSpec, "CoseRecipientBuilder", CoseRecipientBuilder, CoseRecipient,
    palette: {
        let mut v = vec![MOp::AddRecipient(rcp_palette()[1].clone())];
        for c in 0..5 { v.push(MOp::CreateCtx { ctx: c, plaintext: vec![1], aad: vec![], out: vec![c as u8], fallible: c % 2 == 0 }); }
        v
    },
    gen: |g| if g.ratio(1, 3) { MOp::AddRecipient(gen_rcp(g)) } else { MOp::CreateCtx { ctx: g.below(5), plaintext: gen_bytes(g), aad: gen_bytes(g), out: gen_bytes(g), fallible: g.bool() } },
    real: |b, op| match op {
        MOp::Protected(h) => b.protected(h),
        MOp::Unprotected(h) => b.unprotected(h),
        MOp::Content(p) => b.ciphertext(p),
        MOp::AddRecipient(r) => b.add_recipient(r),
        MOp::CreateCtx { ctx, plaintext, aad, out, fallible: false } => b.create_ciphertext(ENC_CTXS[ctx], &plaintext, &aad, |_, a| echo(out, a)),
        MOp::CreateCtx { ctx, plaintext, aad, out, fallible: true } => b.try_create_ciphertext(ENC_CTXS[ctx], &plaintext, &aad, |_, a| -> Result<Vec<u8>, ()> { Ok(echo(out, a)) }).unwrap(),
        _ => unsupported(),
    },
    model: |m, op, _i| {
        match op {
            MOp::Protected(h) => m.protected = built_protected(&h),
            MOp::Unprotected(h) => m.unprotected = h,
            MOp::Content(p) => m.ciphertext = Some(p),
            MOp::AddRecipient(r) => m.recipients.push(r),
            MOp::CreateCtx { ctx, aad, out, .. } => {
                // documented: panics unless the context is one of the three recipient contexts
                if ctx < 2 {
                    return Err(_i);
                }
                m.ciphertext = Some(echo(out, &ref_enc_structure(crate::props::structs::ENC_CONTEXTS[ctx], &(match pb(&m.protected) { Ok(x) => x, Err(()) => return Err(_i) }), &aad)));
            }
            _ => unsupported(),
        }
        Ok(())
    });

// ---- CoseKeyBuilder --------------------------------------------------------------------------

#[derive(Clone, Debug)]
enum KOp {
    // constructors (only meaningful as the first op; elsewhere they restart the sequence)
    New,
    NewEc2Pub(i64, Vec<u8>, Vec<u8>),
    NewEc2PubYSign(i64, Vec<u8>, bool),
    NewEc2Priv(i64, Vec<u8>, Vec<u8>, Vec<u8>),
    NewSymmetric(Vec<u8>),
    NewOkp,
    Kty(String),
    KeyType(i64),
    KeyId(Vec<u8>),
    BaseIv(Vec<u8>),
    Algorithm(i64),
    AddKeyOp(i64),
    Param(i64, Value),
}
struct KeySpec;
impl KeySpec {
    fn ctor_real(op: &KOp) -> Option<CoseKeyBuilder> {
        let crv = |c: i64| iana::EllipticCurve::from_i64(c).unwrap();
        Some(match op.clone() {
            KOp::New => CoseKeyBuilder::new(),
            KOp::NewEc2Pub(c, x, y) => CoseKeyBuilder::new_ec2_pub_key(crv(c), x, y),
            KOp::NewEc2PubYSign(c, x, s) => CoseKeyBuilder::new_ec2_pub_key_y_sign(crv(c), x, s),
            KOp::NewEc2Priv(c, x, y, d) => CoseKeyBuilder::new_ec2_priv_key(crv(c), x, y, d),
            KOp::NewSymmetric(k) => CoseKeyBuilder::new_symmetric_key(k),
            KOp::NewOkp => CoseKeyBuilder::new_okp_key(),
            _ => return None,
        })
    }
    fn ctor_model(op: &KOp) -> Option<CoseKey> {
        // the constructors populate exactly the key type and the parameters they name
        // (RFC 8152 §13: EC2 crv -1, x -2, y -3, d -4; symmetric k -1; kty EC2 2, OKP 1, Symmetric 4)
        let kty = |i: i64| KeyType::Assigned(iana::KeyType::from_i64(i).unwrap());
        Some(match op.clone() {
            KOp::New => CoseKey::default(),
            KOp::NewEc2Pub(c, x, y) => CoseKey { kty: kty(2), params: vec![(Label::Int(-1), Value::from(c)), (Label::Int(-2), Value::Bytes(x)), (Label::Int(-3), Value::Bytes(y))], ..Default::default() },
            KOp::NewEc2PubYSign(c, x, s) => CoseKey { kty: kty(2), params: vec![(Label::Int(-1), Value::from(c)), (Label::Int(-2), Value::Bytes(x)), (Label::Int(-3), Value::Bool(s))], ..Default::default() },
            KOp::NewEc2Priv(c, x, y, d) => CoseKey { kty: kty(2), params: vec![(Label::Int(-1), Value::from(c)), (Label::Int(-2), Value::Bytes(x)), (Label::Int(-3), Value::Bytes(y)), (Label::Int(-4), Value::Bytes(d))], ..Default::default() },
            KOp::NewSymmetric(k) => CoseKey { kty: kty(4), params: vec![(Label::Int(-1), Value::Bytes(k))], ..Default::default() },
            KOp::NewOkp => CoseKey { kty: kty(1), ..Default::default() },
            _ => return None,
        })
    }
}
impl Spec for KeySpec {
    type Op = KOp;
    type Out = CoseKey;
    const NAME: &'static str = "CoseKeyBuilder";
    fn palette() -> Vec<KOp> {
        let mut v = vec![
            KOp::New,
            KOp::NewEc2Pub(1, vec![1], vec![2]),
            KOp::NewEc2PubYSign(2, vec![1], true),
            KOp::NewEc2Priv(3, vec![1], vec![2], vec![3]),
            KOp::NewSymmetric(vec![4]),
            KOp::NewOkp,
            KOp::Kty("k".into()),
            KOp::KeyType(3),
            KOp::KeyId(vec![1]),
            KOp::BaseIv(vec![2]),
            KOp::Algorithm(-7),
            KOp::AddKeyOp(1),
            KOp::AddKeyOp(2),
        ];
        for l in [-1i64, 0, 1, 2, 3, 4, 5, 6, i64::MIN, i64::MAX] {
            v.push(KOp::Param(l, Value::from(1)));
        }
        v
    }
    fn gen_op(g: &mut Gen) -> KOp {
        if g.ratio(1, 3) {
            let p = Self::palette();
            return p[g.below(p.len())].clone();
        }
        match g.below(12) {
            0 => KOp::NewEc2Pub(g.range_i64(0, 8), gen_coord(g), gen_coord(g)),
            1 => KOp::NewEc2PubYSign(g.range_i64(0, 8), gen_coord(g), g.bool()),
            2 => KOp::NewEc2Priv(g.range_i64(0, 8), gen_coord(g), gen_coord(g), gen_coord(g)),
            3 => KOp::NewSymmetric(gen_coord(g)),
            4 => KOp::Kty(g.text()),
            5 => KOp::KeyType(g.range_i64(0, 6)),
            6 => KOp::KeyId(gen_bytes(g)),
            7 => KOp::BaseIv(gen_bytes(g)),
            8 => KOp::Algorithm(reg::ALGORITHM[g.below(reg::ALGORITHM.len())].1),
            9 => KOp::AddKeyOp(g.range_i64(1, 10)),
            _ => KOp::Param(gen_label_arg(g, (-6, 8)), gen_val(g)),
        }
    }
    fn real(ops: &[KOp]) -> Run<CoseKey> {
        // a constructor op (re)starts the builder
        let mut cur = Some(CoseKeyBuilder::new());
        for (i, op) in ops.iter().enumerate() {
            if let Some(b) = Self::ctor_real(op) {
                cur = Some(b);
                continue;
            }
            let b = cur.take().unwrap();
            let op = op.clone();
            match catch(move || match op {
                KOp::Kty(t) => b.kty(KeyType::Text(t)),
                KOp::KeyType(k) => b.key_type(iana::KeyType::from_i64(k).unwrap()),
                KOp::KeyId(k) => b.key_id(k),
                KOp::BaseIv(v) => b.base_iv(v),
                KOp::Algorithm(a) => b.algorithm(iana::Algorithm::from_i64(a).unwrap()),
                KOp::AddKeyOp(o) => b.add_key_op(iana::KeyOperation::from_i64(o).unwrap()),
                KOp::Param(l, v) => b.param(l, v),
                _ => unreachable!(),
            }) {
                Ok(nb) => cur = Some(nb),
                Err(_) => return Err(i),
            }
        }
        Ok(cur.unwrap().build())
    }
    fn model(ops: &[KOp]) -> Run<CoseKey> {
        let mut k = CoseKey::default();
        for (i, op) in ops.iter().enumerate() {
            if let Some(n) = Self::ctor_model(op) {
                k = n;
                continue;
            }
            match op.clone() {
                KOp::Kty(t) => k.kty = KeyType::Text(t),
                KOp::KeyType(t) => k.kty = KeyType::Assigned(iana::KeyType::from_i64(t).unwrap()),
                KOp::KeyId(v) => k.key_id = v,
                KOp::BaseIv(v) => k.base_iv = v,
                KOp::Algorithm(a) => k.alg = Some(Algorithm::Assigned(iana::Algorithm::from_i64(a).unwrap())),
                KOp::AddKeyOp(o) => {
                    k.key_ops.insert(KeyOperation::Assigned(iana::KeyOperation::from_i64(o).unwrap()));
                }
                KOp::Param(l, v) => {
                    // labels of the common key parameters registry are refused
                    if reg::registered(reg::KEY_PARAMETER, l) {
                        return Err(i);
                    }
                    k.params.push((Label::Int(l), v));
                }
                _ => unreachable!(),
            }
        }
        Ok(k)
    }
}

// ---- ClaimsSetBuilder ------------------------------------------------------------------------

#[derive(Clone, Debug)]
enum COp {
    Issuer(String),
    Subject(String),
    Audience(String),
    Exp(i64),
    Nbf(f64),
    Iat(i64),
    /// any of the three time setters (0 exp, 1 nbf, 2 iat) with a whole or fractional timestamp,
    /// incl. NaN, infinities, negative zero and integral floats
    Time(u8, Result<i64, f64>),
    CwtId(Vec<u8>),
    Claim(i64, Value),
    TextClaim(String, Value),
    PrivateClaim(i64, Value),
}
struct ClaimsSpec;
impl Spec for ClaimsSpec {
    type Op = COp;
    type Out = ClaimsSet;
    const NAME: &'static str = "ClaimsSetBuilder";
    fn palette() -> Vec<COp> {
        let mut v = vec![
            COp::Issuer("i".into()),
            COp::Subject("".into()),
            COp::Audience("a".into()),
            COp::Exp(0),
            COp::Nbf(1.5),
            COp::Iat(-1),
            COp::Time(0, Err(f64::NAN)),
            COp::Time(2, Err(2.0)),
            COp::CwtId(vec![]),
            COp::TextClaim("t".into(), Value::Null),
        ];
        for (_, c) in reg::CWT_CLAIM_NAME {
            v.push(COp::Claim(*c, Value::from(1)));
        }
        for id in [-65537i64, -65536, -65535, 0, 1, i64::MIN, i64::MAX] {
            v.push(COp::PrivateClaim(id, Value::from(2)));
        }
        v
    }
    fn gen_op(g: &mut Gen) -> COp {
        if g.ratio(1, 3) {
            let p = Self::palette();
            return p[g.below(p.len())].clone();
        }
        if g.ratio(1, 6) {
            let which = g.below(3) as u8;
            let t = if g.bool() {
                Ok(g.i64())
            } else {
                Err(match g.below(6) {
                    0 => f64::NAN,
                    1 => f64::INFINITY,
                    2 => -0.0,
                    3 => g.range_i64(-5, 5) as f64,
                    4 => f64::from_bits(0x7ff0_0000_0000_0001),
                    _ => crate::gen::gen_float(g, true),
                })
            };
            return COp::Time(which, t);
        }
        match g.below(10) {
            0 => COp::Issuer(g.text()),
            1 => COp::Subject(g.text()),
            2 => COp::Audience(g.text()),
            3 => COp::Exp(g.i64()),
            4 => COp::Nbf(crate::gen::gen_float(g, false)),
            5 => COp::Iat(g.i64()),
            6 => COp::CwtId(gen_bytes(g)),
            7 => COp::Claim(reg::CWT_CLAIM_NAME[g.below(reg::CWT_CLAIM_NAME.len())].1, gen_val(g)),
            8 => COp::TextClaim(g.text(), gen_val(g)),
            _ => COp::PrivateClaim(if g.bool() { -65536 + g.range_i64(-3, 3) } else { gen_label_arg(g, (-3, 9)) }, gen_val(g)),
        }
    }
    fn real(ops: &[COp]) -> Run<ClaimsSet> {
        fold_real!(start!(ClaimsSetBuilder), ops, |b, op| match op {
            COp::Issuer(s) => b.issuer(s),
            COp::Subject(s) => b.subject(s),
            COp::Audience(s) => b.audience(s),
            COp::Exp(t) => b.expiration_time(Timestamp::WholeSeconds(t)),
            COp::Nbf(t) => b.not_before(Timestamp::FractionalSeconds(t)),
            COp::Iat(t) => b.issued_at(Timestamp::WholeSeconds(t)),
            COp::Time(w, t) => {
                let ts = match t {
                    Ok(i) => Timestamp::WholeSeconds(i),
                    Err(f) => Timestamp::FractionalSeconds(f),
                };
                match w {
                    0 => b.expiration_time(ts),
                    1 => b.not_before(ts),
                    _ => b.issued_at(ts),
                }
            }
            COp::CwtId(v) => b.cwt_id(v),
            COp::Claim(n, v) => b.claim(iana::CwtClaimName::from_i64(n).unwrap(), v),
            COp::TextClaim(n, v) => b.text_claim(n, v),
            COp::PrivateClaim(id, v) => b.private_claim(id, v),
        })
    }
    fn model(ops: &[COp]) -> Run<ClaimsSet> {
        let mut c = ClaimsSet::default();
        for (i, op) in ops.iter().enumerate() {
            match op.clone() {
                COp::Issuer(s) => c.issuer = Some(s),
                COp::Subject(s) => c.subject = Some(s),
                COp::Audience(s) => c.audience = Some(s),
                COp::Exp(t) => c.expiration_time = Some(Timestamp::WholeSeconds(t)),
                COp::Nbf(t) => c.not_before = Some(Timestamp::FractionalSeconds(t)),
                COp::Iat(t) => c.issued_at = Some(Timestamp::WholeSeconds(t)),
                COp::Time(w, t) => {
                    let ts = Some(match t {
                        Ok(i) => Timestamp::WholeSeconds(i),
                        Err(f) => Timestamp::FractionalSeconds(f),
                    });
                    match w {
                        0 => c.expiration_time = ts,
                        1 => c.not_before = ts,
                        _ => c.issued_at = ts,
                    }
                }
                COp::CwtId(v) => c.cwt_id = Some(v),
                COp::Claim(n, v) => {
                    // claims 1-7 belong to typed fields: refused
                    if (1..=7).contains(&n) {
                        return Err(i);
                    }
                    c.rest.push((ClaimName::Assigned(iana::CwtClaimName::from_i64(n).unwrap()), v));
                }
                COp::TextClaim(n, v) => c.rest.push((ClaimName::Text(n), v)),
                COp::PrivateClaim(id, v) => {
                    // only ids in the private-use range (below -65536) are admitted
                    if !reg::is_private(id) {
                        return Err(i);
                    }
                    c.rest.push((ClaimName::PrivateUse(id), v));
                }
            }
        }
        Ok(c)
    }
}

// ---- PartyInfo / SuppPubInfo / CoseKdfContext ------------------------------------------------

#[derive(Clone, Debug)]
enum POp {
    Identity(Vec<u8>),
    NonceBytes(Vec<u8>),
    NonceInt(i64),
    Other(Vec<u8>),
}
struct PartySpec;
impl Spec for PartySpec {
    type Op = POp;
    type Out = PartyInfo;
    const NAME: &'static str = "PartyInfoBuilder";
    fn palette() -> Vec<POp> {
        vec![POp::Identity(vec![]), POp::Identity(vec![1]), POp::NonceBytes(vec![]), POp::NonceBytes(vec![2]), POp::NonceInt(0), POp::NonceInt(i64::MIN), POp::Other(vec![]), POp::Other(vec![3])]
    }
    fn gen_op(g: &mut Gen) -> POp {
        match g.below(4) {
            0 => POp::Identity(gen_bytes(g)),
            1 => POp::NonceBytes(gen_bytes(g)),
            2 => POp::NonceInt(g.i64()),
            _ => POp::Other(gen_bytes(g)),
        }
    }
    fn real(ops: &[POp]) -> Run<PartyInfo> {
        fold_real!(start!(PartyInfoBuilder), ops, |b, op| match op {
            POp::Identity(v) => b.identity(v),
            POp::NonceBytes(v) => b.nonce(Nonce::Bytes(v)),
            POp::NonceInt(i) => b.nonce(Nonce::Integer(i)),
            POp::Other(v) => b.other(v),
        })
    }
    fn model(ops: &[POp]) -> Run<PartyInfo> {
        let mut p = PartyInfo::default();
        for op in ops {
            match op.clone() {
                POp::Identity(v) => p.identity = Some(v),
                POp::NonceBytes(v) => p.nonce = Some(Nonce::Bytes(v)),
                POp::NonceInt(i) => p.nonce = Some(Nonce::Integer(i)),
                POp::Other(v) => p.other = Some(v),
            }
        }
        Ok(p)
    }
}

#[derive(Clone, Debug)]
enum SOp {
    KeyDataLength(u64),
    Protected(Header),
    Other(Vec<u8>),
}
struct SuppSpec;
impl Spec for SuppSpec {
    type Op = SOp;
    type Out = SuppPubInfo;
    const NAME: &'static str = "SuppPubInfoBuilder";
    fn palette() -> Vec<SOp> {
        vec![SOp::KeyDataLength(0), SOp::KeyDataLength(128), SOp::KeyDataLength(u64::MAX), SOp::Protected(hdr_palette()[0].clone()), SOp::Protected(hdr_palette()[1].clone()), SOp::Protected(hdr_palette()[3].clone()), SOp::Other(vec![]), SOp::Other(vec![1])]
    }
    fn gen_op(g: &mut Gen) -> SOp {
        match g.below(3) {
            0 => SOp::KeyDataLength(g.u64()),
            1 => SOp::Protected(gen_hdr(g)),
            _ => SOp::Other(gen_bytes(g)),
        }
    }
    fn real(ops: &[SOp]) -> Run<SuppPubInfo> {
        fold_real!(start!(SuppPubInfoBuilder), ops, |b, op| match op {
            SOp::KeyDataLength(n) => b.key_data_length(n),
            SOp::Protected(h) => b.protected(h),
            SOp::Other(v) => b.other(v),
        })
    }
    fn model(ops: &[SOp]) -> Run<SuppPubInfo> {
        let mut s = SuppPubInfo::default();
        for op in ops {
            match op.clone() {
                SOp::KeyDataLength(n) => s.key_data_length = n,
                SOp::Protected(h) => s.protected = built_protected(&h),
                SOp::Other(v) => s.other = Some(v),
            }
        }
        Ok(s)
    }
}

#[derive(Clone, Debug)]
enum DOp {
    Algorithm(i64),
    PartyU(Vec<POp>),
    PartyV(Vec<POp>),
    Supp(Vec<SOp>),
    /// a SuppPubInfo as a decoder yields it: (key data length, protected bytes as received, other)
    SuppReceived(u64, Vec<u8>, Option<Vec<u8>>),
    AddPriv(Vec<u8>),
}
/// Protected-header contents as a peer may send them: zero-length, an encoded empty map (definite and
/// indefinite), a header in the crate's own encoding and in other encodings.
const RECEIVED_PROTECTED: &[&[u8]] = &[&[], &[0xa0], &[0xbf, 0xff], &[0xb8, 0x00], &[0xa1, 0x04, 0x41, 0x01], &[0xa1, 0x18, 0x04, 0x41, 0x01], &[0xbf, 0x04, 0x41, 0x01, 0xff], &[0xa2, 0x04, 0x41, 0x01, 0x01, 0x26]];
fn received_supp(len: u64, wire: &[u8], other: &Option<Vec<u8>>) -> SuppPubInfo {
    let protected = ProtectedHeader::from_cbor_bstr(Value::Bytes(wire.to_vec())).expect("palette headers decode");
    SuppPubInfo { key_data_length: len, protected, other: other.clone() }
}
struct KdfSpec;
impl Spec for KdfSpec {
    type Op = DOp;
    /// CoseKdfContext has private fields: observed through to_vec
    type Out = Vec<u8>;
    const NAME: &'static str = "CoseKdfContextBuilder";
    fn palette() -> Vec<DOp> {
        vec![
            DOp::Algorithm(1),
            DOp::Algorithm(-7),
            DOp::PartyU(vec![POp::Identity(vec![1])]),
            DOp::PartyU(vec![]),
            DOp::PartyV(vec![POp::NonceInt(5), POp::Other(vec![2])]),
            DOp::Supp(vec![SOp::KeyDataLength(128)]),
            DOp::Supp(vec![SOp::Protected(hdr_palette()[2].clone()), SOp::Other(vec![9])]),
            DOp::SuppReceived(128, vec![0xa0], None),
            DOp::SuppReceived(256, vec![0xa1, 0x18, 0x04, 0x41, 0x01], Some(vec![3])),
            DOp::AddPriv(vec![]),
            DOp::AddPriv(vec![7]),
        ]
    }
    fn gen_op(g: &mut Gen) -> DOp {
        let party = |g: &mut Gen| -> Vec<POp> {
            let n = g.below(4);
            (0..n).map(|_| PartySpec::gen_op(g)).collect()
        };
        match g.below(6) {
            5 => DOp::SuppReceived(*g.pick(&[0u64, 128, 256, u64::MAX]), g.pick(RECEIVED_PROTECTED).to_vec(), if g.bool() { Some(gen_bytes(g)) } else { None }),
            0 => DOp::Algorithm(reg::ALGORITHM[g.below(reg::ALGORITHM.len())].1),
            1 => DOp::PartyU(party(g)),
            2 => DOp::PartyV(party(g)),
            3 => {
                let n = g.below(4);
                DOp::Supp((0..n).map(|_| SuppSpec::gen_op(g)).collect())
            }
            _ => DOp::AddPriv(gen_bytes(g)),
        }
    }
    fn real(ops: &[DOp]) -> Run<Vec<u8>> {
        let built: Run<CoseKdfContext> = fold_real!(start!(CoseKdfContextBuilder), ops, |b, op| match op {
            DOp::Algorithm(a) => b.algorithm(iana::Algorithm::from_i64(a).unwrap()),
            DOp::PartyU(p) => b.party_u_info(PartySpec::model(&p).unwrap()),
            DOp::PartyV(p) => b.party_v_info(PartySpec::model(&p).unwrap()),
            DOp::Supp(s) => b.supp_pub_info(SuppSpec::model(&s).unwrap()),
            DOp::SuppReceived(n, w, o) => b.supp_pub_info(received_supp(n, &w, &o)),
            DOp::AddPriv(v) => b.add_supp_priv_info(v),
        });
        built.map(|k| k.to_vec().expect("KDF context encodes"))
    }
    fn model(ops: &[DOp]) -> Run<Vec<u8>> {
        // field-map model, rendered as the reference encoding of COSE_KDF_Context
        let mut alg: i64 = 0; // default algorithm identifier: Reserved (0)
        let mut u = PartyInfo::default();
        let mut v = PartyInfo::default();
        let mut s = SuppPubInfo::default();
        let mut privs: Vec<Vec<u8>> = vec![];
        for op in ops {
            match op.clone() {
                DOp::Algorithm(a) => alg = a,
                DOp::PartyU(p) => u = PartySpec::model(&p).unwrap(),
                DOp::PartyV(p) => v = PartySpec::model(&p).unwrap(),
                DOp::Supp(x) => s = SuppSpec::model(&x).unwrap(),
                DOp::SuppReceived(n, w, o) => s = received_supp(n, &w, &o),
                DOp::AddPriv(b) => privs.push(b),
            }
        }
        let party = |p: &PartyInfo| {
            Item::Array(vec![
                p.identity.clone().map(Item::Bytes).unwrap_or(Item::Null),
                match &p.nonce {
                    None => Item::Null,
                    Some(Nonce::Bytes(b)) => Item::Bytes(b.clone()),
                    Some(Nonce::Integer(i)) => Item::Int(*i as i128),
                },
                p.other.clone().map(Item::Bytes).unwrap_or(Item::Null),
            ])
        };
        // the protected slot of a built header: h'' when empty, else the bstr the header encodes to
        // (a received header: the bytes as received)
        let prot = match &s.protected.original_data {
            Some(w) => w.clone(),
            None if s.protected.header.is_empty() => vec![],
            None => s.protected.header.clone().to_vec().expect("header encodes"),
        };
        let mut supp = vec![Item::Int(s.key_data_length as i128), Item::Bytes(prot)];
        if let Some(o) = &s.other {
            supp.push(Item::Bytes(o.clone()));
        }
        let mut a = vec![Item::Int(alg as i128), party(&u), party(&v), Item::Array(supp)];
        for p in privs {
            a.push(Item::Bytes(p));
        }
        Ok(encode(&Item::Array(a)))
    }
}

// ---- driver ----------------------------------------------------------------------------------

struct Entry {
    name: &'static str,
    palette_len: fn() -> usize,
    /// run the sequence of palette indices
    run_palette: fn(&[usize]) -> CaseResult,
    run_gen: fn(&mut Gen, &mut Ctx) -> CaseResult,
    exh3: bool,
}

fn run_palette<S: Spec>(idx: &[usize]) -> CaseResult {
    let p = S::palette();
    let ops: Vec<S::Op> = idx.iter().map(|i| p[*i].clone()).collect();
    check::<S>(&ops)
}

fn run_gen<S: Spec>(g: &mut Gen, ctx: &mut Ctx) -> CaseResult {
    let n = g.below(17);
    let ops: Vec<S::Op> = (0..n).map(|_| S::gen_op(g)).collect();
    ctx.classf(format!("builder:{}", S::NAME));
    ctx.classf(format!("seq-len:{}", match n { 0 => "0", 1 => "1", 2..=4 => "2-4", 5..=8 => "5-8", _ => "9-16" }));
    let model = S::model(&ops);
    if model.is_err() {
        ctx.class("refused-call");
    }
    if n >= 2 || model.is_err() {
        ctx.nontrivial(hash_str(&format!("{}{:?}", S::NAME, ops)));
        ctx.sample_with(|| format!("{}: {}", S::NAME, crate::props::common::short(&ops, 400)));
    }
    check::<S>(&ops)
}

macro_rules! entry {
    ($s:ty, $exh3:expr) => {
        Entry { name: <$s>::NAME, palette_len: || <$s>::palette().len(), run_palette: run_palette::<$s>, run_gen: run_gen::<$s>, exh3: $exh3 }
    };
}

fn entries() -> &'static Vec<Entry> {
    static E: std::sync::OnceLock<Vec<Entry>> = std::sync::OnceLock::new();
    E.get_or_init(|| {
        vec![
            entry!(HeaderSpec, true),
            entry!(SignatureSpec, true),
            entry!(SignSpec, true),
            entry!(Sign1Spec, true),
            entry!(MacSpec, true),
            entry!(Mac0Spec, true),
            entry!(EncryptSpec, true),
            entry!(Encrypt0Spec, true),
            entry!(RecipientSpec, true),
            entry!(KeySpec, true),
            entry!(ClaimsSpec, false),
            entry!(PartySpec, true),
            entry!(SuppSpec, true),
            entry!(KdfSpec, true),
        ]
    })
}

fn exh_sizes() -> Vec<u64> {
    entries()
        .iter()
        .map(|e| {
            let n = (e.palette_len)() as u64;
            1 + n + n * n + if e.exh3 { n * n * n } else { 0 }
        })
        .collect()
}

fn exh_count(_t: Tier) -> u64 {
    exh_sizes().iter().sum()
}

/// What every builder starts from: `new()` followed by `build()` gives a value with nothing set —
/// stated here field by field (the builder models above start from the crate's own `Default`, so a
/// default that was not empty would otherwise go unnoticed by model and code alike).
fn defaults_case() -> CaseResult {
    use coset::cwt::{ClaimsSet, ClaimsSetBuilder};
    fn hdr_empty(what: &str, h: &Header) -> CaseResult {
        ensure!(h.alg.is_none() && h.crit.is_empty() && h.content_type.is_none() && h.key_id.is_empty() && h.iv.is_empty() && h.partial_iv.is_empty() && h.counter_signatures.is_empty() && h.rest.is_empty(), "{}: a header nobody set is not empty: {:?}", what, h);
        ensure!(h.is_empty(), "{}: is_empty() is false for a header nobody set", what);
        Ok(())
    }
    fn prot_empty(what: &str, p: &ProtectedHeader) -> CaseResult {
        ensure!(p.original_data.is_none(), "{}: a protected header nobody set retains bytes", what);
        hdr_empty(what, &p.header)
    }
    hdr_empty("HeaderBuilder", &HeaderBuilder::new().build())?;
    hdr_empty("Header::default", &Header::default())?;
    prot_empty("ProtectedHeader::default", &ProtectedHeader::default())?;
    let s = CoseSignatureBuilder::new().build();
    prot_empty("CoseSignatureBuilder", &s.protected)?;
    hdr_empty("CoseSignatureBuilder", &s.unprotected)?;
    ensure!(s.signature.is_empty() && s == CoseSignature::default(), "CoseSignatureBuilder: fresh value {:?}", s);
    let v = CoseSignBuilder::new().build();
    prot_empty("CoseSignBuilder", &v.protected)?;
    hdr_empty("CoseSignBuilder", &v.unprotected)?;
    ensure!(v.payload.is_none() && v.signatures.is_empty() && v == CoseSign::default(), "CoseSignBuilder: fresh value {:?}", v);
    let v = CoseSign1Builder::new().build();
    prot_empty("CoseSign1Builder", &v.protected)?;
    hdr_empty("CoseSign1Builder", &v.unprotected)?;
    ensure!(v.payload.is_none() && v.signature.is_empty() && v == CoseSign1::default(), "CoseSign1Builder: fresh value {:?}", v);
    let v = CoseMacBuilder::new().build();
    prot_empty("CoseMacBuilder", &v.protected)?;
    hdr_empty("CoseMacBuilder", &v.unprotected)?;
    ensure!(v.payload.is_none() && v.tag.is_empty() && v.recipients.is_empty() && v == CoseMac::default(), "CoseMacBuilder: fresh value {:?}", v);
    let v = CoseMac0Builder::new().build();
    prot_empty("CoseMac0Builder", &v.protected)?;
    hdr_empty("CoseMac0Builder", &v.unprotected)?;
    ensure!(v.payload.is_none() && v.tag.is_empty() && v == CoseMac0::default(), "CoseMac0Builder: fresh value {:?}", v);
    let v = CoseEncryptBuilder::new().build();
    prot_empty("CoseEncryptBuilder", &v.protected)?;
    hdr_empty("CoseEncryptBuilder", &v.unprotected)?;
    ensure!(v.ciphertext.is_none() && v.recipients.is_empty() && v == CoseEncrypt::default(), "CoseEncryptBuilder: fresh value {:?}", v);
    let v = CoseEncrypt0Builder::new().build();
    prot_empty("CoseEncrypt0Builder", &v.protected)?;
    hdr_empty("CoseEncrypt0Builder", &v.unprotected)?;
    ensure!(v.ciphertext.is_none() && v == CoseEncrypt0::default(), "CoseEncrypt0Builder: fresh value {:?}", v);
    let v = CoseRecipientBuilder::new().build();
    prot_empty("CoseRecipientBuilder", &v.protected)?;
    hdr_empty("CoseRecipientBuilder", &v.unprotected)?;
    ensure!(v.ciphertext.is_none() && v.recipients.is_empty() && v == CoseRecipient::default(), "CoseRecipientBuilder: fresh value {:?}", v);
    let k = CoseKey::default();
    ensure!(k.kty == KeyType::Assigned(iana::KeyType::Reserved) && k.key_id.is_empty() && k.alg.is_none() && k.key_ops.is_empty() && k.base_iv.is_empty() && k.params.is_empty(), "CoseKey::default is not the empty key: {:?}", k);
    ensure!(Algorithm::default() == Algorithm::Assigned(iana::Algorithm::Reserved), "Algorithm::default is {:?}", Algorithm::default());
    ensure!(CoseKeySet::default().0.is_empty(), "CoseKeySet::default is not empty");
    let c = ClaimsSetBuilder::new().build();
    ensure!(c.issuer.is_none() && c.subject.is_none() && c.audience.is_none() && c.expiration_time.is_none() && c.not_before.is_none() && c.issued_at.is_none() && c.cwt_id.is_none() && c.rest.is_empty() && c == ClaimsSet::default(), "ClaimsSetBuilder: fresh value {:?}", c);
    let p = PartyInfoBuilder::new().build();
    ensure!(p.identity.is_none() && p.nonce.is_none() && p.other.is_none() && p == PartyInfo::default(), "PartyInfoBuilder: fresh value {:?}", p);
    let sp = SuppPubInfoBuilder::new().build();
    prot_empty("SuppPubInfoBuilder", &sp.protected)?;
    ensure!(sp.key_data_length == 0 && sp.other.is_none() && sp == SuppPubInfo::default(), "SuppPubInfoBuilder: fresh value {:?}", sp);
    let kd = CoseKdfContextBuilder::new().build().to_vec().map_err(|e| format!("fresh KDF context fails to encode: {:?}", e))?;
    ensure!(kd == vec![0x84, 0x00, 0x83, 0xf6, 0xf6, 0xf6, 0x83, 0xf6, 0xf6, 0xf6, 0x82, 0x00, 0x40], "CoseKdfContextBuilder: fresh value encodes to {}", crate::cbor::hex(&kd));
    Ok(())
}

fn exh_case(idx: u64, ctx: &mut Ctx) -> CaseResult {
    if idx == 0 {
        defaults_case()?;
    }
    let sizes = exh_sizes();
    let (s, mut i) = segment(idx, &sizes).ok_or("index out of range")?;
    let e = &entries()[s];
    let n = (e.palette_len)() as u64;
    let seq: Vec<usize> = if i == 0 {
        vec![]
    } else if i < 1 + n {
        vec![(i - 1) as usize]
    } else if i < 1 + n + n * n {
        i -= 1 + n;
        vec![(i / n) as usize, (i % n) as usize]
    } else {
        i -= 1 + n + n * n;
        vec![(i / (n * n)) as usize, ((i / n) % n) as usize, (i % n) as usize]
    };
    ctx.classf(format!("exh:{}:len{}", e.name, seq.len()));
    if seq.len() >= 2 {
        ctx.nontrivial(hash_str(&format!("{}{:?}", e.name, seq)));
        ctx.sample_with(|| format!("{}: palette ops {:?}", e.name, seq));
    }
    (e.run_palette)(&seq)
}

fn case(g: &mut Gen, ctx: &mut Ctx) -> CaseResult {
    let es = entries();
    let e = &es[g.below(es.len())];
    (e.run_gen)(g, ctx)
}

pub fn property() -> Property {
    Property {
        id: "C19",
        title: "Builders apply exactly the documented effect of each call, in any order",
        rule: "call sequences over every public method of all 14 builders (header, signature, sign, sign1, mac, mac0, encrypt, encrypt0, recipient, key incl. its five constructors, claims set, party info, supplementary info, KDF context): \
               exhaustively all sequences of length <= 3 over a per-builder palette (length <= 2 for the claims builder, whose palette lists every registered claim name) including empty, boundary and reserved arguments, and generated sequences of length <= 16 (key constructor arguments also shaped like key material: lengths at and next to the curve field sizes, leading 00 / ff / SEC1 prefix octets); \
               oracle: a field-map model applying each call's documented effect to a struct literal, compared with build(); documented refusals (panics) predicted per call; invariant: never both IV and Partial IV; \
               non-trivial = >= 2 calls, or a refused call; distinct by call list",
        assumptions: &["CoseKdfContext has private fields: compared through to_vec against the reference encoding of the modelled fields", "the creator closures of the create helpers return a constant followed by the bytes they were handed; the model appends the reference structure of the modelled state at the time of the call"],
        exhaustive_domains: &["all call sequences of length 0..3 over each builder's palette (0..2 for ClaimsSetBuilder)"],
        case,
        exh_count,
        exh_case,
        bytes_case: None,
        quick_cases: 200_000,
        thorough_cases: 2_000_000,
        max_tape: 2048,
    }
}

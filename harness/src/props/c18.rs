//! C18 — CWT claims sets and KDF contexts decode and encode per their definitions.

use crate::cbor::{diag, hex_trunc, read_strict, Item, StyleOpts};
use crate::gen::{gen_claims, gen_kdf, gen_party, gen_supp, Faults};
use crate::model::*;
use crate::props::common::*;
use crate::run::{hash_str, no_exh_case, no_exh_count, CaseResult, Ctx, Property};
use crate::tape::Gen;
use coset::cwt::ClaimsSet;
use coset::iana::{self, EnumI64};
use coset::{CborSerializable, CoseKdfContext, CoseKdfContextBuilder, PartyInfo, SuppPubInfo};

fn time_item(t: &MTime) -> Item {
    match t {
        MTime::Int(i) => Item::Int(*i as i128),
        MTime::Float(f) => f.clone(),
    }
}

fn party_item(p: &MParty) -> Item {
    Item::Array(vec![
        opt_bytes_item(&p.identity),
        match &p.nonce {
            None => Item::Null,
            Some(MNonce::Bytes(b)) => Item::Bytes(b.clone()),
            Some(MNonce::Int(i)) => Item::Int(*i as i128),
        },
        opt_bytes_item(&p.other),
    ])
}

fn supp_item(s: &MSupp) -> Item {
    let mut v = vec![Item::Int(s.key_data_length as i128), Item::Bytes(s.protected.wire.clone().unwrap_or_default())];
    if let Some(o) = &s.other {
        v.push(Item::Bytes(o.clone()));
    }
    Item::Array(v)
}

fn kdf_item(k: &MKdf) -> Item {
    let mut v = vec![k.alg.to_item(), party_item(&k.u), party_item(&k.v), supp_item(&k.supp)];
    for p in &k.priv_info {
        v.push(Item::Bytes(p.clone()));
    }
    Item::Array(v)
}

fn claims_case(g: &mut Gen, ctx: &mut Ctx, faults: &mut Faults, mode: &str) -> CaseResult {
    let item = gen_claims(g, faults);
    let mut decoded = vec![];
    for style in 0..2 {
        let o = if style == 0 && g.bool() { StyleOpts::NONE } else { StyleOpts::ALL };
        let (bytes, _) = styled(&item, g, o);
        let expect = m_claims(&item);
        if style == 0 {
            ctx.classf(format!("claims-model:{}", if expect.is_ok() { "accept" } else { "reject" }));
            let n = item.as_map().map(|m| m.len()).unwrap_or(0);
            let has_time = item.as_map().map(|m| m.iter().any(|(k, _)| matches!(k, Item::Int(4..=6)))).unwrap_or(false);
            if n >= 2 || has_time {
                ctx.nontrivial(hash_str(&diag(&item)));
                ctx.sample_with(|| format!("[claims {}] {} = {}", mode, diag(&item), hex_trunc(&bytes, 48)));
            }
        }
        let got = ClaimsSet::from_slice(&bytes);
        match (&expect, got) {
            (Ok(e), Ok(c)) => {
                let m = claims_to_model(&c)?;
                ensure!(&m == e, "claims set decoded differently from the wire content\n  item: {}\n  bytes: {}\n  expected: {}\n  got: {}", diag(&item), hex_trunc(&bytes, 300), short(e, 800), short(&m, 800));
                decoded.push(m);
                if style == 0 {
                    // encode direction: the in-memory value built from the model (struct literal)
                    if let Some(v) = model_to_claims(e) {
                        let has_dup_or_nan = false;
                        let _ = has_dup_or_nan;
                        let out = v.clone().to_vec().map_err(|er| format!("well-formed claims set failed to encode: {:?}\n  item: {}", er, diag(&item)))?;
                        let read = read_strict(&out).map_err(|er| format!("claims set encoding is not strict definite-length CBOR ({:?}): {}", er, hex_trunc(&out, 200)))?;
                        let mut typed = vec![];
                        if let Some(s) = &e.issuer { typed.push((Item::Int(1), Item::Text(s.clone()))); }
                        if let Some(s) = &e.subject { typed.push((Item::Int(2), Item::Text(s.clone()))); }
                        if let Some(s) = &e.audience { typed.push((Item::Int(3), Item::Text(s.clone()))); }
                        if let Some(t) = &e.expiration_time { typed.push((Item::Int(4), time_item(t))); }
                        if let Some(t) = &e.not_before { typed.push((Item::Int(5), time_item(t))); }
                        if let Some(t) = &e.issued_at { typed.push((Item::Int(6), time_item(t))); }
                        if let Some(b) = &e.cwt_id { typed.push((Item::Int(7), Item::Bytes(b.clone()))); }
                        let rest: Vec<(Item, Item)> = e.rest.iter().map(|(l, v)| (l.to_item(), v.clone())).collect();
                        let am = read.as_map().ok_or_else(|| format!("claims set encoded as {}", read.kind()))?;
                        map_matches(am, &typed, &rest).map_err(|er| format!("claims set encoding: {}\n  value: {}\n  output: {}", er, short(e, 600), diag(&read)))?;
                        let back = ClaimsSet::from_slice(&out).map_err(|er| format!("encoded claims set does not decode: {:?}", er))?;
                        let mb = claims_to_model(&back)?;
                        ensure!(&mb == e, "decoding the encoded claims set does not return the value\n  value: {}\n  got: {}", short(e, 600), short(&mb, 600));
                        ctx.class("claims:encode-direction");
                    }
                }
            }
            (Ok(_), Err(e)) => fail!("well-formed claims set rejected ({:?})\n  item: {}\n  bytes: {}", e, diag(&item), hex_trunc(&bytes, 300)),
            (Err(Rej::Reject(why)), Ok(_)) => fail!("ill-formed claims set accepted (model: {})\n  item: {}\n  bytes: {}", why, diag(&item), hex_trunc(&bytes, 300)),
            _ => {}
        }
    }
    if decoded.len() == 2 {
        ensure!(decoded[0] == decoded[1], "two encodings of the same claims set decode differently: {}", diag(&item));
    }
    Ok(())
}

fn kdf_case(g: &mut Gen, ctx: &mut Ctx, faults: &mut Faults, mode: &str) -> CaseResult {
    let which = g.weighted(&[6, 2, 2]);
    let item = match which {
        0 => gen_kdf(g, faults),
        1 => gen_party(g, faults),
        _ => gen_supp(g, faults),
    };
    let o = if g.ratio(1, 3) { StyleOpts::NONE } else { StyleOpts::ALL };
    let (bytes, enc_item) = styled(&item, g, o);
    let mut mc = MCtx::default();
    match which {
        1 => {
            ctx.class("type:PartyInfo");
            let expect = m_party(&enc_item);
            ctx.nontrivial(hash_str(&diag(&item)));
            ctx.sample_with(|| format!("[party {}] {} = {}", mode, diag(&item), hex_trunc(&bytes, 48)));
            match (&expect, PartyInfo::from_slice(&bytes)) {
                (Ok(e), Ok(p)) => {
                    let m = party_to_model(&p);
                    ensure!(&m == e, "PartyInfo decoded differently: item {} expected {:?} got {:?}", diag(&item), e, m);
                    let out = model_to_party(e).to_vec().map_err(|er| format!("PartyInfo failed to encode: {:?}", er))?;
                    let read = read_strict(&out).map_err(|er| format!("PartyInfo encoding not strict ({:?})", er))?;
                    ensure!(read == party_item(e), "PartyInfo encodes to {} instead of {}", diag(&read), diag(&party_item(e)));
                }
                (Ok(_), Err(e)) => fail!("well-formed PartyInfo rejected ({:?}): {} = {}", e, diag(&item), hex_trunc(&bytes, 200)),
                (Err(Rej::Reject(why)), Ok(_)) => fail!("ill-formed PartyInfo accepted (model: {}): {} = {}", why, diag(&item), hex_trunc(&bytes, 200)),
                _ => {}
            }
        }
        2 => {
            ctx.class("type:SuppPubInfo");
            let expect = m_supp(&enc_item, &mut mc);
            ctx.nontrivial(hash_str(&diag(&item)));
            ctx.sample_with(|| format!("[supp {}] {} = {}", mode, diag(&item), hex_trunc(&bytes, 48)));
            match (&expect, SuppPubInfo::from_slice(&bytes)) {
                (Ok(e), Ok(p)) => {
                    let m = supp_to_model(&p)?;
                    ensure!(&m == e, "SuppPubInfo decoded differently: item {}\n expected {}\n got {}", diag(&item), short(e, 600), short(&m, 600));
                    if let Some(v) = model_to_supp(e) {
                        let out = v.to_vec().map_err(|er| format!("SuppPubInfo failed to encode: {:?}", er))?;
                        let read = read_strict(&out).map_err(|er| format!("SuppPubInfo encoding not strict ({:?})", er))?;
                        ensure!(read == supp_item(e), "SuppPubInfo encodes to {} instead of {}", diag(&read), diag(&supp_item(e)));
                    }
                }
                (Ok(_), Err(e)) => fail!("well-formed SuppPubInfo rejected ({:?}): {} = {}", e, diag(&item), hex_trunc(&bytes, 200)),
                (Err(Rej::Reject(why)), Ok(_)) => fail!("ill-formed SuppPubInfo accepted (model: {}): {} = {}", why, diag(&item), hex_trunc(&bytes, 200)),
                _ => {}
            }
        }
        _ => {
            ctx.class("type:CoseKdfContext");
            let expect = m_kdf(&enc_item, &mut mc);
            ctx.classf(format!("kdf-model:{}", match &expect { Ok(_) => "accept", Err(Rej::Reject(_)) => "reject", _ => "unknown" }));
            let arity = item.as_array().map(|a| a.len()).unwrap_or(0);
            if arity >= 4 {
                ctx.nontrivial(hash_str(&diag(&item)));
                ctx.sample_with(|| format!("[kdf {}] {} = {}", mode, diag(&item), hex_trunc(&bytes, 48)));
            }
            match (&expect, CoseKdfContext::from_slice(&bytes)) {
                (Ok(e), Ok(k)) => {
                    // private fields: observe through re-encoding (positional) …
                    let out = k.clone().to_vec().map_err(|er| format!("decoded KDF context failed to encode: {:?}", er))?;
                    let read = read_strict(&out).map_err(|er| format!("KDF context encoding not strict ({:?}): {}", er, hex_trunc(&out, 200)))?;
                    let want = kdf_item(e);
                    ensure!(read == want, "KDF context fields differ from the wire content\n  item: {}\n  bytes: {}\n  re-encoded: {}\n  expected:   {}", diag(&item), hex_trunc(&bytes, 300), diag(&read), diag(&want));
                    // … and through == with a builder-assembled value when the algorithm is assigned
                    if let L::Int(a) = &e.alg {
                        if let (Some(alg), Some(supp)) = (iana::Algorithm::from_i64(*a), model_to_supp(&e.supp)) {
                            let mut b = CoseKdfContextBuilder::new()
                                .algorithm(alg)
                                .party_u_info(model_to_party(&e.u))
                                .party_v_info(model_to_party(&e.v))
                                .supp_pub_info(supp);
                            for p in &e.priv_info {
                                b = b.add_supp_priv_info(p.clone());
                            }
                            let built = b.build();
                            ensure!(same(&built, &k), "decoded KDF context != the same context assembled through the builder\n  item: {}\n  decoded: {}\n  built:   {}", diag(&item), short(&k, 800), short(&built, 800));
                            let out2 = built.to_vec().map_err(|er| format!("built KDF context failed to encode: {:?}", er))?;
                            ensure!(out2 == out, "builder-made KDF context encodes differently from the decoded one");
                            ctx.class("kdf:builder-compared");
                        }
                    }
                    let back = CoseKdfContext::from_slice(&out).map_err(|er| format!("re-encoded KDF context does not decode: {:?}", er))?;
                    ensure!(same(&back, &k), "decode(encode(ctx)) != ctx for KDF context {}", diag(&item));
                }
                (Ok(_), Err(e)) => fail!("well-formed KDF context rejected ({:?})\n  item: {}\n  bytes: {}", e, diag(&item), hex_trunc(&bytes, 300)),
                (Err(Rej::Reject(why)), Ok(_)) => fail!("ill-formed KDF context accepted (model: {})\n  item: {}\n  bytes: {}", why, diag(&item), hex_trunc(&bytes, 300)),
                _ => {}
            }
        }
    }
    Ok(())
}

fn case(g: &mut Gen, ctx: &mut Ctx) -> CaseResult {
    let (mut faults, mode) = match g.weighted(&[4, 4, 2]) {
        0 => (Faults::none(), "valid"),
        1 => (Faults::one(), "one-fault"),
        _ => (Faults::many(), "many-faults"),
    };
    ctx.classf(format!("mode:{}", mode));
    let r = if g.bool() {
        ctx.class("type:ClaimsSet");
        claims_case(g, ctx, &mut faults, mode)
    } else {
        kdf_case(g, ctx, &mut faults, mode)
    };
    for f in &faults.log {
        ctx.classf(format!("fault:{}", f));
    }
    r
}

pub fn property() -> Property {
    Property {
        id: "C18",
        title: "CWT claims sets and KDF contexts decode and encode per their definitions",
        rule: "abstract claims maps (keys 0..9, 38..40, -260..-257, private, unregistered, text, non-labels; values of every kind; int/float/extreme timestamps) and \
               KDF-context arrays (arity 0..7, party-info and supp-pub-info sub-arrays with every slot kind), valid / one planted fault / several, styled encodings; \
               decode compared with the model, accepted values rebuilt in memory and encoded, output read by the strict reader; \
               non-trivial = claims with >= 2 entries or a timestamp, context arity >= 4, any standalone sub-structure; distinct by abstract item",
        assumptions: &[
            "oracle: harness/src/model.rs::m_claims / m_kdf / m_party / m_supp written from RFC 8392 §3-4, RFC 8152 §11.2 and the property statement",
            "CoseKdfContext has private fields: observed through to_vec (strict reader, positional) and == with a builder-assembled value",
        ],
        exhaustive_domains: &[],
        case,
        exh_count: no_exh_count,
        exh_case: no_exh_case,
        bytes_case: None,
        quick_cases: 400_000,
        thorough_cases: 3_000_000,
        max_tape: 2048,
    }
}

//! Shared pieces for C02–C06: protected-header flavours, reference structure encoders
//! (RFC 8152 §4.4, §5.3, §6.3), byte strings on length-class boundaries.

use crate::cbor::{encode, read_strict, Item, StyleOpts, Wrapped};
use crate::gen::{gen_header, Faults};
use crate::model::*;
use crate::props::c11::check_protected_shape;
use crate::props::common::*;
use crate::run::Ctx;
use crate::tape::Gen;
use coset::{CborSerializable, CoseSign1, Header, ProtectedHeader};

/// The context strings, written here from the RFC.
pub const SIG_CONTEXTS: [&str; 3] = ["Signature", "Signature1", "CounterSignature"];
pub const MAC_CONTEXTS: [&str; 2] = ["MAC", "MAC0"];
pub const ENC_CONTEXTS: [&str; 5] = ["Encrypt", "Encrypt0", "Enc_Recipient", "Mac_Recipient", "Rec_Recipient"];

/// Deterministic encoding of [context, body_protected, (sign_protected,) external_aad, payload].
pub fn ref_sig_structure(context: &str, body: &[u8], sign: Option<&[u8]>, aad: &[u8], payload: &[u8]) -> Vec<u8> {
    let mut a = vec![Item::text(context), Item::bytes(body)];
    if let Some(s) = sign {
        a.push(Item::bytes(s));
    }
    a.push(Item::bytes(aad));
    a.push(Item::bytes(payload));
    encode(&Item::Array(a))
}

/// Deterministic encoding of [context, protected, external_aad, payload].
pub fn ref_mac_structure(context: &str, protected: &[u8], aad: &[u8], payload: &[u8]) -> Vec<u8> {
    encode(&Item::Array(vec![Item::text(context), Item::bytes(protected), Item::bytes(aad), Item::bytes(payload)]))
}

/// Deterministic encoding of [context, protected, external_aad].
pub fn ref_enc_structure(context: &str, protected: &[u8], aad: &[u8]) -> Vec<u8> {
    encode(&Item::Array(vec![Item::text(context), Item::bytes(protected), Item::bytes(aad)]))
}

/// The elements of a top-level array as read by the harness' own lenient reader (None when the
/// bytes are not one well-formed array).
pub fn wire_slots(bytes: &[u8]) -> Option<Vec<Item>> {
    match crate::cbor::read_lenient(bytes).ok()? {
        Item::Array(a) => Some(a),
        _ => None,
    }
}

/// Content of a byte-string slot (None for nil or anything else).
pub fn slot_bytes(slots: &[Item], i: usize) -> Option<Vec<u8>> {
    slots.get(i).and_then(|x| x.as_bytes().cloned())
}

/// External AAD for a structure whose protected slot holds `p`: mostly a byte string on the
/// length-class lattice; sometimes bytes that are themselves a Sig_/MAC_/Enc_structure-shaped
/// array naming a context and (mostly) the same protected bytes — an AAD that "is already
/// assembled" must still be wrapped like any other.
pub fn gen_aad(g: &mut Gen, p: &[u8]) -> Vec<u8> {
    if !g.ratio(1, 10) {
        return gen_class_bytes(g);
    }
    let all: Vec<&str> = SIG_CONTEXTS.iter().chain(MAC_CONTEXTS.iter()).chain(ENC_CONTEXTS.iter()).copied().collect();
    let c: &&str = g.pick(&all);
    let prot = if g.ratio(3, 4) { p.to_vec() } else { g.small_bytes() };
    let mut a = vec![Item::text(c), Item::bytes(&prot)];
    match g.below(3) {
        0 => a.push(Item::bytes(&g.small_bytes())),
        1 => {
            a.push(Item::bytes(&g.small_bytes()));
            a.push(Item::bytes(&g.small_bytes()));
        }
        _ => {
            a.push(Item::bytes(&prot));
            a.push(Item::bytes(&g.small_bytes()));
            a.push(Item::bytes(&g.small_bytes()));
        }
    }
    encode(&Item::Array(a))
}

/// A byte string whose length is drawn from the CBOR length-class lattice.
pub fn gen_class_bytes(g: &mut Gen) -> Vec<u8> {
    if g.ratio(1, 1000) {
        // rarely: the next byte-count magnitudes (2^20, 2^24 and around it, 2^25)
        let n = *g.pick(&[1usize << 20, (1 << 24) - 1, 1 << 24, (1 << 24) + 5, 1 << 25]);
        let seed = g.bytes(7);
        return (0..n).map(|i| seed[i % 7] ^ (i / 7) as u8).collect();
    }
    let n = match g.weighted(&[8, 6, 3, 3, 1, 1]) {
        0 => g.below(5),
        1 => g.below(40),
        2 => *g.pick(&[22usize, 23, 24, 25]),
        3 => *g.pick(&[254usize, 255, 256, 257]),
        4 => *g.pick(&[65534usize, 65535, 65536, 65537]),
        _ => 70_000,
    };
    if n <= 300 {
        g.bytes(n)
    } else {
        // long strings: a short random seed repeated (cheap, still position-sensitive)
        let seed = g.bytes(7);
        (0..n).map(|i| seed[i % 7] ^ (i / 7) as u8).collect()
    }
}

pub fn len_class(n: usize) -> &'static str {
    match n {
        0 => "0",
        1..=23 => "<24",
        24..=255 => "<256",
        256..=65535 => "<65536",
        _ => ">=65536",
    }
}

/// A protected header as an in-memory value together with the bytes that must appear in the
/// protected slot of every structure built from it.
#[derive(Clone)]
pub struct Prot {
    pub value: ProtectedHeader,
    /// expected protected-slot bytes
    pub p: Vec<u8>,
    /// the header, when built in memory (usable with the builders' `protected(Header)`)
    pub built: Option<Header>,
    pub flavour: &'static str,
}

/// Draw a protected header: decoded from wire (styled bytes), built empty, or built non-empty.
pub fn gen_prot(g: &mut Gen, ctx: &mut Ctx) -> Result<Prot, String> {
    let content = match g.weighted(&[2, 8, 1, 1]) {
        0 => None,
        1 => Some(gen_header(g, &mut Faults::none(), 1)),
        3 => {
            // a chain of nested counter-signatures, up to the depth the decoder admits
            let d = *g.pick(&[2usize, 4, 6, 7, 8, 8]);
            ctx.classf(format!("protected:countersig-chain-depth-{}", d));
            Some(countersig_chain_header(g, d))
        }
        _ => {
            // a header whose deterministic encoding has a length on a CBOR length-class boundary:
            // {4: h'..n bytes..'} encodes to 2 + head(n) + n bytes
            let target = *g.pick(&[23usize, 24, 25, 255, 256, 257, 65535, 65536, 65537]);
            let n = match target {
                0..=25 => target - 3,
                26..=258 => target - 4,
                259..=65538 => target - 5,
                _ => target - 7,
            };
            ctx.classf(format!("protected:encoded-length-{}", target));
            Some(Item::Map(vec![(Item::Int(4), Item::Bytes((0..n).map(|i| (i * 7 + 1) as u8).collect()))]))
        }
    };
    let mut p = gen_prot_with(g, ctx, content)?;
    if g.ratio(1, 12) {
        // the value reaches the caller through `Clone::clone_from` over a header of another
        // provenance (decoded over built, built over decoded, longer over shorter ...): a copy is a copy
        let oc = if g.bool() { None } else { Some(Item::Map(vec![(Item::Int(4), Item::Bytes(g.nonempty_bytes()))])) };
        let other = gen_prot_with(g, ctx, oc)?;
        let mut v = other.value;
        v.clone_from(&p.value);
        ctx.classf(format!("protected:copied-by-clone_from:{}-over-{}", p.flavour, other.flavour));
        p.value = v;
    }
    Ok(p)
}

/// Two protected headers with the *same content* (independently styled / positioned / built):
/// body and signer headers that are equal as values but not as bytes.
pub fn gen_prot_pair_same_content(g: &mut Gen, ctx: &mut Ctx) -> Result<(Prot, Prot), String> {
    let content = gen_header(g, &mut Faults::none(), 1);
    if g.ratio(1, 3) {
        // equal under `==` but not identical: the two headers differ only in the sign of a float
        // zero inside an extra parameter (0.0 == -0.0, yet they encode differently)
        if let Item::Map(m) = &content {
            // (a label the content does not already use)
            let mut n = 900 + g.range_i64(0, 50) as i128;
            while m.iter().any(|(k, _)| k == &Item::Int(n)) {
                n += 1;
            }
            let label = Item::Int(n);
            let wrap = |z: f64, deep: bool| if deep { Item::Array(vec![Item::Int(1), Item::Map(vec![(Item::Int(2), Item::Float(z))])]) } else { Item::Float(z) };
            let deep = g.bool();
            let mut a = m.clone();
            let mut b = m.clone();
            a.push((label.clone(), wrap(0.0, deep)));
            b.push((label, wrap(-0.0, deep)));
            ctx.class("protected:pair-equal-but-not-identical");
            return Ok((gen_prot_with(g, ctx, Some(Item::Map(a)))?, gen_prot_with(g, ctx, Some(Item::Map(b)))?));
        }
    }
    ctx.class("protected:pair-with-same-content");
    Ok((gen_prot_with(g, ctx, Some(content.clone()))?, gen_prot_with(g, ctx, Some(content))?))
}

/// A header map holding a chain of `depth` nested counter-signatures (each level carried in the
/// protected or the unprotected header of the level above; the innermost signature has a
/// non-empty protected header).  The decoder admits chains of up to 8 levels.
pub fn countersig_chain_header(g: &mut Gen, depth: usize) -> Item {
    let mut sig = Item::Array(vec![Wrapped::new(Item::Map(vec![(Item::Int(1), Item::Int(-7))])), Item::Map(vec![]), Item::Bytes(vec![0x5e])]);
    for level in 1..depth {
        let hdr = Item::Map(vec![(Item::Int(7), if g.ratio(1, 4) { Item::Array(vec![sig]) } else { sig })]);
        sig = if g.bool() {
            Item::Array(vec![Wrapped::new(hdr), Item::Map(vec![]), Item::Bytes(vec![level as u8])])
        } else {
            Item::Array(vec![Item::Bytes(vec![]), hdr, Item::Bytes(vec![level as u8])])
        };
    }
    Item::Map(vec![(Item::Int(7), sig)])
}

/// A protected header with the given content (None = the empty header): decoded from wire at a
/// drawn position and in a drawn style, or built in memory.
pub fn gen_prot_with(g: &mut Gen, ctx: &mut Ctx, content: Option<Item>) -> Result<Prot, String> {
    if g.ratio(1, 20) {
        // a header built in memory around counter-signatures that were *received* (their own protected
        // headers retain bytes, mostly not the crate's encoding): the header's map is written afresh,
        // each received counter-signature inside it keeps its bytes
        let n = 1 + g.below(2);
        let mut sigs = vec![];
        let mut items = vec![];
        for i in 0..n {
            let w: Vec<u8> = g.pick(&[&[][..], &[0xa0], &[0xbf, 0xff], &[0xa1, 0x18, 0x01, 0x26], &[0xa2, 0x04, 0x41, 0x31, 0x01, 0x26], &[0xbf, 0x01, 0x26, 0xff]]).to_vec();
            let sigbytes = vec![0x50 + i as u8];
            let wire = crate::cbor::encode(&Item::Array(vec![Item::Bytes(w.clone()), Item::Map(vec![]), Item::Bytes(sigbytes.clone())]));
            let cs = coset::CoseSignature::from_slice(&wire).map_err(|e| format!("counter-signature {} rejected: {:?}", crate::cbor::hex(&wire), e))?;
            sigs.push(cs);
            items.push(Item::Array(vec![Item::Bytes(w), Item::Map(vec![]), Item::Bytes(sigbytes)]));
        }
        let mut h = Header { counter_signatures: sigs, ..Default::default() };
        let mut entries = vec![];
        if g.bool() {
            h.key_id = g.nonempty_bytes();
            entries.push((Item::Int(4), Item::Bytes(h.key_id.clone())));
        }
        entries.push((Item::Int(7), if n == 1 { items.remove(0) } else { Item::Array(items) }));
        let p = crate::cbor::encode(&Item::Map(entries));
        ctx.class("protected:built-around-received-counter-signatures");
        return Ok(Prot { value: ProtectedHeader { original_data: None, header: h.clone() }, p, built: Some(h), flavour: "built-around-received-countersig" });
    }
    if g.ratio(1, 20) {
        // a header built through the public fields whose extras name a typed parameter that is *vacant*
        // (`rest: [(5, iv)]` instead of `iv: ..`): a legal map all the same, typed entries first
        let mut h = Header::default();
        let mut entries: Vec<(Item, Item)> = vec![];
        if g.bool() {
            h.alg = Some(coset::Algorithm::Assigned(coset::iana::Algorithm::ES256));
            entries.push((Item::Int(1), Item::Int(-7)));
        }
        if g.bool() {
            h.key_id = g.nonempty_bytes();
            entries.push((Item::Int(4), Item::Bytes(h.key_id.clone())));
        }
        let iv_set = g.ratio(1, 3);
        if iv_set {
            h.iv = g.nonempty_bytes();
            entries.push((Item::Int(5), Item::Bytes(h.iv.clone())));
        }
        let vacant: Vec<i64> = [1i64, 2, 3, 4, 5, 6].into_iter().filter(|l| !entries.iter().any(|(k, _)| k == &Item::Int(*l as i128)) && !(iv_set && *l == 6)).collect();
        let l = vacant[g.below(vacant.len())];
        let b = g.nonempty_bytes();
        let (v, vi) = match l {
            1 => (coset::cbor::value::Value::from(-35), Item::Int(-35)),
            2 => (coset::cbor::value::Value::Array(vec![coset::cbor::value::Value::from(4)]), Item::Array(vec![Item::Int(4)])),
            3 => (coset::cbor::value::Value::from(60), Item::Int(60)),
            _ => (coset::cbor::value::Value::Bytes(b.clone()), Item::Bytes(b)),
        };
        h.rest.push((coset::Label::Int(l), v));
        entries.push((Item::Int(l as i128), vi));
        if g.bool() {
            h.rest.push((coset::Label::Int(900), coset::cbor::value::Value::Null));
            entries.push((Item::Int(900), Item::Null));
        }
        let p = crate::cbor::encode(&Item::Map(entries));
        ctx.class("protected:built-with-a-vacant-typed-label-among-extras");
        return Ok(Prot { value: ProtectedHeader { original_data: None, header: h.clone() }, p, built: Some(h), flavour: "built-typed-label-in-extras" });
    }
    let flavour = match &content {
        None => g.weighted(&[4, 2, 0]),
        Some(_) => g.weighted(&[4, 0, 4]),
    };
    match flavour {
        0 => {
            // decoded from wire: empty bstr, wrapped empty map, or wrapped header in any style
            let slot = match &content {
                None => {
                    if g.ratio(1, 3) {
                        Wrapped::new(Item::Map(vec![]))
                    } else {
                        Item::Bytes(vec![])
                    }
                }
                Some(c) => Wrapped::new(c.clone()),
            };
            // the position the header is decoded at: message body, or inside a counter-signature
            // carried by the unprotected / protected header of a message (depth 1), or inside a
            // counter-signature of a counter-signature (depth 2), a COSE_Sign signer, a nested recipient
            // counter-signature levels the content itself holds (the decoder admits 8 in total)
            fn cs_depth(i: &Item) -> usize {
                match i {
                    Item::Map(m) => m.iter().map(|(k, v)| if k == &Item::Int(7) { 1 + cs_depth(v) } else { 0 }).max().unwrap_or(0),
                    Item::Array(a) => a.iter().map(cs_depth).max().unwrap_or(0),
                    Item::Wrapped(w) => cs_depth(&w.inner),
                    _ => 0,
                }
            }
            let inner_depth = cs_depth(&slot);
            let position = if inner_depth >= 7 { *g.pick(&[0usize, 0, 4, 5]) } else if inner_depth >= 6 { *g.pick(&[0usize, 1, 2, 4, 5]) } else { g.weighted(&[4, 2, 2, 1, 1, 1]) };
            let sig = |p: Item, u: Item| Item::Array(vec![p, u, Item::Bytes(vec![0x53])]);
            let cs_hdr = |s: Item| Item::Map(vec![(Item::Int(7), s)]);
            let top = match position {
                0 => carrier(Kind::Sign1, slot, Item::Map(vec![])),
                1 => carrier(Kind::Sign1, Item::Bytes(vec![]), cs_hdr(sig(slot, Item::Map(vec![])))),
                2 => carrier(Kind::Sign1, Wrapped::new(cs_hdr(sig(slot, Item::Map(vec![])))), Item::Map(vec![])),
                3 => carrier(Kind::Sign1, Item::Bytes(vec![]), cs_hdr(sig(Item::Bytes(vec![]), cs_hdr(Item::Array(vec![sig(Item::Bytes(vec![]), Item::Map(vec![])), sig(slot, Item::Map(vec![]))]))))),
                4 => Item::Array(vec![Item::Bytes(vec![]), Item::Map(vec![]), Item::Null, Item::Array(vec![sig(Item::Bytes(vec![]), Item::Map(vec![])), sig(slot, Item::Map(vec![]))])]),
                _ => Item::Array(vec![Item::Bytes(vec![]), Item::Map(vec![]), Item::Null, Item::Array(vec![Item::Array(vec![Item::Bytes(vec![]), Item::Map(vec![]), Item::Null, Item::Array(vec![Item::Array(vec![slot, Item::Map(vec![]), Item::Null])])])])]),
            };
            let (bytes, enc) = styled(&top, g, StyleOpts::ALL);
            // the recorded content bytes of the slot, by the known path to it
            #[derive(Clone, Copy)]
            enum Step {
                Idx(usize),
                /// value of the (single) map entry
                Val,
                /// inner item of a wrapped byte string
                Inner,
            }
            fn walk<'a>(mut i: &'a Item, path: &[Step]) -> Option<&'a Item> {
                for s in path {
                    i = match (s, i) {
                        (Step::Idx(n), Item::Array(a)) => a.get(*n)?,
                        (Step::Val, Item::Map(m)) => &m.first()?.1,
                        (Step::Inner, Item::Wrapped(w)) => &w.inner,
                        _ => return None,
                    };
                }
                Some(i)
            }
            use Step::*;
            let path: &[Step] = match position {
                0 => &[Idx(0)],
                1 => &[Idx(1), Val, Idx(0)],
                2 => &[Idx(0), Inner, Val, Idx(0)],
                3 => &[Idx(1), Val, Idx(1), Val, Idx(1), Idx(0)],
                4 => &[Idx(3), Idx(1), Idx(0)],
                _ => &[Idx(3), Idx(0), Idx(3), Idx(0), Idx(0)],
            };
            let w = match walk(&enc, path) {
                Some(Item::Wrapped(w)) => w.content(),
                Some(Item::Bytes(b)) => b.clone(),
                _ => return Err("harness: protected slot not found at its path".into()),
            };
            let value = match position {
                0 => CoseSign1::from_slice(&bytes).map(|v| v.protected),
                1 => CoseSign1::from_slice(&bytes).map(|v| v.unprotected.counter_signatures[0].protected.clone()),
                2 => CoseSign1::from_slice(&bytes).map(|v| v.protected.header.counter_signatures[0].protected.clone()),
                3 => CoseSign1::from_slice(&bytes).map(|v| v.unprotected.counter_signatures[0].unprotected.counter_signatures[1].protected.clone()),
                4 => coset::CoseSign::from_slice(&bytes).map(|v| v.signatures[1].protected.clone()),
                _ => coset::CoseEncrypt::from_slice(&bytes).map(|v| v.recipients[0].recipients[0].protected.clone()),
            }
            .map_err(|e| format!("generated valid message rejected: {:?} ({})", e, crate::cbor::hex_trunc(&bytes, 200)))?;
            if value.original_data.as_deref() != Some(&w[..]) {
                return Err(format!("protected header decoded at position {} does not retain the wire bytes {} (has {:?})", position, crate::cbor::hex_trunc(&w, 80), value.original_data.as_ref().map(|b| crate::cbor::hex_trunc(b, 80))));
            }
            ctx.class("protected:from-wire");
            ctx.classf(format!("protected:from-wire:position-{}", ["body", "countersig-in-unprotected", "countersig-in-protected", "countersig-of-countersig", "second-signer", "recipient-of-recipient"][position]));
            let mut value = value;
            if g.ratio(1, 8) {
                // the application edits the parsed view after decoding (public fields): the retained
                // bytes still are what goes into every structure and every re-encoding
                match g.below(6) {
                    0 => value.header.alg = Some(coset::Algorithm::Assigned(coset::iana::Algorithm::ES256)),
                    1 => value.header.key_id = g.nonempty_bytes(),
                    2 => value.header.rest.push((coset::Label::Int(70000 + g.range_i64(0, 9)), coset::cbor::value::Value::Null)),
                    // the edited view need not even be encodable (a label twice; a label of a typed field)
                    3 => {
                        value.header.rest.push((coset::Label::Int(70000), coset::cbor::value::Value::Null));
                        value.header.rest.push((coset::Label::Int(70000), coset::cbor::value::Value::Null));
                    }
                    4 => {
                        value.header.key_id = vec![1];
                        value.header.rest.push((coset::Label::Int(4), coset::cbor::value::Value::Null));
                    }
                    _ => value.header = Header::default(),
                }
                ctx.class("protected:from-wire-then-view-edited");
                return Ok(Prot { value, p: w, built: None, flavour: "wire-then-edited" });
            }
            Ok(Prot { value, p: w, built: None, flavour: "wire" })
        }
        1 => {
            ctx.class("protected:built-empty");
            Ok(Prot { value: ProtectedHeader { original_data: None, header: Header::default() }, p: vec![], built: Some(Header::default()), flavour: "built-empty" })
        }
        _ => {
            let item = content.unwrap_or_else(|| Item::Map(vec![]));
            let mut m = m_header(&item, &mut MCtx::default()).map_err(|e| format!("valid generator produced a rejected header: {:?}", e))?;
            strip_wire_header(&mut m);
            // a struct literal can hold what no decoder or builder yields: both IV and Partial IV
            // (still an encodable header whose map has both labels)
            if g.ratio(1, 8) {
                if m.iv.is_empty() {
                    m.iv = g.nonempty_bytes();
                }
                if m.partial_iv.is_empty() {
                    m.partial_iv = g.nonempty_bytes();
                }
                ctx.class("protected:built-with-iv-and-partial-iv");
            }
            let mut h = match model_to_header(&m) {
                Some(h) => h,
                None => return Err("model header has no in-memory counterpart".into()),
            };
            // the public enums let a caller write the same algorithm number as `PrivateUse(n)` although n is
            // registered (or neither registered nor private): it is the same header map {1: n}
            if g.ratio(1, 10) {
                fn respell(h: &mut Header) -> bool {
                    use coset::iana::EnumI64;
                    let mut done = false;
                    if let Some(coset::Algorithm::Assigned(a)) = &h.alg {
                        h.alg = Some(coset::Algorithm::PrivateUse(a.to_i64()));
                        done = true;
                    }
                    for cs in h.counter_signatures.iter_mut() {
                        if cs.protected.original_data.is_none() {
                            done |= respell(&mut cs.protected.header);
                        }
                        done |= respell(&mut cs.unprotected);
                    }
                    done
                }
                if respell(&mut h) {
                    ctx.class("protected:built-with-registered-number-spelled-private-use");
                }
            }
            let value = ProtectedHeader { original_data: None, header: h.clone() };
            if m.is_empty() {
                ctx.class("protected:built-empty");
                return Ok(Prot { value, p: vec![], built: Some(h), flavour: "built-empty" });
            }
            // the bytes the message's own encoding puts in the slot …
            let msg = CoseSign1 { protected: value.clone(), ..Default::default() };
            let out = msg.to_vec().map_err(|e| format!("message with a built protected header failed to encode: {:?}", e))?;
            let read = read_strict(&out).map_err(|e| format!("own encoding not strict: {:?}", e))?;
            let slot = read.as_array().and_then(|a| a.first().cloned()).ok_or("no protected slot")?;
            // … which must be a bstr wrapping an encoding of exactly this header's map
            check_protected_shape(&slot, &MProtected { wire: None, header: m }).map_err(|e| format!("built protected header: {}", e))?;
            let p = slot.as_bytes().cloned().ok_or("protected slot not bstr")?;
            if p.is_empty() {
                return Err("non-empty built protected header emitted as a zero-length byte string".into());
            }
            ctx.class("protected:built-non-empty");
            Ok(Prot { value, p, built: Some(h), flavour: "built" })
        }
    }
}

/// Whether calling `f` panics (documented refusals).
pub fn panics<T>(f: impl FnOnce() -> T) -> bool {
    crate::run::catch(f).is_err()
}


/// A built header that has no encoding (its map would carry a label twice, at the top level or
/// inside a counter-signature's own headers, at nesting 1 or 2), together with the encodable
/// sibling obtained by removing the offending part.
pub fn gen_unencodable_header(g: &mut Gen, ctx: &mut Ctx) -> (Header, Header) {
    use coset::cbor::value::Value;
    use coset::{CoseSignature, Label};
    let dup_rest = |g: &mut Gen| -> Vec<(Label, Value)> {
        let l = if g.bool() { Label::Int(100 + g.range_i64(0, 900)) } else { Label::Text(g.text()) };
        vec![(l.clone(), Value::from(1)), (l, Value::from(2))]
    };
    let mut sibling = Header::default();
    if g.bool() {
        sibling.key_id = g.nonempty_bytes();
    }
    let mut bad = sibling.clone();
    let good_sig = CoseSignature { protected: ProtectedHeader::default(), unprotected: Header::default(), signature: vec![1] };
    match g.below(5) {
        0 => {
            ctx.class("unencodable:duplicate-extra");
            bad.rest = dup_rest(g);
        }
        1 => {
            ctx.class("unencodable:extra-names-populated-typed-label");
            bad.alg = Some(coset::Algorithm::Assigned(coset::iana::Algorithm::ES256));
            sibling.alg = bad.alg.clone();
            bad.rest = vec![(Label::Int(1), Value::from(-7))];
        }
        2 => {
            ctx.class("unencodable:countersig-unprotected-duplicate");
            let mut cs = good_sig.clone();
            cs.unprotected.rest = dup_rest(g);
            if g.bool() {
                sibling.counter_signatures = vec![good_sig.clone()];
                bad.counter_signatures = if g.bool() { vec![good_sig.clone(), cs] } else { vec![cs, good_sig.clone()] };
            } else {
                bad.counter_signatures = vec![cs];
            }
        }
        3 => {
            ctx.class("unencodable:countersig-protected-duplicate");
            let mut cs = good_sig.clone();
            cs.protected = ProtectedHeader { original_data: None, header: Header { rest: dup_rest(g), ..Default::default() } };
            sibling.counter_signatures = vec![good_sig.clone()];
            bad.counter_signatures = vec![good_sig.clone(), cs];
        }
        _ => {
            ctx.class("unencodable:countersig-of-countersig-duplicate");
            let mut inner = good_sig.clone();
            inner.unprotected.rest = dup_rest(g);
            let mut outer = good_sig.clone();
            outer.unprotected.counter_signatures = vec![inner];
            sibling.counter_signatures = vec![good_sig.clone()];
            bad.counter_signatures = vec![good_sig.clone(), outer];
        }
    }
    (bad, sibling)
}


/// An unprotected header for hand-assembled carriers: empty half of the time; otherwise an
/// algorithm (the whole IANA table, the common signature / MAC / key-wrap / direct ones
/// over-represented, private-use, text), key id, IV or Partial IV.  None of it takes part in the
/// to-be-signed / MACed / additional-data structures.
pub fn gen_unprotected(g: &mut Gen) -> Header {
    use coset::{iana, Algorithm};
    let mut h = Header::default();
    if g.bool() {
        return h;
    }
    if g.ratio(3, 4) {
        h.alg = Some(match g.weighted(&[3, 4, 1, 1]) {
            0 => {
                let t = crate::registry::ALGORITHM;
                match <iana::Algorithm as iana::EnumI64>::from_i64(t[g.below(t.len())].1) {
                    Some(a) => Algorithm::Assigned(a),
                    None => Algorithm::PrivateUse(-70000),
                }
            }
            1 => Algorithm::Assigned(*g.pick(&[
                iana::Algorithm::Direct, iana::Algorithm::A128KW, iana::Algorithm::A192KW, iana::Algorithm::A256KW, iana::Algorithm::ES256,
                iana::Algorithm::EdDSA, iana::Algorithm::HMAC_256_64, iana::Algorithm::HMAC_256_256, iana::Algorithm::A128GCM, iana::Algorithm::Direct_HKDF_SHA_256,
                iana::Algorithm::ECDH_ES_A128KW, iana::Algorithm::Reserved,
            ])),
            2 => Algorithm::PrivateUse(-65537 - g.range_i64(0, 1000)),
            _ => Algorithm::Text(g.text()),
        });
    }
    if g.bool() {
        h.key_id = g.nonempty_bytes();
    }
    match g.below(4) {
        0 => h.iv = g.nonempty_bytes(),
        1 => h.partial_iv = g.nonempty_bytes(),
        _ => {}
    }
    h
}

/// An unprotected header to go beside the built protected header `p` in a builder: unrelated, or
/// *related* to it — the complementary IV kind (IV beside Partial IV and the reverse), the same
/// algorithm / key id / content type / extras again, or a plain copy.  The two buckets are separate
/// maps: whatever the unprotected bucket holds, and whenever it is set, the protected header and
/// the structures built from it stay what they were.
pub fn gen_unprotected_for(g: &mut Gen, p: &Header) -> Header {
    let mut h = gen_unprotected(g);
    match g.below(5) {
        0 => {}
        1 => {
            h.iv = vec![];
            h.partial_iv = vec![];
            if !p.partial_iv.is_empty() {
                h.iv = g.nonempty_bytes();
            } else if !p.iv.is_empty() {
                h.partial_iv = g.nonempty_bytes();
            } else if g.bool() {
                h.iv = g.nonempty_bytes();
            } else {
                h.partial_iv = g.nonempty_bytes();
            }
        }
        2 => {
            h.alg = p.alg.clone();
            h.key_id = p.key_id.clone();
            h.content_type = p.content_type.clone();
            h.rest = p.rest.clone();
        }
        3 => {
            h.iv = p.iv.clone();
            h.partial_iv = p.partial_iv.clone();
            h.crit = p.crit.clone();
            h.counter_signatures = p.counter_signatures.clone();
        }
        _ => h = p.clone(),
    }
    h
}

/// How a builder gets its two headers: protected only; unprotected first; protected first.
#[macro_export]
macro_rules! builder_with_headers {
    ($b:ty, $g:expr, $h:expr) => {{
        let u = $crate::props::structs::gen_unprotected_for($g, $h);
        match $g.below(3) {
            0 => <$b>::new().protected($h.clone()),
            1 => <$b>::new().unprotected(u).protected($h.clone()),
            _ => <$b>::new().protected($h.clone()).unprotected(u),
        }
    }};
}

/// A message that came out of a builder holds a protected header built in memory: when its public
/// fields are edited afterwards, the structures follow the edit (nothing was received, so there are
/// no bytes to prefer).  Edits the header in place and returns the bytes it now contributes.
pub fn edit_built_protected(g: &mut Gen, p: &mut coset::ProtectedHeader) -> Result<Vec<u8>, String> {
    // (an edit that keeps the header encodable: no typed field is populated whose label the extras hold)
    let typed_in_rest = p.header.rest.iter().any(|(l, _)| matches!(l, coset::Label::Int(i) if (1..=7).contains(i)));
    match if typed_in_rest { 1 } else { g.below(3) } {
        0 => p.header.key_id = [p.header.key_id.clone(), g.nonempty_bytes()].concat(),
        1 => p.header.rest.push((coset::Label::Int(77_000 + g.range_i64(0, 99)), coset::cbor::value::Value::from(g.range_i64(-9, 9)))),
        _ => p.header.alg = Some(coset::Algorithm::Assigned(if p.header.alg == Some(coset::Algorithm::Assigned(coset::iana::Algorithm::ES256)) { coset::iana::Algorithm::ES384 } else { coset::iana::Algorithm::ES256 })),
    }
    use coset::CborSerializable;
    p.header.clone().to_vec().map_err(|e| format!("edited built header does not encode: {:?}", e))
}

//! Shared pieces for C02–C06: protected-header flavours, reference structure encoders
//! (RFC 8152 §4.4, §5.3, §6.3), byte strings on length-class boundaries.

use crate::cbor::{encode, read_strict, Item, StyleOpts, Wrapped};
use crate::gen::{gen_header, Faults};
use crate::model::*;
use crate::props::c11::check_protected_shape;
use crate::props::common::*;
use crate::run::Ctx;
use crate::tape::Gen;
use coset::{CborSerializable, CoseSign1, Header, ProtectedHeader};

/// The context strings, written here from the RFC.
pub const SIG_CONTEXTS: [&str; 3] = ["Signature", "Signature1", "CounterSignature"];
pub const MAC_CONTEXTS: [&str; 2] = ["MAC", "MAC0"];
pub const ENC_CONTEXTS: [&str; 5] = ["Encrypt", "Encrypt0", "Enc_Recipient", "Mac_Recipient", "Rec_Recipient"];

/// Deterministic encoding of [context, body_protected, (sign_protected,) external_aad, payload].
pub fn ref_sig_structure(context: &str, body: &[u8], sign: Option<&[u8]>, aad: &[u8], payload: &[u8]) -> Vec<u8> {
    let mut a = vec![Item::text(context), Item::bytes(body)];
    if let Some(s) = sign {
        a.push(Item::bytes(s));
    }
    a.push(Item::bytes(aad));
    a.push(Item::bytes(payload));
    encode(&Item::Array(a))
}

/// Deterministic encoding of [context, protected, external_aad, payload].
pub fn ref_mac_structure(context: &str, protected: &[u8], aad: &[u8], payload: &[u8]) -> Vec<u8> {
    encode(&Item::Array(vec![Item::text(context), Item::bytes(protected), Item::bytes(aad), Item::bytes(payload)]))
}

/// Deterministic encoding of [context, protected, external_aad].
pub fn ref_enc_structure(context: &str, protected: &[u8], aad: &[u8]) -> Vec<u8> {
    encode(&Item::Array(vec![Item::text(context), Item::bytes(protected), Item::bytes(aad)]))
}

/// A byte string whose length is drawn from the CBOR length-class lattice.
pub fn gen_class_bytes(g: &mut Gen) -> Vec<u8> {
    let n = match g.weighted(&[8, 6, 3, 3, 1, 1]) {
        0 => g.below(5),
        1 => g.below(40),
        2 => *g.pick(&[22usize, 23, 24, 25]),
        3 => *g.pick(&[254usize, 255, 256, 257]),
        4 => *g.pick(&[65534usize, 65535, 65536, 65537]),
        _ => 70_000,
    };
    if n <= 300 {
        g.bytes(n)
    } else {
        // long strings: a short random seed repeated (cheap, still position-sensitive)
        let seed = g.bytes(7);
        (0..n).map(|i| seed[i % 7] ^ (i / 7) as u8).collect()
    }
}

pub fn len_class(n: usize) -> &'static str {
    match n {
        0 => "0",
        1..=23 => "<24",
        24..=255 => "<256",
        256..=65535 => "<65536",
        _ => ">=65536",
    }
}

/// A protected header as an in-memory value together with the bytes that must appear in the
/// protected slot of every structure built from it.
#[derive(Clone)]
pub struct Prot {
    pub value: ProtectedHeader,
    /// expected protected-slot bytes
    pub p: Vec<u8>,
    /// the header, when built in memory (usable with the builders' `protected(Header)`)
    pub built: Option<Header>,
    pub flavour: &'static str,
}

/// Draw a protected header: decoded from wire (styled bytes), built empty, or built non-empty.
pub fn gen_prot(g: &mut Gen, ctx: &mut Ctx) -> Result<Prot, String> {
    match g.weighted(&[4, 2, 4]) {
        0 => {
            // decoded from wire: empty bstr, wrapped empty map, or wrapped header in any style
            let slot = match g.weighted(&[2, 1, 6]) {
                0 => Item::Bytes(vec![]),
                1 => Wrapped::new(Item::Map(vec![])),
                _ => Wrapped::new(gen_header(g, &mut Faults::none(), 1)),
            };
            let top = carrier(Kind::Sign1, slot, Item::Map(vec![]));
            let (bytes, enc) = styled(&top, g, StyleOpts::ALL);
            let w = match &enc.as_array().unwrap()[0] {
                Item::Wrapped(w) => w.content(),
                _ => vec![],
            };
            let v = CoseSign1::from_slice(&bytes).map_err(|e| format!("generated valid COSE_Sign1 rejected: {:?} ({})", e, crate::cbor::hex_trunc(&bytes, 200)))?;
            if v.protected.original_data.as_deref() != Some(&w[..]) {
                return Err(format!("decoded protected header does not retain the wire bytes {}", crate::cbor::hex_trunc(&w, 80)));
            }
            ctx.class("protected:from-wire");
            Ok(Prot { value: v.protected, p: w, built: None, flavour: "wire" })
        }
        1 => {
            ctx.class("protected:built-empty");
            Ok(Prot { value: ProtectedHeader { original_data: None, header: Header::default() }, p: vec![], built: Some(Header::default()), flavour: "built-empty" })
        }
        _ => {
            let item = gen_header(g, &mut Faults::none(), 1);
            let mut m = m_header(&item, &mut MCtx::default()).map_err(|e| format!("valid generator produced a rejected header: {:?}", e))?;
            strip_wire_header(&mut m);
            let h = match model_to_header(&m) {
                Some(h) => h,
                None => return Err("model header has no in-memory counterpart".into()),
            };
            let value = ProtectedHeader { original_data: None, header: h.clone() };
            if m.is_empty() {
                ctx.class("protected:built-empty");
                return Ok(Prot { value, p: vec![], built: Some(h), flavour: "built-empty" });
            }
            // the bytes the message's own encoding puts in the slot …
            let msg = CoseSign1 { protected: value.clone(), ..Default::default() };
            let out = msg.to_vec().map_err(|e| format!("message with a built protected header failed to encode: {:?}", e))?;
            let read = read_strict(&out).map_err(|e| format!("own encoding not strict: {:?}", e))?;
            let slot = read.as_array().and_then(|a| a.first().cloned()).ok_or("no protected slot")?;
            // … which must be a bstr wrapping an encoding of exactly this header's map
            check_protected_shape(&slot, &MProtected { wire: None, header: m }).map_err(|e| format!("built protected header: {}", e))?;
            let p = slot.as_bytes().cloned().ok_or("protected slot not bstr")?;
            if p.is_empty() {
                return Err("non-empty built protected header emitted as a zero-length byte string".into());
            }
            ctx.class("protected:built-non-empty");
            Ok(Prot { value, p, built: Some(h), flavour: "built" })
        }
    }
}

/// Whether calling `f` panics (documented refusals).
pub fn panics<T>(f: impl FnOnce() -> T) -> bool {
    crate::run::catch(f).is_err()
}

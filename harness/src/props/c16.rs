//! C16 — label ordering is a total order equal to CBOR's deterministic key ordering.

use crate::cbor::{cmp_len_first, cmp_lex};
use crate::props::segment;
use crate::registry::{self, Table};
use crate::model::L;
use crate::run::{hash_str, CaseResult, Ctx, Property, Tier};
use crate::tape::Gen;
use coset::iana::{self, EnumI64, WithPrivateRange};
use coset::{CborSerializable, Label, RegisteredLabel, RegisteredLabelWithPrivate};
use std::cmp::Ordering;
use std::collections::BTreeSet;
use std::sync::OnceLock;

fn int_lattice() -> Vec<i64> {
    let mut v: Vec<i64> = vec![
        0, 1, 23, 24, 25, 255, 256, 257, 65535, 65536, 65537,
        (1 << 32) - 1, 1 << 32, (1 << 32) + 1, i64::MAX - 1, i64::MAX,
        -1, -2, -24, -25, -26, -256, -257, -258, -65536, -65537, -65538,
        -(1 << 32), -(1 << 32) - 1, -(1 << 32) - 2, i64::MIN + 1, i64::MIN,
    ];
    v.dedup();
    v
}

fn text_lattice() -> Vec<String> {
    let mut v = vec![];
    for n in [0usize, 1, 2, 23, 24, 25, 255, 256, 257, 65535, 65536] {
        v.push("a".repeat(n));
        if n >= 1 {
            // differs in the last byte
            v.push(format!("{}b", "a".repeat(n - 1)));
        }
        if n >= 2 {
            // differs in the first byte
            v.push(format!("b{}", "a".repeat(n - 1)));
        }
    }
    // multi-byte characters: byte length != char count; shared prefixes
    for s in ["é", "€", "😀", "aé", "éa", "é€", "zz", "Z", "ab", "aaé"] {
        v.push(s.to_string());
    }
    // 24 bytes made of 12 two-byte chars, 23 bytes of mixed
    v.push("é".repeat(12));
    v.push(format!("{}a", "é".repeat(11)));
    v
}

pub fn lattice() -> &'static Vec<L> {
    static LAT: OnceLock<Vec<L>> = OnceLock::new();
    LAT.get_or_init(|| {
        let mut v: Vec<L> = int_lattice().into_iter().map(L::Int).collect();
        v.extend(text_lattice().into_iter().map(L::Text));
        v
    })
}

fn rev(o: Ordering) -> Ordering {
    o.reverse()
}

/// The comparison operators and the provided methods of `Ord` / `PartialOrd` / `PartialEq` agree
/// with the order `want` (they can be overridden separately from `cmp`).
fn check_operators<T: Ord + Clone + std::fmt::Debug>(what: &str, x: &T, y: &T, want: Ordering) -> CaseResult {
    ensure!((x < y) == (want == Ordering::Less), "{}: `<` disagrees with the order {:?} on ({:?}, {:?})", what, want, x, y);
    ensure!((x <= y) == (want != Ordering::Greater), "{}: `<=` disagrees with the order {:?} on ({:?}, {:?})", what, want, x, y);
    ensure!((x > y) == (want == Ordering::Greater), "{}: `>` disagrees with the order {:?} on ({:?}, {:?})", what, want, x, y);
    ensure!((x >= y) == (want != Ordering::Less), "{}: `>=` disagrees with the order {:?} on ({:?}, {:?})", what, want, x, y);
    ensure!((x != y) == (want != Ordering::Equal), "{}: `!=` disagrees with the order {:?} on ({:?}, {:?})", what, want, x, y);
    let (mx, mn) = (x.clone().max(y.clone()), x.clone().min(y.clone()));
    ensure!(mx.cmp(&mn) != Ordering::Less && (want == Ordering::Equal || mx.cmp(&mn) == Ordering::Greater), "{}: max/min disagree with the order on ({:?}, {:?})", what, x, y);
    ensure!(std::cmp::Reverse(x.clone()).cmp(&std::cmp::Reverse(y.clone())) == want.reverse(), "{}: Reverse order disagrees on ({:?}, {:?})", what, x, y);
    Ok(())
}

/// All laws on a pair of plain labels.
fn check_pair(a: &L, b: &L) -> CaseResult {
    let (la, lb) = (a.to_label(), b.to_label());
    let (ea, eb) = (a.enc(), b.enc());
    let want = cmp_lex(&ea, &eb);
    let got = la.cmp(&lb);
    ensure!(got == want, "Label::cmp({}, {}) = {:?}, bytewise order of deterministic encodings = {:?}", a.short(), b.short(), got, want);
    ensure!(la.partial_cmp(&lb) == Some(got), "partial_cmp != Some(cmp) for ({}, {})", a.short(), b.short());
    ensure!(lb.cmp(&la) == rev(got), "cmp not antisymmetric for ({}, {})", a.short(), b.short());
    check_operators("Label", &la, &lb, want)?;
    let same = a == b;
    ensure!((la == lb) == same, "== disagrees with label identity for ({}, {})", a.short(), b.short());
    ensure!((got == Ordering::Equal) == same, "cmp == Equal disagrees with label identity for ({}, {})", a.short(), b.short());
    let wantc = cmp_len_first(&ea, &eb);
    let gotc = la.cmp_canonical(&lb);
    ensure!(gotc == wantc, "cmp_canonical({}, {}) = {:?}, length-first order of encodings = {:?}", a.short(), b.short(), gotc, wantc);
    ensure!(lb.cmp_canonical(&la) == rev(gotc), "cmp_canonical not antisymmetric for ({}, {})", a.short(), b.short());
    // the crate's own encoding of a label is the deterministic one
    let va = la.clone().to_vec().map_err(|e| format!("label {} failed to encode: {:?}", a.short(), e))?;
    ensure!(va == ea, "Label {} encodes to {} not the deterministic encoding", a.short(), crate::cbor::hex_trunc(&va, 16));
    Ok(())
}

fn check_triple(a: &L, b: &L, c: &L, canonical_too: bool) -> CaseResult {
    let (la, lb, lc) = (a.to_label(), b.to_label(), c.to_label());
    let ab = la.cmp(&lb);
    let bc = lb.cmp(&lc);
    let ac = la.cmp(&lc);
    if ab != Ordering::Greater && bc != Ordering::Greater {
        let want = if ab == Ordering::Equal && bc == Ordering::Equal { Ordering::Equal } else { Ordering::Less };
        ensure!(ac == want, "cmp not transitive on ({}, {}, {}): {:?} {:?} but {:?}", a.short(), b.short(), c.short(), ab, bc, ac);
    }
    if canonical_too {
        let ab = la.cmp_canonical(&lb);
        let bc = lb.cmp_canonical(&lc);
        let ac = la.cmp_canonical(&lc);
        if ab != Ordering::Greater && bc != Ordering::Greater {
            let want = if ab == Ordering::Equal && bc == Ordering::Equal { Ordering::Equal } else { Ordering::Less };
            ensure!(ac == want, "cmp_canonical not transitive on ({}, {}, {})", a.short(), b.short(), c.short());
        }
    }
    Ok(())
}

/// Sorting a multiset: sort() and sort_by(cmp_canonical) agree with sorting by encodings; a BTreeSet
/// has as many elements as there are distinct labels.
fn check_sort(ls: &[L]) -> CaseResult {
    let mut labels: Vec<Label> = ls.iter().map(|l| l.to_label()).collect();
    let mut encs: Vec<Vec<u8>> = ls.iter().map(|l| l.enc()).collect();
    labels.sort();
    encs.sort_by(|a, b| cmp_lex(a, b));
    for (l, e) in labels.iter().zip(encs.iter()) {
        let got = l.clone().to_vec().map_err(|e| format!("{:?}", e))?;
        ensure!(&got == e, "sort() order differs from bytewise order of encodings on a multiset of {} labels", ls.len());
    }
    let mut labels: Vec<Label> = ls.iter().map(|l| l.to_label()).collect();
    labels.sort_by(|a, b| a.cmp_canonical(b));
    encs.sort_by(|a, b| cmp_len_first(a, b));
    for (l, e) in labels.iter().zip(encs.iter()) {
        let got = l.clone().to_vec().map_err(|e| format!("{:?}", e))?;
        ensure!(&got == e, "sort_by(cmp_canonical) order differs from length-first order on a multiset of {} labels", ls.len());
    }
    let set: BTreeSet<Label> = ls.iter().map(|l| l.to_label()).collect();
    let distinct: BTreeSet<Vec<u8>> = ls.iter().map(|l| l.enc()).collect();
    ensure!(set.len() == distinct.len(), "BTreeSet<Label> holds {} elements for {} distinct labels", set.len(), distinct.len());
    // the crate's own use of the two orders for sorting map keys: the distinct labels as the extra
    // parameters of a key, canonicalised under either ordering
    let mut uniq: Vec<Label> = vec![];
    for l in ls {
        let l = l.to_label();
        if !uniq.contains(&l) && !matches!(l, Label::Int(0..=5)) {
            uniq.push(l);
        }
    }
    for (o, name) in [(coset::CborOrdering::Lexicographic, "bytewise"), (coset::CborOrdering::LengthFirstLexicographic, "length-first")] {
        let mut k = coset::CoseKey { kty: coset::KeyType::Assigned(iana::KeyType::Symmetric), params: uniq.iter().map(|l| (l.clone(), coset::cbor::value::Value::Null)).collect(), ..Default::default() };
        k.canonicalize(o);
        let mut want: Vec<Vec<u8>> = uniq.iter().map(|l| l.clone().to_vec().unwrap_or_default()).collect();
        want.sort_by(|a, b| if name == "bytewise" { cmp_lex(a, b) } else { cmp_len_first(a, b) });
        let got: Vec<Vec<u8>> = k.params.iter().map(|(l, _)| l.clone().to_vec().unwrap_or_default()).collect();
        ensure!(got == want, "CoseKey::canonicalize ({}) leaves {} extra parameters in an order other than the {} order of their encoded labels", name, uniq.len(), name);
    }
    Ok(())
}

// ---- registry variants -----------------------------------------------------------------------

fn reg_pair<T: EnumI64 + std::fmt::Debug + Clone>(a: &L, b: &L) -> Result<bool, String> {
    // labels as produced by decoding
    let (ea, eb) = (a.enc(), b.enc());
    let (ra, rb) = match (RegisteredLabel::<T>::from_slice(&ea), RegisteredLabel::<T>::from_slice(&eb)) {
        (Ok(x), Ok(y)) => (x, y),
        _ => return Ok(false), // not both in this registry's domain
    };
    let want = cmp_lex(&ea, &eb);
    let got = ra.cmp(&rb);
    ensure!(got == want, "RegisteredLabel::cmp({}, {}) = {:?}, encodings order = {:?}", a.short(), b.short(), got, want);
    ensure!(ra.partial_cmp(&rb) == Some(got), "RegisteredLabel partial_cmp != Some(cmp) ({}, {})", a.short(), b.short());
    ensure!(rb.cmp(&ra) == got.reverse(), "RegisteredLabel cmp not antisymmetric ({}, {})", a.short(), b.short());
    check_operators("RegisteredLabel", &ra, &rb, want)?;
    ensure!((ra == rb) == (a == b), "RegisteredLabel == disagrees with identity ({}, {})", a.short(), b.short());
    ensure!((got == Ordering::Equal) == (a == b), "RegisteredLabel Equal disagrees with identity ({}, {})", a.short(), b.short());
    Ok(true)
}

fn regp_pair<T: EnumI64 + WithPrivateRange + std::fmt::Debug + Clone>(a: &L, b: &L) -> Result<bool, String> {
    let (ea, eb) = (a.enc(), b.enc());
    let (ra, rb) = match (
        RegisteredLabelWithPrivate::<T>::from_slice(&ea),
        RegisteredLabelWithPrivate::<T>::from_slice(&eb),
    ) {
        (Ok(x), Ok(y)) => (x, y),
        _ => return Ok(false),
    };
    let want = cmp_lex(&ea, &eb);
    let got = ra.cmp(&rb);
    ensure!(got == want, "RegisteredLabelWithPrivate::cmp({}, {}) = {:?}, encodings order = {:?}", a.short(), b.short(), got, want);
    ensure!(ra.partial_cmp(&rb) == Some(got), "RegisteredLabelWithPrivate partial_cmp != Some(cmp) ({}, {})", a.short(), b.short());
    ensure!(rb.cmp(&ra) == got.reverse(), "RegisteredLabelWithPrivate cmp not antisymmetric ({}, {})", a.short(), b.short());
    check_operators("RegisteredLabelWithPrivate", &ra, &rb, want)?;
    ensure!((ra == rb) == (a == b), "RegisteredLabelWithPrivate == disagrees with identity ({}, {})", a.short(), b.short());
    ensure!((got == Ordering::Equal) == (a == b), "RegisteredLabelWithPrivate Equal disagrees with identity ({}, {})", a.short(), b.short());
    Ok(true)
}

struct RegDom {
    name: &'static str,
    labels: Vec<L>,
    pair: fn(&L, &L) -> Result<bool, String>,
}

fn reg_labels(t: Table, private: bool) -> Vec<L> {
    let mut v: Vec<L> = t.iter().map(|(_, i)| L::Int(*i)).collect();
    if private {
        for i in [-65537i64, -65538, -65793, -(1 << 32) - 1, i64::MIN + 1, i64::MIN] {
            v.push(L::Int(i));
        }
    }
    for s in ["", "a", "b", "aa", "ab", "é", "aaaaaaaaaaaaaaaaaaaaaaa", "aaaaaaaaaaaaaaaaaaaaaaaa"] {
        v.push(L::Text(s.to_string()));
    }
    v
}

#[cfg(feature = "own_impls")]
mod own {
    use super::*;
    /// Registries of the harness' own, built on the crate's public `EnumI64` / `WithPrivateRange`
    /// traits like an application's would be: assigned values of both signs around the encoding-length
    /// boundaries, and a private-use range that does *not* lie below every assigned value.
    #[derive(Debug, Clone, Copy, PartialEq, Eq)]
    pub enum MidPrivate {
        Zero,
        One,
        Neg5,
        Small,
        Thousand,
        Big,
        NegBig,
    }
    pub const MID_TABLE: Table = &[("Zero", 0), ("One", 1), ("Neg5", -5), ("Small", 23), ("Thousand", 1000), ("Big", 70000), ("NegBig", -70000)];
    impl EnumI64 for MidPrivate {
        fn from_i64(i: i64) -> Option<Self> {
            Some(match i {
                0 => MidPrivate::Zero,
                1 => MidPrivate::One,
                -5 => MidPrivate::Neg5,
                23 => MidPrivate::Small,
                1000 => MidPrivate::Thousand,
                70000 => MidPrivate::Big,
                -70000 => MidPrivate::NegBig,
                _ => return None,
            })
        }
        fn to_i64(&self) -> i64 {
            match self {
                MidPrivate::Zero => 0,
                MidPrivate::One => 1,
                MidPrivate::Neg5 => -5,
                MidPrivate::Small => 23,
                MidPrivate::Thousand => 1000,
                MidPrivate::Big => 70000,
                MidPrivate::NegBig => -70000,
            }
        }
    }
    impl WithPrivateRange for MidPrivate {
        /// private use: 24..=300, -300..=-24 and everything above 2^32
        fn is_private(i: i64) -> bool {
            (24..=300).contains(&i) || (-300..=-24).contains(&i) || i > (1 << 32)
        }
    }
    pub const MID_PRIVATE: &[i64] = &[24, 25, 255, 256, 300, -24, -25, -256, -257, -300, (1 << 32) + 1, i64::MAX];
}
#[cfg(feature = "own_impls")]
use own::*;

fn reg_domains() -> &'static Vec<RegDom> {
    static D: OnceLock<Vec<RegDom>> = OnceLock::new();
    D.get_or_init(|| {
        macro_rules! plain {
            ($t:ty, $tab:ident) => {
                RegDom { name: stringify!($t), labels: reg_labels(registry::$tab, false), pair: reg_pair::<$t> }
            };
        }
        macro_rules! privy {
            ($t:ty, $tab:ident) => {
                RegDom { name: concat!(stringify!($t), "+private"), labels: reg_labels(registry::$tab, true), pair: regp_pair::<$t> }
            };
        }
        #[allow(unused_mut)]
        let mut v = vec![
            plain!(iana::HeaderParameter, HEADER_PARAMETER),
            plain!(iana::HeaderAlgorithmParameter, HEADER_ALGORITHM_PARAMETER),
            plain!(iana::Algorithm, ALGORITHM),
            plain!(iana::KeyParameter, KEY_PARAMETER),
            plain!(iana::OkpKeyParameter, OKP_KEY_PARAMETER),
            plain!(iana::Ec2KeyParameter, EC2_KEY_PARAMETER),
            plain!(iana::RsaKeyParameter, RSA_KEY_PARAMETER),
            plain!(iana::SymmetricKeyParameter, SYMMETRIC_KEY_PARAMETER),
            plain!(iana::HssLmsKeyParameter, HSS_LMS_KEY_PARAMETER),
            plain!(iana::WalnutDsaKeyParameter, WALNUT_DSA_KEY_PARAMETER),
            plain!(iana::KeyType, KEY_TYPE),
            plain!(iana::EllipticCurve, ELLIPTIC_CURVE),
            plain!(iana::KeyOperation, KEY_OPERATION),
            plain!(iana::CborTag, CBOR_TAG),
            plain!(iana::CoapContentFormat, COAP_CONTENT_FORMAT),
            plain!(iana::CwtClaimName, CWT_CLAIM_NAME),
            privy!(iana::HeaderParameter, HEADER_PARAMETER),
            privy!(iana::Algorithm, ALGORITHM),
            privy!(iana::EllipticCurve, ELLIPTIC_CURVE),
            privy!(iana::CwtClaimName, CWT_CLAIM_NAME),
        ];
        #[cfg(feature = "own_impls")]
        {
            v.push(RegDom { name: "harness::MidPrivate", labels: reg_labels(MID_TABLE, false), pair: reg_pair::<MidPrivate> });
            v.push(RegDom {
                name: "harness::MidPrivate+private",
                labels: {
                    let mut v = reg_labels(MID_TABLE, false);
                    v.extend(MID_PRIVATE.iter().map(|i| L::Int(*i)));
                    v
                },
                pair: regp_pair::<MidPrivate>,
            });
        }
        v
    })
}

// ---- non-triviality --------------------------------------------------------------------------

fn pair_nontrivial(a: &L, b: &L) -> bool {
    match (a, b) {
        (L::Int(x), L::Int(y)) => (x.signum() != y.signum()) || a.enc().len() != b.enc().len(),
        (L::Text(x), L::Text(y)) => x.len() == y.len() || a.enc().len() - x.len() != b.enc().len() - y.len(),
        _ => true,
    }
}

// ---- exhaustive ------------------------------------------------------------------------------

fn exh_sizes(tier: Tier) -> Vec<u64> {
    let n = lattice().len() as u64;
    let _ = tier;
    let mut v = vec![n * n, n * n * n];
    for d in reg_domains() {
        let m = d.labels.len() as u64;
        v.push(m * m);
    }
    v
}

fn exh_count(tier: Tier) -> u64 {
    exh_sizes(tier).iter().sum()
}

fn exh_case(idx: u64, ctx: &mut Ctx) -> CaseResult {
    let sizes = exh_sizes(Tier::Quick);
    let (seg, i) = segment(idx, &sizes).ok_or("index out of range")?;
    let lat = lattice();
    let n = lat.len() as u64;
    match seg {
        0 => {
            let (a, b) = (&lat[(i / n) as usize], &lat[(i % n) as usize]);
            ctx.class("exh:label-pair");
            if pair_nontrivial(a, b) {
                ctx.nontrivial(hash_str(&format!("p|{}|{}", i / n, i % n)));
                ctx.sample_with(|| format!("pair ({}, {})", a.short(), b.short()));
            }
            check_pair(a, b)
        }
        1 => {
            let (a, b, c) = (&lat[(i / (n * n)) as usize], &lat[((i / n) % n) as usize], &lat[(i % n) as usize]);
            ctx.class("exh:label-triple");
            if pair_nontrivial(a, b) && pair_nontrivial(b, c) {
                ctx.nontrivial(hash_str(&format!("t|{}", i)));
                ctx.sample_with(|| format!("triple ({}, {}, {})", a.short(), b.short(), c.short()));
            }
            // cmp_canonical encodes both labels on every call: restrict its transitivity check to
            // triples without the 64 KiB texts to keep the enumeration cheap
            let small = [a, b, c].iter().all(|l| l.enc().len() < 4096);
            check_triple(a, b, c, small)
        }
        s => {
            let d = &reg_domains()[s - 2];
            let m = d.labels.len() as u64;
            let (a, b) = (&d.labels[(i / m) as usize], &d.labels[(i % m) as usize]);
            ctx.classf(format!("exh:registry-pair:{}", d.name));
            let in_domain = (d.pair)(a, b)?;
            if in_domain && pair_nontrivial(a, b) {
                ctx.nontrivial(hash_str(&format!("r|{}|{}", d.name, i)));
                ctx.sample_with(|| format!("{} pair ({}, {})", d.name, a.short(), b.short()));
            }
            Ok(())
        }
    }
}

// ---- generated -------------------------------------------------------------------------------

fn gen_label(g: &mut Gen) -> L {
    match g.weighted(&[3, 3, 2, 2, 2]) {
        0 => lattice()[g.below(lattice().len())].clone(),
        1 => L::Int(g.i64()),
        2 => {
            // near an encoding boundary
            let c = *g.pick(&[0i64, 23, 24, 255, 256, 65535, 65536, 1 << 32, -24, -25, -256, -257, -65536, -65537, -(1 << 32) - 1]);
            L::Int(c.saturating_add(g.range_i64(-3, 3)))
        }
        3 => L::Text(g.text()),
        _ => {
            // texts of boundary lengths with random content
            let n = *g.pick(&[0usize, 1, 22, 23, 24, 25, 254, 255, 256, 257]);
            let mut s = String::new();
            while s.len() < n {
                let c = *g.pick(&['a', 'b', 'z', 'é', '€', '😀', '0', 'A']);
                if s.len() + c.len_utf8() <= n {
                    s.push(c);
                } else {
                    s.push('x');
                }
            }
            L::Text(s)
        }
    }
}

/// Two labels: independent, or (1 in 5) two related texts (late difference, long common prefix,
/// equal byte length with different code-point classes, composed / decomposed, hash-colliding).
fn gen_label_pair(g: &mut Gen) -> (L, L) {
    if g.ratio(1, 5) {
        let (a, b) = g.text_pair();
        return if g.bool() { (L::Text(a), L::Text(b)) } else { (L::Text(b), L::Text(a)) };
    }
    (gen_label(g), gen_label(g))
}

fn case(g: &mut Gen, ctx: &mut Ctx) -> CaseResult {
    match g.weighted(&[4, 3, 2, 2]) {
        0 => {
            let (a, b) = gen_label_pair(g);
            let b = if g.ratio(1, 6) { a.clone() } else { b };
            ctx.class("gen:pair");
            if pair_nontrivial(&a, &b) {
                ctx.nontrivial(hash_str(&format!("{:?}|{:?}", a, b)));
                ctx.sample_with(|| format!("pair ({}, {})", a.short(), b.short()));
            }
            check_pair(&a, &b)
        }
        1 => {
            let (a, b) = gen_label_pair(g);
            let c = gen_label(g);
            let (a, b, c) = match g.below(3) {
                0 => (a, b, c),
                1 => (a, c, b),
                _ => (c, a, b),
            };
            ctx.class("gen:triple");
            if pair_nontrivial(&a, &b) && pair_nontrivial(&b, &c) {
                ctx.nontrivial(hash_str(&format!("{:?}|{:?}|{:?}", a, b, c)));
                ctx.sample_with(|| format!("triple ({}, {}, {})", a.short(), b.short(), c.short()));
            }
            check_pair(&a, &b)?;
            check_pair(&b, &c)?;
            check_triple(&a, &b, &c, true)
        }
        2 => {
            let n = if g.ratio(1, 6) { 30 + g.below(60) } else { 2 + g.below(14) };
            let mut ls: Vec<L> = (0..n).map(|_| gen_label(g)).collect();
            if g.ratio(1, 3) {
                let (a, b) = g.text_pair();
                let at = g.below(ls.len() + 1);
                ls.insert(at, L::Text(a));
                let at = g.below(ls.len() + 1);
                ls.insert(at, L::Text(b));
            }
            if g.bool() && !ls.is_empty() {
                let d = ls[g.below(ls.len())].clone();
                ls.push(d);
            }
            ctx.class("gen:sort-multiset");
            ctx.nontrivial(hash_str(&format!("{:?}", ls)));
            ctx.sample_with(|| format!("sort multiset [{}]", ls.iter().map(|l| l.short()).collect::<Vec<_>>().join(", ")));
            check_sort(&ls)
        }
        _ => {
            let doms = reg_domains();
            let d = &doms[g.below(doms.len())];
            let pick = |g: &mut Gen| -> L {
                if g.ratio(1, 5) {
                    gen_label(g)
                } else {
                    d.labels[g.below(d.labels.len())].clone()
                }
            };
            let (a, b) = if g.ratio(1, 4) { gen_label_pair(g) } else { (pick(g), pick(g)) };
            ctx.classf(format!("gen:registry-pair:{}", d.name));
            let ind = (d.pair)(&a, &b)?;
            if ind && pair_nontrivial(&a, &b) {
                ctx.nontrivial(hash_str(&format!("{}|{:?}|{:?}", d.name, a, b)));
                ctx.sample_with(|| format!("{} pair ({}, {})", d.name, a.short(), b.short()));
            }
            Ok(())
        }
    }
}

pub fn property() -> Property {
    Property {
        id: "C16",
        title: "Label ordering is a total order equal to CBOR's deterministic key ordering",
        rule: "pairs/triples/multisets of labels (exhaustive over a ~75-element boundary lattice of integers and texts, \
               all pairs of every registry's assigned/private/text labels obtained by decoding, plus tape-generated random labels and related text pairs: late difference, long common prefix, equal byte length with BMP-high vs supplementary characters, composed / decomposed, case, hash-colliding); \
               a pair is non-trivial when it straddles an encoding-length boundary, mixes sign or kind, or has texts of equal length; \
               distinct by the labels themselves",
        assumptions: &["oracle: own deterministic encoder (harness/src/cbor.rs) and bytewise / length-first comparison of its output"],
        exhaustive_domains: &[
            "all ordered pairs of the label lattice (cmp, partial_cmp, ==, cmp_canonical, antisymmetry, encoding)",
            "all ordered triples of the label lattice (transitivity of cmp; of cmp_canonical for labels < 4 KiB)",
            "all ordered pairs of {assigned values, texts} for RegisteredLabel<T> of each of the 16 registries and of {assigned, private-use, texts} for RegisteredLabelWithPrivate<T> of the 4 private-range registries",
            "the same for a registry of the harness' own (built on the public EnumI64 / WithPrivateRange traits) whose private-use ranges lie between and above its assigned values",
        ],
        case,
        exh_count,
        exh_case,
        bytes_case: None,
        quick_cases: 300_000,
        thorough_cases: 3_000_000,
        max_tape: 512,
    }
}

//! C01 — untrusted bytes never crash decoding or the processing that follows it.
//!
//! The case runs inside a supervised worker on a 2 MiB stack: a panic is caught here, a stack
//! overflow / abort kills the worker and is located and minimised by the supervisor.

use crate::alloc;
use crate::cbor::{encode, head, hex_trunc, read_lenient, Item, StyleOpts};
use crate::gen::*;
use crate::model::{Kind, KINDS};
use crate::props::common::*;
use crate::props::types::*;
use crate::run::{catch, hash_bytes, CaseResult, Ctx, Property, Tier};
use crate::tape::Gen;
use coset::cbor::value::Value;
use coset::ProtectedHeader;

/// Memory bounds for decoding + follow-ups of an n-byte input, per entry point.
/// Calibrated at >= 8x the maxima observed on the unchanged tree (see DESIGN.md §4 C01).
const PEAK_PER_BYTE: u64 = 4096;
const PEAK_SLACK: u64 = 2 << 20;
const TOTAL_PER_BYTE: u64 = 16384;
const TOTAL_SLACK: u64 = 8 << 20;

fn within_bounds(what: &str, n: usize, snap: &alloc::Snapshot, input: &[u8]) -> CaseResult {
    let (peak, total, _calls) = alloc::since(snap);
    let n = n as u64;
    ensure!(peak <= PEAK_PER_BYTE * n + PEAK_SLACK, "{}: peak heap {} bytes for an input of {} bytes (bound {}n + {}): {}", what, peak, n, PEAK_PER_BYTE, PEAK_SLACK, hex_trunc(input, 64));
    ensure!(total <= TOTAL_PER_BYTE * n + TOTAL_SLACK, "{}: {} bytes allocated in total for an input of {} bytes (bound {}n + {}): {}", what, total, n, TOTAL_PER_BYTE, TOTAL_SLACK, hex_trunc(input, 64));
    Ok(())
}

/// Every decoding entry point of every type on `b`, then the follow-ups on accepted values.
pub fn run_all_entry_points(b: &[u8], aad: &[u8], payload: &[u8], ctx: &mut Ctx) -> CaseResult {
    let mut accepted = 0;
    for t in all_types() {
        let snap = alloc::start();
        let r = catch(|| (t.follow)(b, aad, payload));
        match r {
            Ok(a) => {
                if a {
                    accepted += 1;
                    ctx.classf(format!("accepted:{}", t.name));
                }
            }
            Err(p) => fail!("{}: panic while decoding / processing {} : {}", t.name, hex_trunc(b, 200), p),
        }
        within_bounds(t.name, b.len(), &snap, b)?;
        if b.len() >= 1024 {
            let (peak, total, _) = alloc::since(&snap);
            ctx.maximum("peak-heap-bytes-per-input-byte(inputs>=1KiB)", peak / b.len() as u64);
            ctx.maximum("allocated-bytes-per-input-byte(inputs>=1KiB)", total / b.len() as u64);
        } else {
            let (peak, total, _) = alloc::since(&snap);
            ctx.maximum("peak-heap-bytes(inputs<1KiB)", peak);
            ctx.maximum("allocated-bytes(inputs<1KiB)", total);
        }
        if let Some(ft) = t.follow_tagged {
            let snap = alloc::start();
            match catch(|| ft(b, aad, payload)) {
                Ok(a) => {
                    if a {
                        accepted += 1;
                        ctx.classf(format!("accepted-tagged:{}", t.name));
                    }
                }
                Err(p) => fail!("{} (tagged): panic while decoding / processing {} : {}", t.name, hex_trunc(b, 200), p),
            }
            within_bounds(t.name, b.len(), &snap, b)?;
        }
    }
    // bstr-wrapped protected header entry point
    let snap = alloc::start();
    match catch(|| {
        if let Ok(p) = ProtectedHeader::from_cbor_bstr(Value::Bytes(b.to_vec())) {
            let c = p.clone();
            let _ = p == c;
            let _ = format!("{:?}", p);
            let _ = p.is_empty();
            let _ = c.cbor_bstr();
            let _ = coset::sig_structure_data(coset::SignatureContext::CounterSignature, p.clone(), Some(p.clone()), aad, payload);
            let _ = coset::enc_structure_data(coset::EncryptionContext::CoseEncrypt0, p.clone(), aad);
            let _ = coset::mac_structure_data(coset::MacContext::CoseMac0, p, aad, payload);
            true
        } else {
            false
        }
    }) {
        Ok(a) => {
            if a {
                accepted += 1;
                ctx.class("accepted:ProtectedHeader::from_cbor_bstr");
            }
        }
        Err(p) => fail!("ProtectedHeader::from_cbor_bstr: panic on {} : {}", hex_trunc(b, 200), p),
    }
    within_bounds("ProtectedHeader::from_cbor_bstr", b.len(), &snap, b)?;
    ctx.classf(format!("accepted-by:{}", match accepted { 0 => "0", 1 => "1", 2..=3 => "2-3", _ => "4+" }));
    Ok(())
}

// ---- bombs -----------------------------------------------------------------------------------

fn bstr(b: &[u8]) -> Vec<u8> {
    let mut out = vec![];
    head(&mut out, 2, b.len() as u64);
    out.extend_from_slice(b);
    out
}

/// COSE_Signature chain of depth d: protected ⊃ counter-signature ⊃ protected ⊃ …
/// shape 0: through protected headers only; 1: through unprotected headers only; 2: alternating.
/// form: how label 7 carries the next level — 0: a single COSE_Signature inlined; 1: an array of
/// one; 2: an array of two (the deeper one last); 3: alternating between single and array.
pub fn countersig_chain_form(d: usize, shape: usize, form: usize) -> Vec<u8> {
    // innermost: [h'', {}, h'']
    let mut sig = vec![0x83, 0x40, 0xa0, 0x40];
    for level in 0..d {
        let mut hdr = vec![0xa1, 0x07];
        let as_array = match form {
            0 => 0,
            1 => 1,
            2 => 2,
            _ => level % 2,
        };
        match as_array {
            0 => hdr.extend_from_slice(&sig),
            1 => {
                hdr.push(0x81);
                hdr.extend_from_slice(&sig);
            }
            _ => {
                hdr.extend_from_slice(&[0x82, 0x83, 0x40, 0xa0, 0x40]);
                hdr.extend_from_slice(&sig);
            }
        }
        let through_protected = match shape {
            0 => true,
            1 => false,
            _ => level % 2 == 0,
        };
        let mut next = vec![0x83];
        if through_protected {
            next.extend_from_slice(&bstr(&hdr));
            next.push(0xa0);
        } else {
            next.push(0x40);
            next.extend_from_slice(&hdr);
        }
        next.push(0x40);
        sig = next;
    }
    sig
}

/// `crossings` runs of `run` counter-signature levels carried in unprotected headers, consecutive
/// runs separated by one level carried in a protected header (each protected byte string is parsed
/// on its own, with a recursion budget of its own: bounds that are fine for either kind of nesting
/// alone can multiply when the two are mixed this way).
pub fn countersig_runs(crossings: usize, run: usize) -> Vec<u8> {
    let mut sig = vec![0x83, 0x40, 0xa0, 0x40];
    for _ in 0..crossings {
        for _ in 0..run {
            sig = [&[0x83u8, 0x40, 0xa1, 0x07][..], &sig, &[0x40]].concat();
        }
        let hdr = [&[0xa1u8, 0x07][..], &sig].concat();
        sig = [&[0x83u8][..], &bstr(&hdr), &[0xa0, 0x40]].concat();
    }
    sig
}

pub fn countersig_chain(d: usize, shape: usize) -> Vec<u8> {
    countersig_chain_form(d, shape, 0)
}

/// Wrap a COSE_Signature chain into a carrier of another type.
fn chain_in_carrier(sig: &[u8], carrier: usize) -> Vec<u8> {
    let mut hdr = vec![0xa1, 0x07];
    hdr.extend_from_slice(sig);
    match carrier {
        0 => sig.to_vec(),                                  // COSE_Signature itself
        1 => hdr,                                           // Header / ProtectedHeader map
        2 => [&[0x84u8][..], &bstr(&hdr), &[0xa0, 0xf6, 0x40]].concat(), // COSE_Sign1 / Mac0 / Encrypt shape, protected
        3 => [&[0x84u8, 0x40][..], &hdr, &[0xf6, 0x40]].concat(), // … unprotected
        4 => [&[0x83u8][..], &bstr(&hdr), &[0xa0, 0xf6]].concat(), // Encrypt0 / recipient
        5 => [&[0x84u8, 0x40, 0xa0, 0xf6, 0x81][..], sig].concat(), // COSE_Sign with this signer
        6 => [&[0x84u8, 0x40, 0xa0, 0xf6, 0x81, 0x83][..], &bstr(&hdr), &[0xa0, 0xf6]].concat(), // Encrypt with recipient
        7 => [&[0x82u8, 0x18, 0x80][..], &bstr(&hdr)].concat(), // SuppPubInfo
        _ => [&[0x84u8, 0x01, 0x83, 0xf6, 0xf6, 0xf6, 0x83, 0xf6, 0xf6, 0xf6, 0x82, 0x18, 0x80][..], &bstr(&hdr)].concat(), // KDF context
    }
}

/// A counter-signature chain (depth, shape, form) inside carrier number `carrier` (0..9).
pub fn chain_bytes(depth: usize, shape: usize, form: usize, carrier: usize) -> Vec<u8> {
    chain_in_carrier(&countersig_chain_form(depth, shape, form), carrier)
}

/// A value that is wide *and* deep: `depth` nested arrays (or maps) of `width` entries each, the next
/// level sitting at index `at` of its parent, small scalars elsewhere (anything that extrapolates a
/// size, a count or a cost from a prefix of a container compounds the error level by level).
fn wide_and_deep(width: usize, depth: usize, at: usize, maps: bool) -> Vec<u8> {
    let mut v: Vec<u8> = vec![0x00];
    for _ in 0..depth {
        let mut b = vec![];
        head(&mut b, if maps { 5 } else { 4 }, width as u64);
        for i in 0..width {
            if maps {
                head(&mut b, 0, i as u64);
            }
            if i == at.min(width - 1) {
                b.extend_from_slice(&v);
            } else {
                b.push((i % 24) as u8);
            }
        }
        v = b;
    }
    v
}

fn gen_bomb(g: &mut Gen, ctx: &mut Ctx) -> Vec<u8> {
    let max_len: usize = if std::env::var("VERIF_TIER_INTERNAL").ok().as_deref() == Some("thorough") { 4 << 20 } else { 1 << 20 };
    if g.ratio(1, 10) {
        let crossings = *g.pick(&[1usize, 2, 3, 5, 8, 9, 10, 12, 20]);
        let run = *g.pick(&[3usize, 7, 8, 60, 100, 110, 120, 124, 126]);
        ctx.classf(format!("bomb:countersig-runs:{}", if crossings * run >= 500 { "long" } else { "short" }));
        return chain_in_carrier(&countersig_runs(crossings, run), g.below(9));
    }
    if g.ratio(1, 8) {
        let width = *g.pick(&[2usize, 8, 9, 16, 24, 64, 128, 255, 256, 300]);
        let depth = (*g.pick(&[4usize, 8, 12, 16, 22, 30, 48, 64, 100, 200])).min(max_len / 2 / width).max(1);
        let at = *g.pick(&[0usize, 1, 3, 7, 8, 9, usize::MAX]);
        let maps = g.ratio(1, 4);
        ctx.classf(format!("bomb:wide-and-deep:{}", if width * depth >= 2048 { "large" } else { "small" }));
        let v = wide_and_deep(width, depth, at, maps);
        // as a bare value, or as an extra of the (unprotected) header of a message, of a key, of a claims set
        return match g.below(8) {
            0 => v,
            1 => [&[0xa1u8, 0x18, 0x63][..], &v].concat(),
            2 => [&[0xa2u8, 0x01, 0x01, 0x18, 0x63][..], &v].concat(),
            3 => [&[0x84u8, 0x40, 0xa1, 0x18, 0x63][..], &v, &[0xf6, 0x40]].concat(),
            4 => [&[0x84u8, 0x40, 0xa1, 0x18, 0x63][..], &v, &[0xf6, 0x80]].concat(),
            5 => [&[0x85u8, 0x40, 0xa1, 0x18, 0x63][..], &v, &[0xf6, 0x40, 0x80]].concat(),
            6 => [&[0x83u8, 0x40, 0xa1, 0x18, 0x63][..], &v, &[0xf6]].concat(),
            _ => [&[0x84u8][..], &bstr(&[&[0xa1u8, 0x18, 0x63][..], &v].concat()), &[0xa0, 0xf6, 0x40]].concat(),
        };
    }
    match g.below(8) {
        0 => {
            // deeply nested arrays / maps / tags
            let d = 1usize << g.below(18);
            let d = d.min(max_len / 2);
            let opener: u8 = *g.pick(&[0x81, 0x9f, 0xa1, 0xbf, 0xc1, 0xd8]);
            ctx.classf(format!("bomb:nesting:{:02x}", opener));
            let mut b = vec![];
            for _ in 0..d {
                b.push(opener);
                if opener == 0xd8 {
                    b.push(0x20);
                }
                if opener == 0xa1 || opener == 0xbf {
                    b.push(0x00); // key
                    // value = next level
                }
            }
            b.push(0x00);
            if g.bool() {
                for _ in 0..d {
                    if opener == 0x9f || opener == 0xbf {
                        b.push(0xff);
                    }
                }
            }
            b
        }
        1 => {
            // huge declared length, little data
            let major: u8 = *g.pick(&[2, 3, 4, 5]);
            let len: u64 = *g.pick(&[u64::MAX, u64::MAX / 2, 1 << 32, 1 << 31, 0xffff_ffff, 1 << 24, 0x7fff_ffff_ffff_ffff]);
            ctx.classf(format!("bomb:declared-length:major{}", major));
            let mut b = vec![];
            head(&mut b, major, len);
            let pad = g.below(64);
            b.extend(std::iter::repeat(0x00).take(pad));
            // sometimes inside a message slot
            if g.bool() {
                let mut m = vec![0x84];
                m.extend_from_slice(&b);
                m
            } else {
                b
            }
        }
        2 => {
            // long indefinite chunk chains
            let n = (1usize << g.below(19)).min(max_len / 2);
            let text = g.bool();
            ctx.class("bomb:chunk-chain");
            let mut b = vec![if text { 0x7f } else { 0x5f }];
            for i in 0..n {
                if i % 3 == 0 {
                    b.push(if text { 0x60 } else { 0x40 });
                } else {
                    b.push(if text { 0x61 } else { 0x41 });
                    b.push(0x61);
                }
            }
            b.push(0xff);
            // as a protected slot of a Sign1
            if g.bool() {
                [&[0x84u8][..], &b, &[0xa0, 0xf6, 0x40]].concat()
            } else {
                b
            }
        }
        3 => {
            // wide flat arrays / maps
            let n = (1usize << g.below(20)).min(max_len - 16);
            ctx.class("bomb:wide-flat");
            let mut b = vec![];
            match g.below(4) {
                0 => {
                    head(&mut b, 4, n as u64);
                    b.extend(std::iter::repeat(0x00).take(n));
                }
                1 => {
                    // header map with n/2 distinct small extras (wide map; exercises the seen-set)
                    let m = (n / 4).min(60000);
                    head(&mut b, 5, m as u64);
                    for i in 0..m {
                        head(&mut b, 0, 1000 + i as u64);
                        b.push(0x00);
                    }
                }
                2 => {
                    // key set of n/3 minimal keys
                    let m = n / 3;
                    head(&mut b, 4, m as u64);
                    for _ in 0..m {
                        b.extend_from_slice(&[0xa1, 0x01, 0x01]);
                    }
                }
                _ => {
                    // COSE_Sign with many minimal signers
                    let m = n / 4;
                    b.extend_from_slice(&[0x84, 0x40, 0xa0, 0xf6]);
                    head(&mut b, 4, m as u64);
                    for _ in 0..m {
                        b.extend_from_slice(&[0x83, 0x40, 0xa0, 0x40]);
                    }
                }
            }
            b
        }
        4 | 5 | 6 => {
            // the chain the property flags
            let d = match g.below(4) {
                0 => 1usize << g.below(18),
                1 => g.below(64),
                2 => 64 + g.below(2000),
                _ => *g.pick(&[100usize, 200, 400, 800, 1600, 3200]),
            };
            let shape = g.below(3);
            // keep the byte size in bounds: each protected level adds ~8 bytes + growing heads
            let d = d.min(60_000).min(max_len / 12);
            let carrier = g.below(9);
            let form = g.below(4);
            ctx.classf(format!("bomb:countersig-chain:form{}", form));
            ctx.classf(format!("bomb:countersig-chain:shape{}:depth{}", shape, match d { 0..=15 => "<16", 16..=63 => "<64", 64..=255 => "<256", 256..=1023 => "<1024", _ => ">=1024" }));
            chain_in_carrier(&countersig_chain_form(d, shape, form), carrier)
        }
        _ => {
            // recipients nested through plain arrays
            let d = if g.bool() { (1usize << g.below(10)).min(600) } else { *g.pick(&[7usize, 8, 9, 10, 11, 12, 16, 40, 100, 120]) };
            ctx.class("bomb:recipient-nesting");
            // some of the nested recipients (the innermost, every third, or all) carry a counter-signature in
            // the unprotected or the protected header: two kinds of nesting in one message
            let cs_mode = g.below(4);
            let cs_prot = g.bool();
            let with_cs = |level: usize| -> Vec<u8> {
                let wants = match cs_mode {
                    0 => false,
                    1 => level == 0,
                    2 => level % 3 == 0,
                    _ => true,
                };
                if !wants {
                    vec![0x40, 0xa0]
                } else if cs_prot {
                    [&bstr(&[0xa1, 0x07, 0x83, 0x40, 0xa0, 0x40])[..], &[0xa0]].concat()
                } else {
                    vec![0x40, 0xa1, 0x07, 0x83, 0x40, 0xa0, 0x40]
                }
            };
            if cs_mode != 0 {
                ctx.class("bomb:recipient-nesting:with-counter-signatures");
            }
            let mut r = [&[0x83u8][..], &with_cs(0), &[0xf6]].concat();
            for level in 1..=d {
                r = [&[0x84u8][..], &with_cs(level), &[0xf6, 0x81], &r].concat();
            }
            r
        }
    }
}

fn gen_shape_bomb(g: &mut Gen, ctx: &mut Ctx) -> Vec<u8> {
    ctx.class("mode:shape-bomb");
    // arrays of arity 0..7 with arbitrary slot kinds; counter-signature oddities; key_ops/crit oddities
    let item = match g.below(5) {
        0 => {
            let n = g.below(8);
            Item::Array((0..n).map(|_| gen_value(g, 2, true)).collect())
        }
        1 => {
            let first = gen_value(g, 1, true);
            Item::Map(vec![(Item::Int(7), Item::Array(if g.bool() { vec![] } else { vec![first, gen_value(g, 1, true), gen_value(g, 1, true)] }))])
        }
        2 => Item::Map(vec![(Item::Int(1), Item::Int(1)), (Item::Int(4), gen_value(g, 2, true))]),
        3 => Item::Map(vec![(Item::Int(2), gen_value(g, 2, true)), (Item::Int(3), gen_value(g, 1, true))]),
        _ => {
            let n = g.below(8);
            Item::Array((0..n).map(|i| if i == 3 { Item::Array(vec![gen_value(g, 1, true)]) } else { Item::Array(vec![Item::Null, gen_value(g, 1, true), Item::Null]) }).collect())
        }
    };
    let mut it = item;
    crate::cbor::encode_styled(&mut it, g, StyleOpts::ALL)
}


// ---- scaling oracle: time grows linearly with the width of the input ---------------------------

fn thread_cpu_ns() -> u64 {
    let mut ts = libc::timespec { tv_sec: 0, tv_nsec: 0 };
    unsafe {
        libc::clock_gettime(libc::CLOCK_THREAD_CPUTIME_ID, &mut ts);
    }
    ts.tv_sec as u64 * 1_000_000_000 + ts.tv_nsec as u64
}

/// A family of inputs parametrised by a width n (number of elements), and the type to decode as.
struct Family {
    name: &'static str,
    ty: &'static str,
    build: fn(usize) -> Vec<u8>,
}

/// The same, with the builder as a closure (generated families).
struct Fam<'a> {
    name: String,
    ty: &'static str,
    build: &'a dyn Fn(usize) -> Vec<u8>,
    /// an input the type does not accept ends the ladder quietly (generated families only)
    lenient: bool,
}

fn arr_head(n: usize) -> Vec<u8> {
    let mut b = vec![];
    head(&mut b, 4, n as u64);
    b
}
fn map_head(n: usize) -> Vec<u8> {
    let mut b = vec![];
    head(&mut b, 5, n as u64);
    b
}
fn uint(n: u64) -> Vec<u8> {
    let mut b = vec![];
    head(&mut b, 0, n);
    b
}
fn rep(prefix: Vec<u8>, n: usize, elem: impl Fn(usize) -> Vec<u8>) -> Vec<u8> {
    let mut b = prefix;
    for i in 0..n {
        b.extend_from_slice(&elem(i));
    }
    b
}

/// `prefix`, a protected header with n extras (labels 1000..), an unprotected header with n other
/// extras (labels 2000000..), `suffix`.
fn two_buckets(prefix: Vec<u8>, n: usize, suffix: Vec<u8>) -> Vec<u8> {
    let inner = rep(map_head(n), n, |i| [uint(1000 + i as u64), vec![0x00]].concat());
    let unprot = rep(map_head(n), n, |i| [uint(2_000_000 + i as u64), vec![0x00]].concat());
    [prefix, bstr(&inner), unprot, suffix].concat()
}

/// Multiplicative inverse of an odd number modulo 2^64 (Newton iteration).
const fn inv64(m: u64) -> u64 {
    let mut x = m; // correct to 3 bits
    let mut i = 0;
    while i < 6 {
        x = x.wrapping_mul(2u64.wrapping_sub(m.wrapping_mul(x)));
        i += 1;
    }
    x
}

/// Strides of label progressions `k * stride mod 2^64` that defeat the usual hand-rolled hash
/// functions: powers of two (everything lands in one bucket of a "low bits" / "high bits" table) and the
/// inverses of well-known multiplicative-hash constants (Fibonacci hashing in 64 and 32 bits, FxHash, the
/// murmur3 / splitmix finalisers, the FNV primes), for which the *hashes* form a tiny progression.
const STRIDES: [u64; 12] = [
    1 << 16,
    1 << 32,
    1 << 44,
    inv64(0x9e37_79b9_7f4a_7c15),
    inv64(0x9e37_79b9),
    inv64(0x517c_c1b7_2722_0a95),
    inv64(0xff51_afd7_ed55_8ccd),
    inv64(0xc4ce_b9fe_1a85_ec53),
    inv64(0xbf58_476d_1ce4_e5b9),
    inv64(0x0000_0100_0000_01b3),
    inv64(0x0100_0193),
    0x9e37_79b9_7f4a_7c15,
];

/// n label-value pairs whose labels are `(k + 1) * stride mod 2^64`, read as signed 64-bit integers.
fn strided_pairs(n: usize, stride: u64) -> Vec<u8> {
    let mut b = vec![];
    for k in 0..n {
        let v = ((k as u64 + 8).wrapping_mul(stride)) as i64;
        if v >= 0 {
            head(&mut b, 0, v as u64);
        } else {
            head(&mut b, 1, !(v as u64));
        }
        b.push(0x00);
    }
    b
}

/// A map of n entries whose keys are all of one kind the crate never interprets as a label: byte
/// strings, floats, one-element arrays, tagged integers, nested one-entry maps.
fn odd_keyed_map(n: usize, kind: usize) -> Vec<u8> {
    let mut b = map_head(n);
    for i in 0..n {
        match kind {
            0 => b.extend_from_slice(&[0x43, (i >> 16) as u8, (i >> 8) as u8, i as u8]),
            1 => {
                b.push(0xfb);
                b.extend_from_slice(&(i as f64 + 0.5).to_be_bytes());
            }
            2 => {
                b.push(0x81);
                head(&mut b, 0, i as u64);
            }
            3 => {
                b.extend_from_slice(&[0xd8, 0x64]);
                head(&mut b, 0, i as u64);
            }
            _ => {
                b.extend_from_slice(&[0xa1, 0x00]);
                head(&mut b, 0, i as u64);
            }
        }
        b.push(0x00);
    }
    b
}

fn families() -> &'static Vec<Family> {
    static F: std::sync::OnceLock<Vec<Family>> = std::sync::OnceLock::new();
    F.get_or_init(|| {
        vec![
            Family { name: "KDF context with n trailing private-info strings", ty: "CoseKdfContext", build: |n| rep([arr_head(n + 4), vec![0x01, 0x83, 0xf6, 0xf6, 0xf6, 0x83, 0xf6, 0xf6, 0xf6, 0x82, 0x18, 0x80, 0x40]].concat(), n, |_| vec![0x41, 0x07]) },
            Family { name: "header with n extra parameters", ty: "Header", build: |n| rep(map_head(n), n, |i| [uint(1000 + i as u64), vec![0x00]].concat()) },
            Family { name: "header with n crit entries", ty: "Header", build: |n| rep([vec![0xa1, 0x02], arr_head(n)].concat(), n, |_| vec![0x01]) },
            Family { name: "header with n counter-signatures", ty: "Header", build: |n| rep([vec![0xa1, 0x07], arr_head(n)].concat(), n, |_| vec![0x83, 0x40, 0xa0, 0x40]) },
            Family { name: "protected header with n extras inside COSE_Sign1", ty: "CoseSign1", build: |n| {
                let inner = rep(map_head(n), n, |i| [uint(1000 + i as u64), vec![0x00]].concat());
                [vec![0x84], bstr(&inner), vec![0xa0, 0xf6, 0x40]].concat()
            } },
            Family { name: "key with n extra parameters", ty: "CoseKey", build: |n| rep([map_head(n + 1), vec![0x01, 0x01]].concat(), n, |i| [uint(1000 + i as u64), vec![0x00]].concat()) },
            Family { name: "key with n text key operations", ty: "CoseKey", build: |n| rep([vec![0xa2, 0x01, 0x01, 0x04], arr_head(n)].concat(), n, |i| { let t = format!("{:06}", i); let mut b = vec![]; head(&mut b, 3, t.len() as u64); b.extend_from_slice(t.as_bytes()); b }) },
            Family { name: "key set of n keys", ty: "CoseKeySet", build: |n| rep(arr_head(n), n, |_| vec![0xa1, 0x01, 0x01]) },
            Family { name: "COSE_Sign with n signers", ty: "CoseSign", build: |n| rep([vec![0x84, 0x40, 0xa0, 0xf6], arr_head(n)].concat(), n, |_| vec![0x83, 0x40, 0xa0, 0x40]) },
            Family { name: "COSE_Encrypt with n recipients", ty: "CoseEncrypt", build: |n| rep([vec![0x84, 0x40, 0xa0, 0x41, 0x01], arr_head(n)].concat(), n, |_| vec![0x83, 0x40, 0xa0, 0x41, 0x02]) },
            Family { name: "COSE_Mac with n recipients", ty: "CoseMac", build: |n| rep([vec![0x85, 0x40, 0xa0, 0x41, 0x01, 0x40], arr_head(n)].concat(), n, |_| vec![0x83, 0x40, 0xa0, 0xf6]) },
            Family { name: "recipient with n nested recipients", ty: "CoseRecipient", build: |n| rep([vec![0x84, 0x40, 0xa0, 0xf6], arr_head(n)].concat(), n, |_| vec![0x83, 0x40, 0xa0, 0x41, 0x02]) },
            Family { name: "claims set with n extra text claims", ty: "ClaimsSet", build: |n| rep(map_head(n), n, |i| { let t = format!("{:06}", i); let mut b = vec![]; head(&mut b, 3, t.len() as u64); b.extend_from_slice(t.as_bytes()); b.push(0x00); b }) },
            Family { name: "COSE_Sign1 with an n-chunk indefinite payload", ty: "CoseSign1", build: |n| { let mut b = vec![0x84, 0x40, 0xa0, 0x5f]; for _ in 0..n { b.extend_from_slice(&[0x41, 0x61]); } b.extend_from_slice(&[0xff, 0x40]); b } },
            Family { name: "value: array of n integers", ty: "Value", build: |n| rep(arr_head(n), n, |_| vec![0x00]) },
            // the same wide maps with their labels in descending and in scattered order (the order in which
            // labels arrive must not matter to the cost of policing duplicates)
            Family { name: "header with n extra parameters, labels descending", ty: "Header", build: |n| rep(map_head(n), n, move |i| [uint(1000 + (n - 1 - i) as u64), vec![0x00]].concat()) },
            Family { name: "header with n extra parameters, labels scattered", ty: "Header", build: |n| rep(map_head(n), n, move |i| [uint(1000 + ((i * 7919) % n) as u64), vec![0x00]].concat()) },
            Family { name: "protected header with n extras (descending) inside COSE_Sign1", ty: "CoseSign1", build: |n| {
                let inner = rep(map_head(n), n, move |i| [uint(1000 + (n - 1 - i) as u64), vec![0x00]].concat());
                [vec![0x84], bstr(&inner), vec![0xa0, 0xf6, 0x40]].concat()
            } },
            Family { name: "key with n extra parameters, labels descending", ty: "CoseKey", build: |n| rep([map_head(n + 1), vec![0x01, 0x01]].concat(), n, move |i| [uint(1000 + (n - 1 - i) as u64), vec![0x00]].concat()) },
            Family { name: "key with n extra parameters, labels scattered", ty: "CoseKey", build: |n| rep([map_head(n + 1), vec![0x01, 0x01]].concat(), n, move |i| [uint(1000 + ((i * 7919) % n) as u64), vec![0x00]].concat()) },
            Family { name: "claims set with n extra text claims, names descending", ty: "ClaimsSet", build: |n| rep(map_head(n), n, move |i| { let t = format!("{:06}", n - 1 - i); let mut b = vec![]; head(&mut b, 3, t.len() as u64); b.extend_from_slice(t.as_bytes()); b.push(0x00); b }) },
            Family { name: "key with n text key operations, descending", ty: "CoseKey", build: |n| rep([vec![0xa2, 0x01, 0x01, 0x04], arr_head(n)].concat(), n, move |i| { let t = format!("{:06}", n - 1 - i); let mut b = vec![]; head(&mut b, 3, t.len() as u64); b.extend_from_slice(t.as_bytes()); b }) },
            Family { name: "header with n extras whose labels step by STRIDES[0] (mod 2^64)", ty: "Header", build: |n| [map_head(n), strided_pairs(n, STRIDES[0])].concat() },
            Family { name: "key with n extras whose labels step by STRIDES[0] (mod 2^64)", ty: "CoseKey", build: |n| [map_head(n + 1), vec![0x01, 0x01], strided_pairs(n, STRIDES[0])].concat() },
            Family { name: "header with n extras whose labels step by STRIDES[1] (mod 2^64)", ty: "Header", build: |n| [map_head(n), strided_pairs(n, STRIDES[1])].concat() },
            Family { name: "key with n extras whose labels step by STRIDES[1] (mod 2^64)", ty: "CoseKey", build: |n| [map_head(n + 1), vec![0x01, 0x01], strided_pairs(n, STRIDES[1])].concat() },
            Family { name: "header with n extras whose labels step by STRIDES[2] (mod 2^64)", ty: "Header", build: |n| [map_head(n), strided_pairs(n, STRIDES[2])].concat() },
            Family { name: "key with n extras whose labels step by STRIDES[2] (mod 2^64)", ty: "CoseKey", build: |n| [map_head(n + 1), vec![0x01, 0x01], strided_pairs(n, STRIDES[2])].concat() },
            Family { name: "header with n extras whose labels step by STRIDES[3] (mod 2^64)", ty: "Header", build: |n| [map_head(n), strided_pairs(n, STRIDES[3])].concat() },
            Family { name: "key with n extras whose labels step by STRIDES[3] (mod 2^64)", ty: "CoseKey", build: |n| [map_head(n + 1), vec![0x01, 0x01], strided_pairs(n, STRIDES[3])].concat() },
            Family { name: "header with n extras whose labels step by STRIDES[4] (mod 2^64)", ty: "Header", build: |n| [map_head(n), strided_pairs(n, STRIDES[4])].concat() },
            Family { name: "key with n extras whose labels step by STRIDES[4] (mod 2^64)", ty: "CoseKey", build: |n| [map_head(n + 1), vec![0x01, 0x01], strided_pairs(n, STRIDES[4])].concat() },
            Family { name: "header with n extras whose labels step by STRIDES[5] (mod 2^64)", ty: "Header", build: |n| [map_head(n), strided_pairs(n, STRIDES[5])].concat() },
            Family { name: "key with n extras whose labels step by STRIDES[5] (mod 2^64)", ty: "CoseKey", build: |n| [map_head(n + 1), vec![0x01, 0x01], strided_pairs(n, STRIDES[5])].concat() },
            Family { name: "header with n extras whose labels step by STRIDES[6] (mod 2^64)", ty: "Header", build: |n| [map_head(n), strided_pairs(n, STRIDES[6])].concat() },
            Family { name: "key with n extras whose labels step by STRIDES[6] (mod 2^64)", ty: "CoseKey", build: |n| [map_head(n + 1), vec![0x01, 0x01], strided_pairs(n, STRIDES[6])].concat() },
            Family { name: "header with n extras whose labels step by STRIDES[7] (mod 2^64)", ty: "Header", build: |n| [map_head(n), strided_pairs(n, STRIDES[7])].concat() },
            Family { name: "key with n extras whose labels step by STRIDES[7] (mod 2^64)", ty: "CoseKey", build: |n| [map_head(n + 1), vec![0x01, 0x01], strided_pairs(n, STRIDES[7])].concat() },
            Family { name: "header with n extras whose labels step by STRIDES[8] (mod 2^64)", ty: "Header", build: |n| [map_head(n), strided_pairs(n, STRIDES[8])].concat() },
            Family { name: "key with n extras whose labels step by STRIDES[8] (mod 2^64)", ty: "CoseKey", build: |n| [map_head(n + 1), vec![0x01, 0x01], strided_pairs(n, STRIDES[8])].concat() },
            Family { name: "header with n extras whose labels step by STRIDES[9] (mod 2^64)", ty: "Header", build: |n| [map_head(n), strided_pairs(n, STRIDES[9])].concat() },
            Family { name: "key with n extras whose labels step by STRIDES[9] (mod 2^64)", ty: "CoseKey", build: |n| [map_head(n + 1), vec![0x01, 0x01], strided_pairs(n, STRIDES[9])].concat() },
            Family { name: "header with n extras whose labels step by STRIDES[10] (mod 2^64)", ty: "Header", build: |n| [map_head(n), strided_pairs(n, STRIDES[10])].concat() },
            Family { name: "key with n extras whose labels step by STRIDES[10] (mod 2^64)", ty: "CoseKey", build: |n| [map_head(n + 1), vec![0x01, 0x01], strided_pairs(n, STRIDES[10])].concat() },
            Family { name: "header with n extras whose labels step by STRIDES[11] (mod 2^64)", ty: "Header", build: |n| [map_head(n), strided_pairs(n, STRIDES[11])].concat() },
            Family { name: "key with n extras whose labels step by STRIDES[11] (mod 2^64)", ty: "CoseKey", build: |n| [map_head(n + 1), vec![0x01, 0x01], strided_pairs(n, STRIDES[11])].concat() },
            Family { name: "header whose extra value is a map of n entries keyed by byte strings", ty: "Header", build: |n| [vec![0xa1, 0x18, 0x63], odd_keyed_map(n, 0)].concat() },
            Family { name: "header whose extra value is a map of n entries keyed by floats", ty: "Header", build: |n| [vec![0xa1, 0x18, 0x63], odd_keyed_map(n, 1)].concat() },
            Family { name: "header whose extra value is a map of n entries keyed by arrays", ty: "Header", build: |n| [vec![0xa1, 0x18, 0x63], odd_keyed_map(n, 2)].concat() },
            Family { name: "header whose extra value is a map of n entries keyed by tagged integers", ty: "Header", build: |n| [vec![0xa1, 0x18, 0x63], odd_keyed_map(n, 3)].concat() },
            Family { name: "header whose extra value is a map of n entries keyed by maps", ty: "Header", build: |n| [vec![0xa1, 0x18, 0x63], odd_keyed_map(n, 4)].concat() },
            Family { name: "key whose parameter value is a map of n entries keyed by byte strings", ty: "CoseKey", build: |n| [vec![0xa2, 0x01, 0x01, 0x20], odd_keyed_map(n, 0)].concat() },
            Family { name: "claims set whose claim value holds a map of n entries keyed by byte strings", ty: "ClaimsSet", build: |n| [vec![0xa1, 0x08, 0xa1, 0x01], odd_keyed_map(n, 0)].concat() },
            Family { name: "COSE_Sign1 whose protected header holds a map of n entries keyed by floats in a list", ty: "CoseSign1", build: |n| [vec![0x84], bstr(&[vec![0xa1, 0x18, 0x63, 0x82, 0x00], odd_keyed_map(n, 1)].concat()), vec![0xa0, 0xf6, 0x40]].concat() },
            Family { name: "value: map of n entries keyed by arrays", ty: "Value", build: |n| odd_keyed_map(n, 2) },
            // two wide places of one input at once (sizes add, so only a cost that multiplies them shows)
            Family { name: "COSE_Sign1 with n extras in the protected and n other extras in the unprotected header", ty: "CoseSign1", build: |n| two_buckets(vec![0x84], n, vec![0xf6, 0x40]) },
            Family { name: "COSE_Signature with n + n extras in its two headers", ty: "CoseSignature", build: |n| two_buckets(vec![0x83], n, vec![0x40]) },
            Family { name: "COSE_Mac0 with n + n extras in its two headers", ty: "CoseMac0", build: |n| two_buckets(vec![0x84], n, vec![0x41, 0x01, 0x40]) },
            Family { name: "COSE_Encrypt0 with n + n extras in its two headers", ty: "CoseEncrypt0", build: |n| two_buckets(vec![0x83], n, vec![0x41, 0x01]) },
            Family { name: "COSE_recipient with n + n extras in its two headers", ty: "CoseRecipient", build: |n| two_buckets(vec![0x83], n, vec![0xf6]) },
            Family { name: "COSE_Sign whose body and whose one signer carry n + n extras each", ty: "CoseSign", build: |n| [two_buckets(vec![0x84], n, vec![0xf6, 0x81]), two_buckets(vec![0x83], n, vec![0x40])].concat() },
            Family { name: "COSE_Encrypt whose body and whose one recipient carry n + n extras each", ty: "CoseEncrypt", build: |n| [two_buckets(vec![0x84], n, vec![0x41, 0x01, 0x81]), two_buckets(vec![0x83], n, vec![0xf6])].concat() },
            Family { name: "COSE_Mac whose body and whose one recipient carry n + n extras each", ty: "CoseMac", build: |n| [two_buckets(vec![0x85], n, vec![0x41, 0x01, 0x40, 0x81]), two_buckets(vec![0x83], n, vec![0xf6])].concat() },
            Family { name: "header with n extras and a counter-signature with n + n extras", ty: "Header", build: |n| [map_head(n + 1), vec![0x07], two_buckets(vec![0x83], n, vec![0x40]), rep(vec![], n, |i| [uint(5_000_000 + i as u64), vec![0x00]].concat())].concat() },
            Family { name: "key with n extras and n text key operations", ty: "CoseKey", build: |n| [rep([map_head(n + 2), vec![0x01, 0x01, 0x04], arr_head(n)].concat(), n, |i| { let t = format!("{:06}", i); let mut b = vec![]; head(&mut b, 3, t.len() as u64); b.extend_from_slice(t.as_bytes()); b }), rep(vec![], n, |i| [uint(1000 + i as u64), vec![0x00]].concat())].concat() },
            Family { name: "header with n crit entries and n extras", ty: "Header", build: |n| [rep([map_head(n + 1), vec![0x02], arr_head(n)].concat(), n, |_| vec![0x01]), rep(vec![], n, |i| [uint(1000 + i as u64), vec![0x00]].concat())].concat() },
            Family { name: "KDF context with n extras in the SuppPubInfo protected header and n trailing strings", ty: "CoseKdfContext", build: |n| {
                let inner = rep(map_head(n), n, |i| [uint(1000 + i as u64), vec![0x00]].concat());
                rep([arr_head(n + 4), vec![0x01, 0x83, 0xf6, 0xf6, 0xf6, 0x83, 0xf6, 0xf6, 0xf6, 0x82, 0x18, 0x80], bstr(&inner)].concat(), n, |_| vec![0x41, 0x07])
            } },
            Family { name: "COSE_Sign with n/40 signers of 20 + 20 extras each", ty: "CoseSign", build: |n| rep([vec![0x84, 0x40, 0xa0, 0xf6], arr_head(n / 40 + 1)].concat(), n / 40 + 1, |_| two_buckets(vec![0x83], 20, vec![0x40])) },
            Family { name: "key set of n/20 keys with 20 extras each", ty: "CoseKeySet", build: |n| rep(arr_head(n / 20 + 1), n / 20 + 1, |_| rep([map_head(21), vec![0x01, 0x01]].concat(), 20, |i| [uint(1000 + i as u64), vec![0x00]].concat())) },
        ]
    })
}

/// CPU time (ns) of decode + follow-ups of the family's type on the input of width n (min of 2).
fn time_family(f: &Fam, n: usize) -> Result<(u64, usize), String> {
    let t = all_types().iter().find(|t| t.name == f.ty).ok_or("type")?;
    let b = (f.build)(n);
    let mut best = u64::MAX;
    for _ in 0..2 {
        let t0 = thread_cpu_ns();
        let ok = catch(|| (t.follow)(&b, b"aad", b"payload")).map_err(|p| format!("{}: panic on {} with n = {}: {}", f.ty, f.name, n, p))?;
        let dt = thread_cpu_ns() - t0;
        if !ok {
            return Err(format!("harness: family '{}' with n = {} is not accepted by {}", f.name, n, f.ty));
        }
        best = best.min(dt);
        if dt > 2_000_000_000 {
            break; // slow enough that noise does not matter; do not pay for it twice
        }
    }
    Ok((best.max(1), b.len()))
}

/// Quadrupling ladder: for code whose time is proportional to the input, t(4n)/t(n) stays near 4;
/// the check fails only when two consecutive quadruplings both cost more than 11x (a quadratic
/// algorithm gives 16x at every step once its quadratic term dominates).
fn scaling_case(idx: usize, ctx: &mut Ctx) -> CaseResult {
    let f = &families()[idx];
    ladder(&Fam { name: f.name.to_string(), ty: f.ty, build: &f.build, lenient: false }, ctx)
}

fn ladder(f: &Fam, ctx: &mut Ctx) -> CaseResult {
    ctx.classf(format!("scaling:{}", f.ty));
    if f.lenient {
        // a generated family that the type does not accept (at any width) is not a family
        let t = all_types().iter().find(|t| t.name == f.ty).ok_or("type")?;
        for n in [8usize, 500, 8000] {
            let b = (f.build)(n);
            match catch(|| (t.follow)(&b, b"aad", b"payload")) {
                Ok(true) => {}
                Ok(false) => {
                    ctx.class("scaling:generated-family-not-accepted");
                    return Ok(());
                }
                Err(p) => fail!("{}: panic on {} with n = {}: {}", f.ty, f.name, n, p),
            }
        }
    }
    let mut n = 500usize;
    let mut ratios: Vec<(usize, f64, u64)> = vec![];
    let (mut t_prev, _) = time_family(f, n)?;
    loop {
        let n4 = n * 4;
        let (t4, len4) = match time_family(f, n4) {
            Ok(x) => x,
            Err(e) if f.lenient && e.starts_with("harness:") => return Ok(()),
            Err(e) => return Err(e),
        };
        if t4 >= 20_000_000 {
            ratios.push((n4, t4 as f64 / t_prev as f64, t4));
        }
        ctx.maximum("scaling:largest-width", n4 as u64);
        if t4 >= 1_000_000_000 || len4 >= (2 << 20) || n4 >= 400_000 {
            break;
        }
        n = n4;
        t_prev = t4;
    }
    ctx.nontrivial(hash_bytes(f.name.as_bytes()));
    ctx.sample_with(|| format!("scaling of {} over '{}': quadrupling ratios {:?}", f.ty, f.name, ratios.iter().map(|(n, r, t)| format!("n={} x{:.1} ({} ms)", n, r, t / 1_000_000)).collect::<Vec<_>>()));
    if ratios.len() >= 2 {
        let a = &ratios[ratios.len() - 2];
        let b = &ratios[ratios.len() - 1];
        if a.1 > 11.0 && b.1 > 11.0 && b.2 >= 150_000_000 {
            fail!("{}: decoding time is not proportional to the input for '{}': quadrupling the width costs x{:.1} (n = {}) and x{:.1} (n = {}, {} ms CPU)", f.ty, f.name, a.1, a.0, b.1, b.0, b.2 / 1_000_000);
        }
    }
    Ok(())
}

fn exh_count(_t: Tier) -> u64 {
    families().len() as u64
}

fn exh_case(idx: u64, ctx: &mut Ctx) -> CaseResult {
    scaling_case(idx as usize, ctx)
}

fn count_leaves(i: &Item) -> usize {
    match i {
        Item::Array(a) => a.iter().map(count_leaves).sum(),
        Item::Map(m) => m.iter().map(|(_, v)| count_leaves(v)).sum(),
        Item::Tag(_, x) => count_leaves(x),
        Item::Wrapped(w) => count_leaves(&w.inner),
        _ => 1,
    }
}

/// Replace the `at`-th leaf (map values, array elements; keys are left alone) by a related value of
/// another kind or content.
fn mutate_leaf(i: &mut Item, at: &mut usize, how: usize) -> bool {
    match i {
        Item::Array(a) => a.iter_mut().any(|x| mutate_leaf(x, at, how)),
        Item::Map(m) => m.iter_mut().any(|(_, v)| mutate_leaf(v, at, how)),
        Item::Tag(_, x) => mutate_leaf(x, at, how),
        Item::Wrapped(w) => mutate_leaf(&mut w.inner, at, how),
        leaf => {
            if *at > 0 {
                *at -= 1;
                return false;
            }
            *leaf = match (&*leaf, how) {
                (Item::Int(v), 0) => Item::Float(*v as f64),
                (Item::Int(v), 1) => Item::Float(*v as f64 + 0.5),
                (Item::Int(_), 2) => Item::Float(f64::NAN),
                (Item::Int(v), _) => Item::Int(if *v >= crate::cbor::INT_MAX { *v - 1 } else { *v + 1 }),
                (Item::Float(f), 0) | (Item::Float(f), 1) if f.is_finite() && f.abs() < 1e15 => Item::Int(*f as i128),
                (Item::Float(_), 2) => Item::Float(f64::INFINITY),
                (Item::Float(f), _) => Item::Float(-*f),
                (Item::Bytes(b), _) => {
                    let mut b = b.clone();
                    b.push(how as u8);
                    Item::Bytes(b)
                }
                (Item::Text(t), _) => Item::Text(format!("{}{}", t, how)),
                (Item::Bool(b), _) => Item::Bool(!*b),
                _ => Item::Int(how as i128),
            };
            true
        }
    }
}

/// Number of non-empty arrays in an item (byte-string-wrapped content excluded).
fn count_arrays(i: &Item) -> usize {
    match i {
        Item::Array(a) => (if a.is_empty() { 0 } else { 1 }) + a.iter().map(count_arrays).sum::<usize>(),
        Item::Map(m) => m.iter().map(|(k, v)| count_arrays(k) + count_arrays(v)).sum(),
        Item::Tag(_, x) => count_arrays(x),
        _ => 0,
    }
}

/// Repeat an element of the `at`-th non-empty array (pre-order) next to itself.
fn dup_in_array(i: &mut Item, at: &mut usize, which: u64) -> bool {
    match i {
        Item::Array(a) => {
            if !a.is_empty() {
                if *at == 0 {
                    let k = (which % a.len() as u64) as usize;
                    let e = a[k].clone();
                    a.insert(k + 1, e);
                    return true;
                }
                *at -= 1;
            }
            a.iter_mut().any(|x| dup_in_array(x, at, which))
        }
        Item::Map(m) => m.iter_mut().any(|(k, v)| dup_in_array(k, at, which) || dup_in_array(v, at, which)),
        Item::Tag(_, x) => dup_in_array(x, at, which),
        _ => false,
    }
}

/// A generated family: a valid item of a drawn type in which one, two or all maps (headers of any
/// bucket and level, keys, claims sets, opaque value maps, protected contents) are widened by n
/// fresh entries each, labels ascending / descending / scattered, integer or text.
fn widened_ladder(g: &mut Gen, ctx: &mut Ctx) -> CaseResult {
    let types = all_types();
    let cands: Vec<&crate::props::types::TypeOps> = types.iter().filter(|t| !matches!(t.shape, crate::props::types::Shape::Label | crate::props::types::Shape::RegLabel | crate::props::types::Shape::Any | crate::props::types::Shape::Party)).collect();
    let t = cands[g.below(cands.len())];
    let item = gen_for_shape(g, t.shape, &mut Faults::none());
    let nmaps = count_maps(&item);
    if nmaps == 0 {
        return Ok(());
    }
    let which: Vec<usize> = match g.below(3) {
        0 => vec![g.below(nmaps)],
        1 => vec![g.below(nmaps), g.below(nmaps)],
        _ => (0..nmaps.min(6)).collect(),
    };
    let order = g.below(3);
    let text = g.ratio(1, 4);
    let build = |n: usize| -> Vec<u8> {
        let mut it = item.clone();
        widen_maps(&mut it, &which, n / which.len().max(1) + 1, order, text);
        encode(&it)
    };
    ctx.class("scaling:generated-family");
    ctx.classf(format!("scaling:generated-family:{}-of-{}-maps", which.len().min(3), nmaps.min(4)));
    let name = format!("generated {} with maps {:?} of {} widened ({} labels, order {}): {}", t.name, which, nmaps, if text { "text" } else { "integer" }, order, hex_trunc(&encode(&item), 40));
    ladder(&Fam { name, ty: t.name, build: &build, lenient: true }, ctx)
}

fn case(g: &mut Gen, ctx: &mut Ctx) -> CaseResult {
    if !ctx.quiet && g.ratio(1, 1500) {
        return widened_ladder(g, ctx);
    }
    let aad = g.small_bytes();
    let payload = g.small_bytes();
    let b = match g.weighted(&[3, 6, 2, 1]) {
        0 => {
            ctx.class("mode:random-bytes");
            let n = match g.below(3) {
                0 => g.below(32),
                1 => g.below(256),
                _ => g.below(4096),
            };
            g.bytes(n)
        }
        1 => {
            ctx.class("mode:mutated-valid");
            let types = all_types();
            // half of the time one of the structures with nested lists
            let t = if g.bool() {
                let nested: Vec<&crate::props::types::TypeOps> = types.iter().filter(|t| matches!(t.name, "CoseSign" | "CoseEncrypt" | "CoseMac" | "CoseRecipient" | "CoseKeySet")).collect();
                if nested.is_empty() { &types[g.below(types.len())] } else { nested[g.below(nested.len())] }
            } else {
                &types[g.below(types.len())]
            };
            let mut f = if g.ratio(1, 4) { Faults::one() } else { Faults::none() };
            let mut item = gen_for_shape(g, t.shape, &mut f);
            // structure-level mutation: some element of some array repeated next to itself
            if g.ratio(1, 4) {
                let n = count_arrays(&item);
                if n > 0 {
                    let mut at = g.below(n);
                    let which = g.u64();
                    dup_in_array(&mut item, &mut at, which);
                    ctx.class("mutation:array-element-repeated");
                }
            }
            // a second value of the same type differing in one leaf (integer <-> float of the same or a
            // nearby value, NaN, other bytes / text): the two decoded values are compared with each other
            if g.ratio(1, 4) {
                let mut other = item.clone();
                let n = count_leaves(&other);
                if n > 0 {
                    let mut at = g.below(n);
                    let how = g.below(4);
                    mutate_leaf(&mut other, &mut at, how);
                    let (b1, b2) = (encode(&item), encode(&other));
                    ctx.class("compare-two-values");
                    match crate::run::catch(|| (t.compare)(&b1, &b2)) {
                        Ok(Ok(_)) => {}
                        Ok(Err(m)) => fail!("{}: {}", t.name, m),
                        Err(p) => fail!("{}: panic while comparing the values decoded from {} and {}: {}", t.name, hex_trunc(&b1, 60), hex_trunc(&b2, 60), p),
                    }
                }
            }
            // deterministic style half of the time (copies of an item then have identical bytes)
            let mut o = if g.bool() { StyleOpts::NONE } else { StyleOpts::ALL };
            o.undefined_for_null = g.bool();
            let (mut b, _) = styled(&item, g, o);
            if let (Some(tag), true) = (t.tag, g.ratio(1, 4)) {
                let mut tb = vec![];
                head(&mut tb, 6, tag);
                tb.extend_from_slice(&b);
                b = tb;
            }
            let nm = g.weighted(&[4, 2, 1, 1, 1, 1, 1, 1, 1]);
            for _ in 0..nm {
                if b.is_empty() {
                    break;
                }
                let at = g.below(b.len());
                match g.below(6) {
                    0 => b[at] ^= 1 << g.below(8),
                    1 => b[at] = g.byte(),
                    2 => b.truncate(at),
                    3 => {
                        // duplicate / splice a slice
                        let end = (at + 1 + g.below(16)).min(b.len());
                        let slice = b[at..end].to_vec();
                        let to = g.below(b.len() + 1);
                        for (k, x) in slice.into_iter().enumerate() {
                            b.insert(to + k, x);
                        }
                    }
                    4 => {
                        // replace a head by a huge length
                        b[at] = (b[at] & 0xe0) | 27;
                        for k in 0..8 {
                            b.insert(at + 1 + k, 0xff);
                        }
                    }
                    _ => {
                        b.insert(at, g.byte());
                    }
                }
            }
            b
        }
        2 => gen_shape_bomb(g, ctx),
        _ => {
            ctx.class("mode:size-depth-bomb");
            gen_bomb(g, ctx)
        }
    };
    ctx.classf(format!("len:{}", match b.len() { 0..=23 => "<24", 24..=255 => "<256", 256..=4095 => "<4K", 4096..=65535 => "<64K", _ => ">=64K" }));
    let r = run_all_entry_points(&b, &aad, &payload, ctx);
    // non-trivial: well-formed CBOR that some entry point accepts, or a bomb
    if ctx.quiet {
        return r;
    }
    let bomb = ctx.classes.keys().any(|k| k.starts_with("bomb:") || k == "mode:shape-bomb");
    let accepted = !ctx.classes.contains_key("accepted-by:0");
    if bomb || (accepted && b.len() < 100_000 && read_lenient(&b).is_ok()) {
        ctx.nontrivial(hash_bytes(&b));
        let desc: Vec<String> = ctx.classes.keys().filter(|k| k.starts_with("bomb:") || k.starts_with("mode:")).cloned().collect();
        ctx.sample_with(|| format!("{} {} bytes: {}", desc.join(","), b.len(), hex_trunc(&b, 48)));
    }
    r
}

pub fn bytes_case(b: &[u8], ctx: &mut Ctx) -> CaseResult {
    let aad = [b.len() as u8, 0x41];
    run_all_entry_points(b, &aad, b"detached", ctx)
}

pub fn property() -> Property {
    let _ = (encode, KINDS, Kind::Sign);
    Property {
        id: "C01",
        title: "Untrusted bytes never crash decoding or the processing that follows it",
        rule: "byte strings in four modes — uniform random (<= 4 KiB); valid wire messages of all 26 types (styled, optionally tagged) with 0-8 byte-level mutations (bit flips, overwrites, truncation, spliced slices, huge lengths, insertions) and structure-level repetition of an array element, siblings in nested lists sharing protected content, deterministic or free encoding style; \
               shape bombs (arity 0..7 arrays of arbitrary slots, counter-signature / key_ops / crit oddities); size/depth bombs up to 1 MiB (thorough 4 MiB): nesting to depth 2^17, huge declared lengths, chunk chains, wide flat arrays/maps/key sets/signer lists, \
               recipient nesting, and protected-header ⊃ counter-signature chains of depth up to 60000 in three shapes (protected / unprotected / alternating) x four forms (single counter-signature, array of one, array of two, alternating) inside nine carriers — through every decoding entry point (from_slice of every type, from_tagged_slice of the six tagged types, ProtectedHeader::from_cbor_bstr), \
               followed on accepted values by clone, ==, Debug, re-encode, drop and the to-be-signed / verify / MAC / decrypt helpers under their documented preconditions; in a supervised worker on a 2 MiB stack; \
               oracle: no panic, no process death, heap peak <= 4096n+2MiB and total allocation <= 16384n+8MiB per entry point (>= 8x the maxima observed on the unchanged tree, which the evidence reports) (deterministic proxy for linear time), a watchdog for hangs (inconclusive, not a violation); plus a scaling oracle: for 69 hand-written families of wide inputs (incl. label progressions whose stride is a power of two or the inverse of a well-known hash multiplier) (labels ascending, descending and scattered; n trailing KDF strings, n extras, n signers, n recipients, n keys, n chunks ...; two wide places of one input at once: both header buckets of each structure, body + signer / recipient, header + counter-signature ...) and for generated families (maps of a generated valid item widened) thread CPU time of decode + follow-ups is measured on a quadrupling ladder and two consecutive steps costing more than 11x (linear: 4x, quadratic: 16x) fail; \
               non-trivial = well-formed CBOR accepted by some entry point, or any bomb; distinct by input bytes",
        assumptions: &["'ordinary thread stack' = Rust's default 2 MiB for spawned threads, release build of the harness with overflow checks on", "time proportionality is checked through allocated bytes, a CPU-time quadrupling ladder on parametric wide inputs (threshold 11x on two consecutive steps) and a 120 s per-case watchdog"],
        exhaustive_domains: &["scaling ladder (n, 4n, 16n, ... up to 4*10^5 elements / 2 MiB / 1 s) over 69 parametric wide-input families"],
        case,
        exh_count,
        exh_case,
        bytes_case: Some(bytes_case),
        quick_cases: 120_000,
        thorough_cases: 1_500_000,
        max_tape: 8192,
    }
}

//! C07 — decode→encode reaches a fixed point in one step and loses nothing.

use crate::cbor::{hex_trunc, read_strict, StyleOpts};
use crate::gen::Faults;
use crate::props::common::*;
use crate::props::types::*;
use crate::run::{hash_bytes, CaseResult, Ctx, Property, Tier};
use crate::tape::Gen;

fn check_rt(what: &str, b: &[u8], rt: Result<RoundTrip, String>, ctx: &mut Ctx) -> CaseResult {
    let rt = match rt {
        Ok(rt) => rt,
        Err(e) if e.starts_with("own encoding") && crate::cbor::has_bignum_over_indefinite_bstr(b) => {
            // the same known finding in its other manifestation: the definite-length re-encoding of a
            // 16-byte bignum whose magnitude does not fit the library's integer is not even read back
            return ctx.known("decode-encode:bignum-tag-over-indefinite-length-bstr", "value changes across decode-encode-decode").map_err(|_| {
                format!("{}: {} [tag 2/3 over an indefinite-length byte string] (input {})", what, e, hex_trunc(b, 200))
            });
        }
        Err(e) => return Err(format!("{}: {} (input {})", what, e, hex_trunc(b, 200))),
    };
    if !rt.debug_eq && crate::cbor::has_bignum_over_indefinite_bstr(b) {
        // known finding: signature decided on the input shape alone
        return ctx.known("decode-encode:bignum-tag-over-indefinite-length-bstr", "value changes across decode-encode-decode").map_err(|_| {
            format!("{}: decode(encode(decode(b))) differs from decode(b) [tag 2/3 over an indefinite-length byte string]\n  b  = {}\n  b' = {}", what, hex_trunc(b, 300), hex_trunc(&rt.b1, 300))
        });
    }
    ensure!(rt.debug_eq, "{}: decode(encode(decode(b))) differs from decode(b)\n  b  = {}\n  b' = {}", what, hex_trunc(b, 300), hex_trunc(&rt.b1, 300));
    ensure!(rt.eq || rt.has_nan, "{}: decode(encode(v)) != v although no NaN is involved\n  b  = {}\n  b' = {}", what, hex_trunc(b, 300), hex_trunc(&rt.b1, 300));
    ensure!(rt.b2 == rt.b1, "{}: encoding is not a fixed point after one step\n  b   = {}\n  b'  = {}\n  b'' = {}", what, hex_trunc(b, 300), hex_trunc(&rt.b1, 300), hex_trunc(&rt.b2, 300));
    if let Err(e) = read_strict(&rt.b1) {
        fail!("{}: own encoding is not definite-length shortest-form CBOR ({:?}): {}", what, e, hex_trunc(&rt.b1, 300));
    }
    ctx.classf(format!("accepted:{}", what));
    if rt.b1 != b {
        ctx.class("input-not-canonical");
    }
    if rt.has_nan {
        ctx.class("has-nan");
    }
    if rt.b1 != b || b.len() > 8 {
        if ctx.nontrivial.is_empty() {
            // one key per input: distinct by bytes (several types may accept the same bytes)
            ctx.nontrivial(hash_bytes(b));
        }
        ctx.sample_with(|| format!("{}: {} -> {}", what, hex_trunc(b, 48), hex_trunc(&rt.b1, 48)));
    }
    Ok(())
}

fn check_all_types(b: &[u8], ctx: &mut Ctx) -> CaseResult {
    for t in all_types() {
        if let Some(rt) = (t.roundtrip)(b) {
            check_rt(t.name, b, rt, ctx)?;
        }
        if let Some(f) = t.roundtrip_tagged {
            if let Some(rt) = f(b) {
                check_rt(&format!("{} (tagged)", t.name), b, rt, ctx)?;
            }
        }
    }
    Ok(())
}

fn case(g: &mut Gen, ctx: &mut Ctx) -> CaseResult {
    if g.ratio(1, 25) {
        // counter-signature chains around the decoder's nesting limit, in every form, inside a carrier
        let d = 1 + g.below(14);
        let b = crate::props::c01::chain_bytes(d, g.below(3), g.below(4), g.below(9));
        ctx.classf(format!("gen:countersig-chain-depth-{}", if d <= 8 { "<=8" } else { ">8" }));
        return check_all_types(&b, ctx);
    }
    let types = all_types();
    let t = &types[g.below(types.len())];
    let mut f = if g.ratio(1, 8) { Faults::one() } else { Faults::none() };
    let item = gen_for_shape(g, t.shape, &mut f);
    let mut o = StyleOpts::ALL;
    o.undefined_for_null = true;
    if g.ratio(1, 6) {
        o = StyleOpts::NONE;
    }
    let (mut b, _) = styled(&item, g, o);
    let tagged = t.tag.is_some() && g.ratio(1, 3);
    if tagged {
        let mut tb = vec![];
        crate::cbor::head_w(&mut tb, 6, t.tag.unwrap(), *g.pick(&[0u8, 0, 1, 2, 8]));
        tb.extend_from_slice(&b);
        b = tb;
    }
    // byte mutations (kept whatever the result: rejected inputs are outside the domain)
    let nm = g.weighted(&[6, 2, 1]);
    for _ in 0..nm {
        if b.is_empty() {
            break;
        }
        let at = g.below(b.len());
        match g.below(3) {
            0 => b[at] = g.byte(),
            1 => b[at] ^= 1 << g.below(8),
            _ => {
                b.insert(at, g.byte());
            }
        }
        ctx.class("mutated");
    }
    ctx.classf(format!("gen:{}{}", t.name, if tagged { " (tagged)" } else { "" }));
    // the generated type first, then every other type on the same bytes (shapes are shared)
    check_all_types(&b, ctx)
}

/// Exhaustive short strings: all byte strings of length <= 2 (quick) / <= 3 (thorough), every type.
fn exh_count(t: Tier) -> u64 {
    match t {
        Tier::Quick => 1 + 256 + 65536,
        Tier::Thorough => 1 + 256 + 65536 + (1 << 24) / 256,
    }
}

fn exh_case(idx: u64, ctx: &mut Ctx) -> CaseResult {
    ctx.class("exh:short-strings");
    if idx == 0 {
        return check_all_types(&[], ctx);
    }
    if idx < 257 {
        return check_all_types(&[(idx - 1) as u8], ctx);
    }
    if idx < 257 + 65536 {
        let x = idx - 257;
        return check_all_types(&[(x >> 8) as u8, x as u8], ctx);
    }
    // thorough: blocks of 256 three-byte strings
    let x = idx - 257 - 65536;
    for last in 0..=255u8 {
        check_all_types(&[(x >> 8) as u8, x as u8, last], ctx)?;
    }
    ctx.evals = 256;
    Ok(())
}

pub fn bytes_case(b: &[u8], ctx: &mut Ctx) -> CaseResult {
    check_all_types(b, ctx)
}

pub fn property() -> Property {
    Property {
        id: "C07",
        title: "Decode-encode reaches a fixed point in one step and loses nothing",
        rule: "byte strings from the structured generators of all 26 types in non-canonical styles (wide heads, indefinite lengths, bignum integers, undefined for nil, floats of every width, NaNs, tags), \
               optionally tagged, with 0-2 byte mutations; every type (and tagged entry point) is tried on the same bytes; exhaustive: all byte strings of length <= 2 (thorough: <= 3); \
               non-trivial = accepted by some type and (the input was not already the crate's own encoding, or longer than 8 bytes); distinct by input bytes",
        assumptions: &["equality of decoded values: derived == unless a NaN is present, always equality of the Debug renderings (structural; prints every NaN alike)"],
        exhaustive_domains: &["all byte strings of length 0..2 (quick) or 0..3 (thorough) x all types and tagged entry points"],
        case,
        exh_count,
        exh_case,
        bytes_case: Some(bytes_case),
        quick_cases: 200_000,
        thorough_cases: 1_500_000,
        max_tape: 2048,
    }
}

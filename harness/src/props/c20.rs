//! C20 — canonicalising a key sorts its encoding and changes nothing else.

use crate::cbor::{cmp_len_first, cmp_lex, diag, encode, hex_trunc, read_strict, Item, StyleOpts};
use crate::gen::{gen_key, gen_value, Faults};
use crate::model::*;
use crate::props::common::*;
use crate::props::segment;
use crate::run::{hash_str, CaseResult, Ctx, Property, Tier};
use crate::tape::Gen;
use coset::cbor::value::Value;
use coset::{CborOrdering, CborSerializable, CoseKey, Label};

fn ordering(lenfirst: bool) -> CborOrdering {
    if lenfirst {
        CborOrdering::LengthFirstLexicographic
    } else {
        CborOrdering::Lexicographic
    }
}

/// All laws for one key (before canonicalisation) and one ordering.
fn check(key: &CoseKey, lenfirst: bool, ctx: &mut Ctx) -> CaseResult {
    let oname = if lenfirst { "length-first" } else { "lexicographic" };
    let before = key_to_model(key)?;
    let plain_bytes = key.clone().to_vec().map_err(|e| format!("well-formed key failed to encode: {:?}", e))?;
    let mut canon = key.clone();
    canon.canonicalize(ordering(lenfirst));
    let out = canon.clone().to_vec().map_err(|e| format!("canonicalised key failed to encode: {:?}", e))?;
    let read = read_strict(&out).map_err(|e| format!("canonicalised key encoding not strict ({:?})", e))?;
    let m = read.as_map().ok_or("key not a map")?;
    // (1) strictly ascending keys under the ordering, on own encodings
    let keys: Vec<Vec<u8>> = m.iter().map(|(k, _)| encode(k)).collect();
    for w in keys.windows(2) {
        let o = if lenfirst { cmp_len_first(&w[0], &w[1]) } else { cmp_lex(&w[0], &w[1]) };
        if o != std::cmp::Ordering::Less {
            // known finding domain: an extra parameter labelled 0 (sorts before the typed labels)
            let msg = format!("after canonicalize({}) the encoded map keys are not strictly ascending: {} then {}\n  output: {}", oname, hex_trunc(&w[0], 20), hex_trunc(&w[1], 20), diag(&read));
            if key.params.iter().any(|(l, _)| *l == Label::Int(0)) && w[1] == [0x00] {
                return ctx.known("canonicalize:extra-label-0-after-typed-labels", "label 0 emitted after the typed labels").map_err(|_| msg);
            }
            return Err(msg);
        }
    }
    // (2) the set of (label, value) pairs is unchanged
    let plain_read = read_strict(&plain_bytes).map_err(|e| format!("{:?}", e))?;
    let mut a: Vec<(Vec<u8>, Item)> = plain_read.as_map().ok_or("key not a map")?.iter().map(|(k, v)| (encode(k), v.clone())).collect();
    let mut b: Vec<(Vec<u8>, Item)> = m.iter().map(|(k, v)| (encode(k), v.clone())).collect();
    a.sort_by(|x, y| x.0.cmp(&y.0));
    b.sort_by(|x, y| x.0.cmp(&y.0));
    ensure!(a == b, "canonicalize({}) changed the set of label-value pairs\n  before: {}\n  after:  {}", oname, diag(&plain_read), diag(&read));
    // (3) decoding gives the key before canonicalisation up to params order, and the canonicalised key exactly
    let back = CoseKey::from_slice(&out).map_err(|e| format!("canonicalised key does not decode: {:?}", e))?;
    ensure!(same(&back, &canon), "decode(encode(canonicalised key)) differs from the canonicalised key\n  canon: {}\n  back:  {}", short(&canon, 600), short(&back, 600));
    let mut bm = key_to_model(&back)?;
    let mut am = before.clone();
    let sortp = |p: &mut Vec<(L, Item)>| p.sort_by(|x, y| x.0.enc().cmp(&y.0.enc()));
    sortp(&mut bm.params);
    sortp(&mut am.params);
    ensure!(bm == am, "canonicalize({}) changed the decoded key\n  before: {}\n  after:  {}", oname, short(&am, 600), short(&bm, 600));
    // (4) canonicalising again is a no-op
    let mut again = canon.clone();
    again.canonicalize(ordering(lenfirst));
    ensure!(same(&again, &canon), "canonicalising twice differs from canonicalising once ({})", oname);
    // (5) decode → encode reproduces the bytes
    let out2 = back.to_vec().map_err(|e| format!("{:?}", e))?;
    ensure!(out2 == out, "a canonicalised key does not decode and re-encode to the same bytes\n  first:  {}\n  second: {}", hex_trunc(&out, 200), hex_trunc(&out2, 200));
    Ok(())
}

const SUB_PALETTE: [i64; 9] = [6, 23, 24, 256, -1, -25, -257, -129, -256];
const SUB_TEXTS: [&str; 2] = ["a", "aa"];
const NSUB: usize = 11;

fn sub_label(i: usize) -> Label {
    if i < SUB_PALETTE.len() {
        Label::Int(SUB_PALETTE[i])
    } else {
        Label::Text(SUB_TEXTS[i - SUB_PALETTE.len()].to_string())
    }
}

/// Enumerate all ordered selections (permutations of subsets) of size <= 4 from 11 labels.
fn selections() -> &'static Vec<Vec<usize>> {
    static S: std::sync::OnceLock<Vec<Vec<usize>>> = std::sync::OnceLock::new();
    S.get_or_init(|| {
        let mut out = vec![vec![]];
        let mut frontier: Vec<Vec<usize>> = vec![vec![]];
        for _ in 0..4 {
            let mut next = vec![];
            for s in &frontier {
                for i in 0..NSUB {
                    if !s.contains(&i) {
                        let mut t = s.clone();
                        t.push(i);
                        next.push(t);
                    }
                }
            }
            out.extend(next.iter().cloned());
            frontier = next;
        }
        out
    })
}

fn exh_sizes() -> [u64; 3] {
    [selections().len() as u64 * 2, 16 * 2, 4 * 2]
}

fn exh_count(_t: Tier) -> u64 {
    exh_sizes().iter().sum()
}

fn exh_case(idx: u64, ctx: &mut Ctx) -> CaseResult {
    let (seg, i) = segment(idx, &exh_sizes()).ok_or("index out of range")?;
    let lenfirst = i % 2 == 1;
    let i = (i / 2) as usize;
    if seg == 0 {
        let sel = &selections()[i];
        let key = CoseKey {
            kty: coset::KeyType::Assigned(coset::iana::KeyType::EC2),
            params: sel.iter().enumerate().map(|(n, s)| (sub_label(*s), Value::from(n as u64))).collect(),
            ..Default::default()
        };
        ctx.class("exh:permutation-of-subset");
        if sel.len() >= 2 {
            ctx.nontrivial(hash_str(&format!("perm{:?}{}", sel, lenfirst)));
            ctx.sample_with(|| format!("params order {:?} ordering {}", sel.iter().map(|s| format!("{:?}", sub_label(*s))).collect::<Vec<_>>(), if lenfirst { "length-first" } else { "lexicographic" }));
        }
        check(&key, lenfirst, ctx)
    } else if seg == 2 {
        // explicit regression witnesses (KNOWN_FINDINGS.txt `fixed:` df25f7d): label 0 among the extras
        let zero = (Label::Int(0), Value::Bool(true));
        let params = match i {
            0 => vec![zero],
            1 => vec![(Label::Int(-1), Value::from(1)), zero],
            2 => vec![(Label::Text("a".into()), Value::Null), zero, (Label::Int(6), Value::Null)],
            _ => vec![zero, (Label::Int(24), Value::Null)],
        };
        let mut key = CoseKey { kty: coset::KeyType::Assigned(coset::iana::KeyType::OKP), params, ..Default::default() };
        if i >= 2 {
            key.key_id = vec![1];
            key.base_iv = vec![2];
        }
        ctx.class("regression:explicit-label-0");
        ctx.nontrivial(hash_str(&format!("zero{}{}", i, lenfirst)));
        ctx.sample_with(|| format!("explicit key with an extra labelled 0: {}", short(&key, 200)));
        check(&key, lenfirst, ctx)
    } else {
        // every subset of the typed fields {kid, alg, key_ops, base IV} with two extras out of order
        let bits = i;
        let mut key = CoseKey { kty: coset::KeyType::Text("kty".into()), params: vec![(Label::Text("z".into()), Value::Null), (Label::Int(-1), Value::from(1))], ..Default::default() };
        if bits & 1 != 0 {
            key.key_id = vec![1];
        }
        if bits & 2 != 0 {
            key.alg = Some(coset::Algorithm::PrivateUse(-70000));
        }
        if bits & 4 != 0 {
            key.key_ops.insert(coset::KeyOperation::Assigned(coset::iana::KeyOperation::Verify));
            key.key_ops.insert(coset::KeyOperation::Text("op".into()));
        }
        if bits & 8 != 0 {
            key.base_iv = vec![2, 3];
        }
        ctx.class("exh:typed-field-subset");
        ctx.nontrivial(hash_str(&format!("typed{}{}", bits, lenfirst)));
        check(&key, lenfirst, ctx)
    }
}

const EXTRA_LABELS: &[i64] = &[
    0, 6, 7, 23, 24, 255, 256, 1000, 65535, 65536, 70000, 1 << 32, -1, -2, -3, -4, -12, -24, -25, -129, -200, -256, -257, -32769, -65536, -65537,
    -(1 << 31) - 1, -(1 << 32), -(1 << 32) - 1, i64::MAX, i64::MIN,
];
const EXTRA_TEXTS: &[&str] = &["", "a", "b", "aa", "ab", "aaaaaaaaaaaaaaaaaaaaaaaa", "aaaaaaaaaaaaaaaaaaaaaaa", "é", "zz"];

/// Keys assembled through the public fields whose extras name a *vacant* typed parameter (kid, alg,
/// key_ops, Base IV given under `params` with values of the right kind, of the wrong kind, or half
/// right): canonicalising sorts the extras and changes nothing else — no field, no pair — under
/// either ordering, twice as well as once, and what encoded before still encodes, in order.
fn typed_label_in_params_case(g: &mut Gen, ctx: &mut Ctx) -> CaseResult {
    use coset::cbor::value::Value;
    let lenfirst = g.bool();
    let mut k = CoseKey { kty: coset::KeyType::Assigned(coset::iana::KeyType::OKP), ..Default::default() };
    let n = 1 + g.below(3);
    for _ in 0..n {
        let l = 2 + g.below(4) as i64;
        if k.params.iter().any(|(x, _)| *x == Label::Int(l)) {
            continue;
        }
        let v = match (l, g.below(4)) {
            (4, 0) => Value::Array(vec![Value::from(1), Value::from(2)]),
            (4, 1) => Value::Array(vec![Value::from(1), Value::from(99)]),
            (4, 2) => Value::Array(vec![Value::from(1), Value::from(1)]),
            (4, _) => Value::Array(vec![Value::from(2), Value::Float(2.5), Value::Text("x".into())]),
            (3, 0) => Value::from(-7),
            (3, 1) => Value::from(99),
            (3, _) => Value::Array(vec![Value::from(-7)]),
            (_, 0) => Value::Bytes(g.nonempty_bytes()),
            (_, 1) => Value::Bytes(vec![]),
            (_, _) => Value::Text("not bytes".into()),
        };
        k.params.push((Label::Int(l), v));
    }
    for _ in 0..g.below(3) {
        let l = Label::Int(*g.pick(&[-1i64, -2, -25, 24, 256, 70000]));
        if !k.params.iter().any(|(x, _)| *x == l) {
            let at = g.below(k.params.len() + 1);
            k.params.insert(at, (l, Value::from(g.range_i64(0, 9))));
        }
    }
    ctx.class("key:typed-label-among-extras");
    ctx.nontrivial(hash_str(&format!("{:?}{}", k, lenfirst)));
    ctx.sample_with(|| format!("canonicalize key with vacant typed labels among its extras: {}", short(&k, 300)));
    let before_enc = k.clone().to_vec();
    let mut c = k.clone();
    c.canonicalize(ordering(lenfirst));
    ensure!(c.kty == k.kty && c.key_id == k.key_id && c.alg == k.alg && c.key_ops == k.key_ops && c.base_iv == k.base_iv, "canonicalize changed a typed field of the key\n  before: {}\n  after:  {}", short(&k, 500), short(&c, 500));
    let key_of = |p: &(Label, Value)| format!("{:?}", p);
    let mut a: Vec<String> = k.params.iter().map(key_of).collect();
    let mut b: Vec<String> = c.params.iter().map(key_of).collect();
    a.sort();
    b.sort();
    ensure!(a == b, "canonicalize changed the extra parameters of the key\n  before: {}\n  after:  {}", short(&k, 500), short(&c, 500));
    let mut again = c.clone();
    again.canonicalize(ordering(lenfirst));
    ensure!(same(&again, &c), "canonicalising twice differs from canonicalising once");
    match (before_enc, c.clone().to_vec()) {
        (Ok(_), Err(e)) => fail!("a key that encodes no longer encodes once canonicalised: {:?}\n  key: {}", e, short(&c, 500)),
        (_, Ok(out)) => {
            let read = read_strict(&out).map_err(|e| format!("canonicalised key encoding not strict ({:?})", e))?;
            let keys: Vec<Vec<u8>> = read.as_map().ok_or("key not a map")?.iter().map(|(k, _)| encode(k)).collect();
            for w in keys.windows(2) {
                let o = if lenfirst { cmp_len_first(&w[0], &w[1]) } else { cmp_lex(&w[0], &w[1]) };
                ensure!(o == std::cmp::Ordering::Less, "after canonicalize the encoded map keys are not strictly ascending: {} then {}\n  output: {}", hex_trunc(&w[0], 20), hex_trunc(&w[1], 20), diag(&read));
            }
        }
        (Err(_), Err(_)) => {}
    }
    Ok(())
}

fn case(g: &mut Gen, ctx: &mut Ctx) -> CaseResult {
    if g.ratio(1, 15) {
        return typed_label_in_params_case(g, ctx);
    }
    let lenfirst = g.bool();
    let by_decoding = g.ratio(1, 3);
    let key = if by_decoding {
        // a generated valid key, decoded from styled bytes
        let item = gen_key(g, &mut Faults::none());
        if m_key(&item).is_err() {
            return Ok(());
        }
        let (bytes, _) = styled(&item, g, StyleOpts::ALL);
        ctx.class("key:decoded");
        CoseKey::from_slice(&bytes).map_err(|e| format!("valid key rejected: {:?}", e))?
    } else {
        ctx.class("key:constructed");
        let mut k = CoseKey::default();
        k.kty = match g.below(3) {
            0 => coset::KeyType::Assigned(coset::iana::KeyType::OKP),
            1 => coset::KeyType::Assigned(coset::iana::KeyType::Symmetric),
            _ => coset::KeyType::Text(g.text()),
        };
        if g.bool() {
            k.key_id = g.nonempty_bytes();
        }
        if g.bool() {
            k.alg = Some(coset::Algorithm::Assigned(coset::iana::Algorithm::ES256));
        }
        if g.bool() {
            k.key_ops.insert(coset::KeyOperation::Assigned(coset::iana::KeyOperation::Sign));
            if g.bool() {
                k.key_ops.insert(coset::KeyOperation::Text(g.text()));
            }
        }
        if g.bool() {
            k.base_iv = g.nonempty_bytes();
        }
        // mostly 0-8 extras; sometimes dozens (of mixed encoded lengths)
        let many = g.ratio(1, 6);
        let n = if many { 20 + g.below(60) } else { g.below(9) };
        if many {
            ctx.class("key:many-extras");
        }
        for _ in 0..n {
            let l = if many {
                match g.below(4) {
                    0 => Label::Int(g.range_i64(6, 23)),
                    1 => Label::Int(g.range_i64(-24, 300)),
                    2 => Label::Int(g.range_i64(-70000, 70000)),
                    _ => Label::Text(format!("{}{}", g.pick(&["", "a", "bb", "ccc"]), g.range_i64(0, 99))),
                }
            } else {
                match g.weighted(&[5, 3, 1, 1]) {
                0 => Label::Int(*g.pick(EXTRA_LABELS)),
                1 => Label::Text((*g.pick(EXTRA_TEXTS)).to_string()),
                2 => Label::Int(g.i64()),
                _ => Label::Text(g.text()),
                }
            };
            // well-formed: distinct labels, none of a typed field
            if matches!(l, Label::Int(1..=5)) || k.params.iter().any(|(x, _)| *x == l) {
                continue;
            }
            let v = crate::conv::item_to_value(&gen_value(g, 1, false)).unwrap_or(Value::Null);
            k.params.push((l, v));
        }
        k
    };
    // sometimes the key arrives already arranged by the *other* ordering (or by this one)
    let mut key = key;
    match g.below(6) {
        0 | 1 => {
            key.canonicalize(ordering(!lenfirst));
            ctx.class("key:pre-arranged-by-other-ordering");
        }
        2 => {
            key.canonicalize(ordering(lenfirst));
            key.params.reverse();
            ctx.class("key:pre-arranged-descending");
        }
        _ => {}
    }
    let key = key;
    ctx.class(if lenfirst { "ordering:length-first" } else { "ordering:lexicographic" });
    ctx.classf(format!("extras:{}", match key.params.len() { n @ 0..=8 => n.to_string(), 9..=32 => "9-32".to_string(), _ => ">32".to_string() }));
    let mut sorted = key.clone();
    sorted.canonicalize(ordering(lenfirst));
    let reordered = !same(&sorted, &key);
    let typed = !key.key_id.is_empty() || key.alg.is_some() || !key.key_ops.is_empty() || !key.base_iv.is_empty();
    if (key.params.len() >= 2 && reordered) || (typed && !key.params.is_empty()) {
        ctx.nontrivial(hash_str(&format!("{:?}{}", key, lenfirst)));
        ctx.sample_with(|| format!("{} {}", if lenfirst { "length-first" } else { "lexicographic" }, short(&key, 300)));
    }
    if reordered {
        ctx.class("canonicalize-reorders");
    }
    check(&key, lenfirst, ctx)?;
    // an in-memory key may also repeat a label among its extras (it cannot be encoded, but it can
    // be canonicalised): nothing but the order changes there either
    if !key.params.is_empty() && g.ratio(1, 8) {
        let mut k = key.clone();
        let n = 1 + g.below(2);
        for _ in 0..n {
            let from = g.below(k.params.len());
            let l = k.params[from].0.clone();
            let at = g.below(k.params.len() + 1);
            k.params.insert(at, (l, Value::from(g.range_i64(1000, 1009))));
        }
        ctx.class("key:repeated-extra-label");
        let mut c = k.clone();
        c.canonicalize(ordering(lenfirst));
        let pairs = |k: &CoseKey| -> Vec<String> {
            let mut v: Vec<String> = k.params.iter().map(|(l, v)| format!("{:?}={:?}", l, v)).collect();
            v.sort();
            v
        };
        ensure!(pairs(&c) == pairs(&k), "canonicalize changed the label-value pairs of a key that repeats a label\n  before: {:?}\n  after:  {:?}", k.params, c.params);
        let mut typed_only_before = k.clone();
        typed_only_before.params.clear();
        let mut typed_only_after = c.clone();
        typed_only_after.params.clear();
        ensure!(same(&typed_only_before, &typed_only_after), "canonicalize changed a typed field");
        for w in c.params.windows(2) {
            let (a, b) = (w[0].0.clone().to_vec().map_err(|e| format!("{:?}", e))?, w[1].0.clone().to_vec().map_err(|e| format!("{:?}", e))?);
            let o = if lenfirst { cmp_len_first(&a, &b) } else { cmp_lex(&a, &b) };
            ensure!(o != std::cmp::Ordering::Greater, "canonicalize left the extras of a key that repeats a label out of order: {:?}", c.params.iter().map(|(l, _)| l.clone()).collect::<Vec<_>>());
        }
        let mut again = c.clone();
        again.canonicalize(ordering(lenfirst));
        ensure!(same(&again, &c), "canonicalising twice differs from canonicalising once (key repeating a label)");
    }
    Ok(())
}

pub fn property() -> Property {
    Property {
        id: "C20",
        title: "Canonicalising a key sorts its encoding and changes nothing else",
        rule: "well-formed keys (constructed: every subset of kid/alg/key_ops/Base IV x kty class x 0-8 extras (one case in six: 20-80 extras of mixed encoded lengths) from a palette of small, large, negative, extreme and text labels in a tape-drawn order; or decoded from styled bytes) x both orderings; \
               exhaustive: every permutation of every subset of size <= 4 of an 11-label palette (one- and two-byte integers of both signs incl. -129 and -256, texts), and every subset of the typed fields; oracle: encoded keys strictly ascending under the ordering computed on own encodings, pair set unchanged, decoded key unchanged, idempotence, byte-stable re-encoding; in-memory keys that repeat a label among their extras: pair multiset, typed fields and idempotence; \
               non-trivial = >= 2 extras that canonicalisation reorders, or extras together with typed fields; distinct by (key, ordering)",
        assumptions: &["orderings computed by the harness on its own deterministic encodings of the emitted map keys (strict reader)"],
        exhaustive_domains: &["all permutations of all subsets (size <= 4) of 11 extra labels x 2 orderings", "all 16 subsets of the typed fields x 2 orderings", "explicit witnesses of the repaired label-0 defect"],
        case,
        exh_count,
        exh_case,
        bytes_case: None,
        quick_cases: 300_000,
        thorough_cases: 3_000_000,
        max_tape: 2048,
    }
}

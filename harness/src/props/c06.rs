//! C06 — what is signed, MACed or encrypted is what is later verified or decrypted.
//!
//! Histories: tape-decoded sequences of builder calls (setters and create helpers in any order and
//! multiplicity) interpreted against a model of the builder state with recording closures, then
//! build → encode (tagged or not) → decode → verify/decrypt with equal and perturbed inputs.

use crate::cbor::hex_trunc;
use crate::props::common::{same, short};
use crate::props::structs::*;
use crate::run::{catch, hash_str, no_exh_case, no_exh_count, CaseResult, Ctx, Property};
use crate::tape::Gen;
use coset::cbor::value::Value;
use coset::*;
use std::cell::RefCell;
use std::rc::Rc;

#[derive(Clone, Debug)]
enum Op {
    Protected(Header),
    Unprotected(Header),
    /// payload / ciphertext setter
    Content(Vec<u8>),
    /// signature / tag setter
    Auth(Vec<u8>),
    AddSignature(CoseSignature),
    AddRecipient(CoseRecipient),
    /// create_signature / create_tag / create_ciphertext (+ try_ forms; `fail` = the closure's error)
    Create { aad: Vec<u8>, plaintext: Vec<u8>, out: Vec<u8>, fallible: bool, fail: Option<u8>, ctx: usize },
    CreateDetached { payload: Vec<u8>, aad: Vec<u8>, out: Vec<u8>, fallible: bool, fail: Option<u8> },
    AddCreated { sig: CoseSignature, aad: Vec<u8>, out: Vec<u8>, fallible: bool, fail: Option<u8> },
    AddDetached { sig: CoseSignature, payload: Vec<u8>, aad: Vec<u8>, out: Vec<u8>, fallible: bool, fail: Option<u8> },
}

fn gen_small_header(g: &mut Gen) -> Header {
    let mut h = Header::default();
    if g.ratio(1, 4) {
        return h;
    }
    if g.ratio(1, 12) {
        // nothing but counter-signatures (one or two, built): still a header with content
        for i in 0..1 + g.below(2) {
            h.counter_signatures.push(CoseSignature { protected: ProtectedHeader::default(), unprotected: Header { key_id: vec![0x60 + i as u8], ..Default::default() }, signature: g.nonempty_bytes() });
        }
        return h;
    }
    if g.ratio(1, 25) {
        // a header whose *encoded map* has a length on a CBOR length-class boundary: {4: kid} takes
        // 2 + head(n) + n bytes
        let target = *g.pick(&[23usize, 24, 25, 255, 256, 257, 65535, 65536, 65537]);
        let n = match target {
            0..=25 => target - 3,
            26..=258 => target - 4,
            259..=65538 => target - 5,
            _ => target - 7,
        };
        h.key_id = (0..n).map(|i| (i * 7 + 1) as u8).collect();
        return h;
    }
    if g.bool() {
        // any registered algorithm (the whole IANA table), a private-use number or a text name
        h.alg = Some(match g.weighted(&[4, 1, 1, 3]) {
            3 => Algorithm::Assigned(*g.pick(&[
                iana::Algorithm::ES256, iana::Algorithm::ES384, iana::Algorithm::ES512, iana::Algorithm::ES256K, iana::Algorithm::EdDSA,
                iana::Algorithm::HMAC_256_64, iana::Algorithm::HMAC_256_256, iana::Algorithm::AES_MAC_128_64, iana::Algorithm::A128GCM,
                iana::Algorithm::A128KW, iana::Algorithm::Direct, iana::Algorithm::PS256,
            ])),
            0 => {
                let t = crate::registry::ALGORITHM;
                let n = t[g.below(t.len())].1;
                match <iana::Algorithm as coset::iana::EnumI64>::from_i64(n) {
                    Some(a) => Algorithm::Assigned(a),
                    None => Algorithm::PrivateUse(-70000),
                }
            }
            1 => Algorithm::PrivateUse(-65537 - g.range_i64(0, 1000)),
            _ => Algorithm::Text(g.text()),
        });
    }
    if g.bool() {
        h.key_id = g.nonempty_bytes();
    }
    match g.below(5) {
        0 | 1 => h.iv = g.nonempty_bytes(),
        2 => h.partial_iv = g.nonempty_bytes(),
        _ => {}
    }
    if g.ratio(1, 3) {
        h.content_type = Some(ContentType::Text("a/b".into()));
    }
    // extras: small integers mostly; sometimes values whose decoded form differs from what was built
    // (a NaN never compares equal to itself; a small bignum tag comes back as a plain integer; floats
    // come back in their shortest width) — none of which changes what the bytes on the wire are
    let n = if g.ratio(1, 30) { 20 + g.below(12) } else { g.weighted(&[6, 3, 1, 1]) };
    for i in 0..n {
        let v = match g.weighted(&[6, 1, 1, 1, 1]) {
            0 => Value::from(g.range_i64(-5, 5)),
            1 => Value::Float(*g.pick(&[f64::NAN, -0.0, 0.5, 1.0e300, f64::INFINITY])),
            2 => Value::Tag(if g.bool() { 2 } else { 3 }, Box::new(Value::Bytes(g.nonempty_bytes().into_iter().take(8).collect()))),
            3 => Value::Array(vec![Value::Float(f64::NAN), Value::Tag(2, Box::new(Value::Bytes(vec![1])))]),
            _ => Value::Map(vec![(Value::from(2), Value::Null), (Value::from(1), Value::Float(f64::NAN))]),
        };
        h.rest.push((Label::Int(100 + 60 * i as i64 + g.range_i64(0, 50)), v));
    }
    h
}

fn built(h: &Header) -> ProtectedHeader {
    ProtectedHeader { original_data: None, header: h.clone() }
}

/// Bytes a built protected header contributes: h'' when empty, the encoded map otherwise
/// (that this is the emitted slot content is C03/C11's business).
fn pbytes(p: &ProtectedHeader) -> Vec<u8> {
    if let Some(w) = &p.original_data {
        return w.clone();
    }
    // (emptiness judged here, field by field, not by the crate's own `is_empty`)
    let h = &p.header;
    if h.alg.is_none() && h.crit.is_empty() && h.content_type.is_none() && h.key_id.is_empty() && h.iv.is_empty() && h.partial_iv.is_empty() && h.counter_signatures.is_empty() && h.rest.is_empty() {
        vec![]
    } else {
        let out = p.header.clone().to_vec().expect("well-formed header encodes");
        assert!(out != [0xa0], "non-empty header encodes to an empty map");
        out
    }
}

/// The header as a *received* protected header: its map in a drawn, mostly non-canonical encoding
/// (entry order, head widths, indefinite lengths; h'' / a0 / bf ff when empty), decoded by the
/// crate, so that it carries retained bytes that differ from the crate's own encoding.
fn received(g: &mut Gen, h: &Header) -> ProtectedHeader {
    let w = if h.is_empty() && g.bool() {
        vec![]
    } else {
        let own = match h.clone().to_vec() {
            Ok(b) => b,
            Err(_) => return built(h),
        };
        let mut item = match crate::cbor::read_strict(&own) {
            Ok(i) => i,
            Err(_) => return built(h),
        };
        if let crate::cbor::Item::Map(m) = &mut item {
            match g.below(3) {
                0 => {}
                1 => m.reverse(),
                _ => {
                    let k = g.below(m.len().max(1));
                    m.rotate_left(k);
                }
            }
        }
        crate::cbor::encode_styled(&mut item, g, crate::cbor::StyleOpts::ALL)
    };
    match ProtectedHeader::from_cbor_bstr(Value::Bytes(w)) {
        Ok(p) if p.header == *h => p,
        _ => built(h),
    }
}

/// Protected header of a signer / recipient description: built, or (one in four) received.
fn gen_prot_desc(g: &mut Gen) -> ProtectedHeader {
    let h = gen_small_header(g);
    if g.ratio(1, 4) {
        received(g, &h)
    } else {
        built(&h)
    }
}

fn gen_sig(g: &mut Gen) -> CoseSignature {
    CoseSignature { protected: gen_prot_desc(g), unprotected: gen_small_header(g), signature: gen_out(g) }
}

fn gen_rcp(g: &mut Gen) -> CoseRecipient {
    let mut r = CoseRecipient { protected: gen_prot_desc(g), unprotected: gen_small_header(g), ciphertext: if g.bool() { Some(g.small_bytes()) } else { None }, recipients: vec![] };
    if g.ratio(1, 8) {
        // a recipient of the recipient (one or two levels down) whose header carries a chain of
        // counter-signatures as deep as a header may carry (8): the two kinds of nesting are unrelated
        let depth = *g.pick(&[1usize, 2, 4, 7, 8, 8]);
        let mut sig = CoseSignature { signature: vec![0x5e], ..Default::default() };
        for i in 1..depth {
            let h = Header { counter_signatures: vec![sig], ..Default::default() };
            sig = if g.bool() { CoseSignature { protected: built(&h), signature: vec![i as u8], ..Default::default() } } else { CoseSignature { unprotected: h, signature: vec![i as u8], ..Default::default() } };
        }
        let h = Header { counter_signatures: vec![sig], ..Default::default() };
        let mut inner = if g.bool() { CoseRecipient { protected: built(&h), ciphertext: Some(vec![1]), ..Default::default() } } else { CoseRecipient { unprotected: h, ciphertext: None, ..Default::default() } };
        for _ in 0..g.below(2) {
            inner = CoseRecipient { recipients: vec![inner], ciphertext: Some(vec![2]), ..Default::default() };
        }
        r.recipients.push(inner);
    }
    r
}

#[derive(Clone, Copy, PartialEq, Eq, Debug)]
enum Carrier {
    Sign1,
    Sign,
    Mac,
    Mac0,
    Encrypt,
    Encrypt0,
    Recipient,
}

/// AAD / payload bytes: mostly short, sometimes on a CBOR length-class boundary.
fn gen_data(g: &mut Gen) -> Vec<u8> {
    if g.ratio(1, 400) {
        // around the powers of two where an implementation might switch strategy (64 KiB, 1 MiB)
        let n = *g.pick(&[(1usize << 16) - 1, 1 << 16, (1 << 20) - 1, 1 << 20, (1 << 20) + 1, 1 << 21]);
        let seed = g.bytes(5);
        return (0..n).map(|i| seed[i % 5] ^ (i / 5) as u8).collect();
    }
    if g.ratio(1, 12) {
        gen_class_bytes(g)
    } else {
        g.small_bytes()
    }
}

/// What a signer / MAC / cipher closure returns: mostly arbitrary short bytes; sometimes bytes
/// shaped like real outputs — a DER ECDSA-Sig-Value, fixed-size r||s, tags and MACs of the
/// registered sizes (and one octet more or less).
fn gen_out(g: &mut Gen) -> Vec<u8> {
    if !g.ratio(1, 8) {
        return g.small_bytes();
    }
    match g.below(3) {
        0 => {
            let int = |g: &mut Gen| -> Vec<u8> {
                let n = *g.pick(&[1usize, 20, 31, 32, 33, 48, 66]);
                let mut v = g.bytes(n);
                v[0] |= 1;
                if v[0] & 0x80 != 0 {
                    v.insert(0, 0);
                }
                let mut out = vec![0x02, v.len() as u8];
                out.extend_from_slice(&v);
                out
            };
            let mut body = int(g);
            body.extend_from_slice(&int(g));
            let mut out = vec![0x30];
            if body.len() >= 128 {
                out.push(0x81);
            }
            out.push(body.len() as u8);
            out.extend_from_slice(&body);
            out
        }
        1 => {
            let n = *g.pick(&[64usize, 96, 132, 63, 65]);
            g.bytes(n)
        }
        _ => {
            let n = *g.pick(&[8usize, 16, 32, 48, 64, 9, 17, 33]);
            g.bytes(n)
        }
    }
}

fn gen_op(g: &mut Gen, c: Carrier) -> Op {
    let fail = |g: &mut Gen| if g.ratio(1, 12) { Some(g.byte()) } else { None };
    let k = g.weighted(&[3, 2, 3, 2, 2, 5, 3]);
    match k {
        0 => Op::Protected(gen_small_header(g)),
        1 => Op::Unprotected(gen_small_header(g)),
        2 => Op::Content(gen_data(g)),
        3 => match c {
            Carrier::Sign1 | Carrier::Mac | Carrier::Mac0 => Op::Auth(gen_out(g)),
            _ => Op::Unprotected(gen_small_header(g)),
        },
        4 => match c {
            Carrier::Sign => Op::AddSignature(gen_sig(g)),
            Carrier::Mac | Carrier::Encrypt | Carrier::Recipient => Op::AddRecipient(gen_rcp(g)),
            _ => Op::Content(g.small_bytes()),
        },
        5 => match c {
            Carrier::Sign => {
                let fallible = g.bool();
                Op::AddCreated { sig: gen_sig(g), aad: gen_data(g), out: gen_out(g), fallible, fail: if fallible { fail(g) } else { None } }
            }
            _ => {
                let fallible = g.bool();
                Op::Create { aad: gen_data(g), plaintext: g.small_bytes(), out: gen_out(g), fallible, fail: if fallible { fail(g) } else { None }, ctx: if g.ratio(1, 10) { g.below(2) } else { 2 + g.below(3) } }
            }
        },
        _ => match c {
            Carrier::Sign1 => {
                let fallible = g.bool();
                Op::CreateDetached { payload: gen_data(g), aad: gen_data(g), out: gen_out(g), fallible, fail: if fallible { fail(g) } else { None } }
            }
            Carrier::Sign => {
                let fallible = g.bool();
                Op::AddDetached { sig: gen_sig(g), payload: gen_data(g), aad: gen_data(g), out: gen_out(g), fallible, fail: if fallible { fail(g) } else { None } }
            }
            _ => Op::Content(g.small_bytes()),
        },
    }
}

/// What a creator closure was handed, and what the model says it must have been handed.
#[derive(Clone, Debug)]
struct Created {
    /// signer index for COSE_Sign, 0 otherwise
    index: usize,
    aad: Vec<u8>,
    detached: Option<Vec<u8>>,
    plaintext: Vec<u8>,
    seen: Vec<u8>,
    seen_plaintext: Option<Vec<u8>>,
    expected: Vec<u8>,
    /// a protected-header / payload setter came after this call
    stale: bool,
    ctx: usize,
}

enum Step<B> {
    Next(B),
    /// fallible creator returned its error: no builder
    Failed(u8),
}

const ENC: [EncryptionContext; 5] = [EncryptionContext::CoseEncrypt, EncryptionContext::CoseEncrypt0, EncryptionContext::EncRecipient, EncryptionContext::MacRecipient, EncryptionContext::RecRecipient];

type Log = Rc<RefCell<Vec<(Vec<u8>, Option<Vec<u8>>)>>>;

fn rec1(log: &Log, out: Vec<u8>) -> impl FnOnce(&[u8]) -> Vec<u8> {
    let log = log.clone();
    move |d: &[u8]| {
        log.borrow_mut().push((d.to_vec(), None));
        out
    }
}
fn rec1f(log: &Log, out: Vec<u8>, fail: Option<u8>) -> impl FnOnce(&[u8]) -> Result<Vec<u8>, u8> {
    let log = log.clone();
    move |d: &[u8]| {
        log.borrow_mut().push((d.to_vec(), None));
        match fail {
            Some(e) => Err(e),
            None => Ok(out),
        }
    }
}
fn rec2(log: &Log, out: Vec<u8>) -> impl FnOnce(&[u8], &[u8]) -> Vec<u8> {
    let log = log.clone();
    move |p: &[u8], a: &[u8]| {
        log.borrow_mut().push((a.to_vec(), Some(p.to_vec())));
        out
    }
}
fn rec2f(log: &Log, out: Vec<u8>, fail: Option<u8>) -> impl FnOnce(&[u8], &[u8]) -> Result<Vec<u8>, u8> {
    let log = log.clone();
    move |p: &[u8], a: &[u8]| {
        log.borrow_mut().push((a.to_vec(), Some(p.to_vec())));
        match fail {
            Some(e) => Err(e),
            None => Ok(out),
        }
    }
}

/// Interpret `ops` on the real builder `B` and on the model `M` in lock step.
/// Returns None when the history ended early in a way the model predicted (refusal or failing
/// creator), Some((built, model, created)) otherwise.
macro_rules! interpret {
    ($carrier:expr, $builder:ty, $model:ty, $ops:expr, $ctx:expr,
     real: |$b:ident, $op:ident, $log:ident| $real:expr,
     model: |$m:ident, $mop:ident, $created:ident| $mdl:expr) => {{
        let mut cur: Option<$builder> = Some(<$builder>::new());
        let mut $m: $model = <$model>::default();
        let mut $created: Vec<Created> = vec![];
        let mut ended = false;
        for (i, $mop) in $ops.iter().enumerate() {
            let $mop: Op = $mop.clone();
            // model first: predicted refusal / staleness / expected creator bytes
            let is_setter = matches!($mop, Op::Protected(_) | Op::Content(_));
            let pre_len = $created.len();
            let predicted: Result<(), &'static str> = $mdl;
            let $log: Log = Rc::new(RefCell::new(vec![]));
            let $b = cur.take().unwrap();
            let $op = $ops[i].clone();
            let fail_code = match &$op {
                Op::Create { fail, .. } | Op::CreateDetached { fail, .. } | Op::AddCreated { fail, .. } | Op::AddDetached { fail, .. } => *fail,
                _ => None,
            };
            let lg = $log.clone();
            let r: Result<Step<$builder>, String> = catch(move || {
                let $log = lg;
                $real
            });
            match (r, predicted) {
                (Err(_), Err(_why)) => {
                    // documented refusal: the creator must not have been called
                    ensure!($log.borrow().is_empty(), "{:?}: the call was refused ({}) but the caller's function was still invoked", $carrier, _why);
                    $ctx.class("history:ended-by-documented-refusal");
                    ended = true;
                    break;
                }
                (Err(p), Ok(())) => fail!("{:?}: call #{} {:?} panicked ({}) although no refusal is documented\n  history: {}", $carrier, i, $ops[i], p, short(&$ops, 600)),
                (Ok(_), Err(why)) => fail!("{:?}: call #{} {:?} must be refused ({}) but was carried out\n  history: {}", $carrier, i, $ops[i], why, short(&$ops, 600)),
                (Ok(Step::Failed(code)), Ok(())) => {
                    ensure!(fail_code == Some(code), "{:?}: fallible helper returned error {} but the creator function failed with {:?}", $carrier, code, fail_code);
                    $ctx.class("history:ended-by-failing-creator");
                    // the creator was still handed the right bytes
                    if $created.len() > pre_len {
                        let c = $created.last().unwrap();
                        let l = $log.borrow();
                        ensure!(l.len() == 1 && l[0].0 == c.expected, "{:?}: failing creator was handed {} instead of {}", $carrier, l.get(0).map(|x| hex_trunc(&x.0, 80)).unwrap_or_default(), hex_trunc(&c.expected, 80));
                    }
                    ended = true;
                    break;
                }
                (Ok(Step::Next(nb)), Ok(())) => {
                    ensure!(fail_code.is_none(), "{:?}: the creator function failed with {:?} but the fallible helper still produced a builder", $carrier, fail_code);
                    cur = Some(nb);
                    if $created.len() > pre_len {
                        let l = $log.borrow();
                        ensure!(l.len() == 1, "{:?}: creator function called {} times by one helper", $carrier, l.len());
                        let c = $created.last_mut().unwrap();
                        c.seen = l[0].0.clone();
                        c.seen_plaintext = l[0].1.clone();
                        ensure!(c.seen == c.expected, "{:?}: call #{} handed the creator function\n  {}\ninstead of the structure of the state at the time of the call\n  {}\n  history: {}", $carrier, i, hex_trunc(&c.seen, 120), hex_trunc(&c.expected, 120), short(&$ops, 600));
                    } else {
                        ensure!($log.borrow().is_empty(), "{:?}: a setter invoked a caller function", $carrier);
                        if is_setter {
                            for c in $created.iter_mut() {
                                c.stale = true;
                            }
                        }
                    }
                }
            }
        }
        if ended {
            None
        } else {
            Some((cur.take().unwrap().build(), $m, $created))
        }
    }};
}

fn perturb(b: &[u8]) -> Vec<u8> {
    let mut v = b.to_vec();
    v.push(0x5a);
    v
}

fn expect_same(what: &str, got: &[u8], want: &[u8]) -> CaseResult {
    ensure!(got == want, "{}:\n  handed over: {}\n  expected:    {}", what, hex_trunc(got, 160), hex_trunc(want, 160));
    Ok(())
}

// ---- COSE_Sign1 ------------------------------------------------------------------------------

fn run_sign1(g: &mut Gen, ops: &[Op], ctx: &mut Ctx) -> CaseResult {
    let r = interpret!(Carrier::Sign1, CoseSign1Builder, CoseSign1, ops, ctx,
        real: |b, op, log| match op {
            Op::Protected(h) => Step::Next(b.protected(h)),
            Op::Unprotected(h) => Step::Next(b.unprotected(h)),
            Op::Content(p) => Step::Next(b.payload(p)),
            Op::Auth(s) => Step::Next(b.signature(s)),
            Op::Create { aad, out, fallible: false, .. } => Step::Next(b.create_signature(&aad, rec1(&log, out))),
            Op::Create { aad, out, fallible: true, fail, .. } => match b.try_create_signature(&aad, rec1f(&log, out, fail)) { Ok(b) => Step::Next(b), Err(e) => Step::Failed(e) },
            Op::CreateDetached { payload, aad, out, fallible: false, .. } => Step::Next(b.create_detached_signature(&payload, &aad, rec1(&log, out))),
            Op::CreateDetached { payload, aad, out, fallible: true, fail } => match b.try_create_detached_signature(&payload, &aad, rec1f(&log, out, fail)) { Ok(b) => Step::Next(b), Err(e) => Step::Failed(e) },
            _ => Step::Next(b),
        },
        model: |m, op, created| match op {
            Op::Protected(h) => { m.protected = built(&h); Ok(()) }
            Op::Unprotected(h) => { m.unprotected = h; Ok(()) }
            Op::Content(p) => { m.payload = Some(p); Ok(()) }
            Op::Auth(s) => { m.signature = s; Ok(()) }
            Op::Create { aad, out, fail, .. } => {
                let expected = ref_sig_structure("Signature1", &pbytes(&m.protected), None, &aad, m.payload.as_deref().unwrap_or(&[]));
                created.push(Created { index: 0, aad, detached: None, plaintext: vec![], seen: vec![], seen_plaintext: None, expected, stale: false, ctx: 0 });
                if fail.is_none() { m.signature = out; }
                Ok(())
            }
            Op::CreateDetached { payload, aad, out, fail, .. } => {
                if m.payload.is_some() { Err("detached helper while a payload is embedded") } else {
                    let expected = ref_sig_structure("Signature1", &pbytes(&m.protected), None, &aad, &payload);
                    created.push(Created { index: 0, aad, detached: Some(payload), plaintext: vec![], seen: vec![], seen_plaintext: None, expected, stale: false, ctx: 0 });
                    if fail.is_none() { m.signature = out; }
                    Ok(())
                }
            }
            _ => Ok(()),
        });
    let (msg, model, created) = match r {
        Some(x) => x,
        None => return Ok(()),
    };
    ensure!(same(&msg, &model), "CoseSign1Builder: built message differs from the model\n  built: {}\n  model: {}", short(&msg, 600), short(&model, 600));
    // serialise and parse back
    let tagged = g.bool();
    let back = if tagged { CoseSign1::from_tagged_slice(&msg.clone().to_tagged_vec().map_err(|e| format!("{:?}", e))?) } else { CoseSign1::from_slice(&msg.clone().to_vec().map_err(|e| format!("{:?}", e))?) }
        .map_err(|e| format!("built COSE_Sign1 does not survive encode/decode: {:?}\n  {}", e, short(&msg, 400)))?;
    ctx.class(if tagged { "wire:tagged" } else { "wire:untagged" });
    let last = created.last().cloned();
    let aad = last.as_ref().map(|c| c.aad.clone()).unwrap_or_else(|| g.small_bytes());
    let verdict: Result<(), u8> = if g.bool() { Ok(()) } else { Err(g.byte()) };
    let seen = RefCell::new(None);
    let p = pbytes(&ProtectedHeader { original_data: None, header: model.protected.header.clone() });
    // detached payload used for verification: the one used at creation (an embedded-style helper
    // called without a payload signs the empty payload), random when nothing was created
    let detached_payload = match &last {
        Some(c) => c.detached.clone().unwrap_or_default(),
        None => g.small_bytes(),
    };
    let (ret, want) = if back.payload.is_some() {
        let r = back.verify_signature(&aad, |s, d| {
            *seen.borrow_mut() = Some((s.to_vec(), d.to_vec()));
            verdict
        });
        (r, ref_sig_structure("Signature1", &p, None, &aad, back.payload.as_deref().unwrap()))
    } else {
        let r = back.verify_detached_signature(&detached_payload, &aad, |s, d| {
            *seen.borrow_mut() = Some((s.to_vec(), d.to_vec()));
            verdict
        });
        (r, ref_sig_structure("Signature1", &p, None, &aad, &detached_payload))
    };
    ensure!(ret == verdict, "verify helper returned {:?} for the verifier's {:?}", ret, verdict);
    let (s, d) = seen.into_inner().ok_or("verifier not called")?;
    ensure!(s == model.signature, "verifier was handed signature {} but the message stores {}", hex_trunc(&s, 40), hex_trunc(&model.signature, 40));
    expect_same("COSE_Sign1 verifier bytes vs structure of the final state", &d, &want)?;
    if let Some(c) = &last {
        let same_payload = match (&c.detached, &model.payload) {
            (Some(_), None) => true,
            (None, _) => true,
            (Some(_), Some(_)) => false,
        };
        if !c.stale && same_payload && model.signature == ops_last_out(ops) {
            expect_same("COSE_Sign1: verifier bytes vs the bytes the creating function was given", &d, &c.seen)?;
            ctx.class("roundtrip:creator-bytes==verifier-bytes");
        }
    }
    // metamorphic
    let d2 = RefCell::new(vec![]);
    let aad2 = perturb(&aad);
    if back.payload.is_some() {
        let _: Result<(), u8> = back.verify_signature(&aad2, |_, x| { *d2.borrow_mut() = x.to_vec(); Ok(()) });
    } else {
        let _: Result<(), u8> = back.verify_detached_signature(&detached_payload, &aad2, |_, x| { *d2.borrow_mut() = x.to_vec(); Ok(()) });
    }
    ensure!(*d2.borrow() != d, "changing the external AAD does not change the bytes handed to the verifier");
    let mut b2 = back.clone();
    b2.unprotected.key_id = perturb(&b2.unprotected.key_id);
    ensure!(b2.tbs_data(&aad) == back.tbs_data(&aad), "changing the unprotected header changes the to-be-signed bytes");
    let mut b3 = back.clone();
    b3.protected = built(&Header { key_id: vec![0xde, 0xad], rest: vec![(Label::Int(777), Value::Null)], ..Default::default() });
    ensure!(b3.tbs_data(&aad) != back.tbs_data(&aad), "changing the body protected header does not change the to-be-signed bytes");
    let mut b4 = back.clone();
    b4.payload = Some(perturb(back.payload.as_deref().unwrap_or(&[])));
    ensure!(b4.tbs_data(&aad) != back.tbs_data(&aad), "changing the payload does not change the to-be-signed bytes");
    Ok(())
}

/// The output of the last successful create helper in the history (to know that no plain setter
/// overwrote the signature afterwards).
fn ops_last_out(ops: &[Op]) -> Vec<u8> {
    for op in ops.iter().rev() {
        match op {
            Op::Auth(s) => return s.clone(),
            Op::Create { out, .. } | Op::CreateDetached { out, .. } => return out.clone(),
            _ => {}
        }
    }
    vec![]
}

// ---- COSE_Sign -------------------------------------------------------------------------------

fn run_sign(g: &mut Gen, ops: &[Op], ctx: &mut Ctx) -> CaseResult {
    let r = interpret!(Carrier::Sign, CoseSignBuilder, CoseSign, ops, ctx,
        real: |b, op, log| match op {
            Op::Protected(h) => Step::Next(b.protected(h)),
            Op::Unprotected(h) => Step::Next(b.unprotected(h)),
            Op::Content(p) => Step::Next(b.payload(p)),
            Op::AddSignature(s) => Step::Next(b.add_signature(s)),
            Op::AddCreated { sig, aad, out, fallible: false, .. } => Step::Next(b.add_created_signature(sig, &aad, rec1(&log, out))),
            Op::AddCreated { sig, aad, out, fallible: true, fail } => match b.try_add_created_signature(sig, &aad, rec1f(&log, out, fail)) { Ok(b) => Step::Next(b), Err(e) => Step::Failed(e) },
            Op::AddDetached { sig, payload, aad, out, fallible: false, .. } => Step::Next(b.add_detached_signature(sig, &payload, &aad, rec1(&log, out))),
            Op::AddDetached { sig, payload, aad, out, fallible: true, fail } => match b.try_add_detached_signature(sig, &payload, &aad, rec1f(&log, out, fail)) { Ok(b) => Step::Next(b), Err(e) => Step::Failed(e) },
            _ => Step::Next(b),
        },
        model: |m, op, created| match op {
            Op::Protected(h) => { m.protected = built(&h); Ok(()) }
            Op::Unprotected(h) => { m.unprotected = h; Ok(()) }
            Op::Content(p) => { m.payload = Some(p); Ok(()) }
            Op::AddSignature(s) => { m.signatures.push(s); Ok(()) }
            Op::AddCreated { mut sig, aad, out, fail, .. } => {
                let expected = ref_sig_structure("Signature", &pbytes(&m.protected), Some(&pbytes(&sig.protected)), &aad, m.payload.as_deref().unwrap_or(&[]));
                created.push(Created { index: m.signatures.len(), aad, detached: None, plaintext: vec![], seen: vec![], seen_plaintext: None, expected, stale: false, ctx: 0 });
                if fail.is_none() { sig.signature = out; m.signatures.push(sig); }
                Ok(())
            }
            Op::AddDetached { mut sig, payload, aad, out, fail, .. } => {
                if m.payload.is_some() { Err("detached helper while a payload is embedded") } else {
                    let expected = ref_sig_structure("Signature", &pbytes(&m.protected), Some(&pbytes(&sig.protected)), &aad, &payload);
                    created.push(Created { index: m.signatures.len(), aad, detached: Some(payload), plaintext: vec![], seen: vec![], seen_plaintext: None, expected, stale: false, ctx: 0 });
                    if fail.is_none() { sig.signature = out; m.signatures.push(sig); }
                    Ok(())
                }
            }
            _ => Ok(()),
        });
    let (msg, model, created) = match r {
        Some(x) => x,
        None => return Ok(()),
    };
    ensure!(same(&msg, &model), "CoseSignBuilder: built message differs from the model\n  built: {}\n  model: {}", short(&msg, 600), short(&model, 600));
    ctx.classf(format!("signers:{}", model.signatures.len().min(5)));
    let tagged = g.bool();
    let back = if tagged { CoseSign::from_tagged_slice(&msg.clone().to_tagged_vec().map_err(|e| format!("{:?}", e))?) } else { CoseSign::from_slice(&msg.clone().to_vec().map_err(|e| format!("{:?}", e))?) }
        .map_err(|e| format!("built COSE_Sign does not survive encode/decode: {:?}", e))?;
    ensure!(back.signatures.len() == model.signatures.len(), "signer count changed over the wire");
    let pb = pbytes(&model.protected);
    for i in 0..back.signatures.len() {
        let c = created.iter().rev().find(|c| c.index == i).cloned();
        let aad = c.as_ref().map(|c| c.aad.clone()).unwrap_or_else(|| g.small_bytes());
        let det = match &c {
            Some(c) => c.detached.clone().unwrap_or_default(),
            None => g.small_bytes(),
        };
        let verdict: Result<(), u8> = if g.bool() { Ok(()) } else { Err(g.byte()) };
        let seen = RefCell::new(None);
        let ps = pbytes(&model.signatures[i].protected);
        let (ret, want) = if back.payload.is_some() {
            (back.verify_signature(i, &aad, |s, d| { *seen.borrow_mut() = Some((s.to_vec(), d.to_vec())); verdict }),
             ref_sig_structure("Signature", &pb, Some(&ps), &aad, back.payload.as_deref().unwrap()))
        } else {
            (back.verify_detached_signature(i, &det, &aad, |s, d| { *seen.borrow_mut() = Some((s.to_vec(), d.to_vec())); verdict }),
             ref_sig_structure("Signature", &pb, Some(&ps), &aad, &det))
        };
        ensure!(ret == verdict, "verify helper returned {:?} for the verifier's {:?}", ret, verdict);
        let (s, d) = seen.into_inner().ok_or("verifier not called")?;
        ensure!(s == model.signatures[i].signature, "signer {}: verifier was handed another signature", i);
        expect_same(&format!("COSE_Sign signer {} verifier bytes vs structure of the final state", i), &d, &want)?;
        if let Some(c) = &c {
            if !c.stale && (c.detached.is_some() || back.payload.is_some() || model.payload.is_none()) && !(c.detached.is_none() && back.payload.is_none() && false) {
                // same payload situation as at creation time: identical bytes
                let same_situation = match (&c.detached, &back.payload) {
                    (Some(_), None) => true,
                    (None, Some(_)) => true,
                    (None, None) => det.is_empty(),
                    _ => false,
                };
                if same_situation {
                    expect_same(&format!("COSE_Sign signer {}: verifier bytes vs creator bytes", i), &d, &c.seen)?;
                    ctx.class("roundtrip:creator-bytes==verifier-bytes");
                }
            }
        }
        // metamorphic: another signer's protected header is irrelevant, this signer's is not
        if back.signatures.len() >= 2 {
            let j = (i + 1) % back.signatures.len();
            let mut b2 = back.clone();
            b2.signatures[j].protected = built(&Header { key_id: vec![0xbe, 0xef, j as u8], ..Default::default() });
            let sig_i = b2.signatures[i].clone();
            ensure!(b2.tbs_data(&aad, &sig_i) == back.tbs_data(&aad, &back.signatures[i]), "changing signer {}'s protected header changes signer {}'s to-be-signed bytes", j, i);
        }
        let mut b3 = back.clone();
        b3.signatures[i].protected = built(&Header { key_id: vec![0xbe, 0xef, 0xff], rest: vec![(Label::Int(778), Value::Null)], ..Default::default() });
        let sig_i = b3.signatures[i].clone();
        ensure!(b3.tbs_data(&aad, &sig_i) != back.tbs_data(&aad, &back.signatures[i]), "changing signer {}'s own protected header does not change its to-be-signed bytes", i);
        ensure!(back.tbs_data(&perturb(&aad), &back.signatures[i]) != back.tbs_data(&aad, &back.signatures[i]), "changing the AAD does not change the to-be-signed bytes");
    }
    Ok(())
}

// ---- COSE_Mac / COSE_Mac0 --------------------------------------------------------------------

macro_rules! run_mac_like {
    ($fname:ident, $carrier:expr, $builder:ty, $ty:ty, $ctxstr:expr, $has_rcp:tt) => {
        fn $fname(g: &mut Gen, ops: &[Op], ctx: &mut Ctx) -> CaseResult {
            let r = interpret!($carrier, $builder, $ty, ops, ctx,
                real: |b, op, log| match op {
                    Op::Protected(h) => Step::Next(b.protected(h)),
                    Op::Unprotected(h) => Step::Next(b.unprotected(h)),
                    Op::Content(p) => Step::Next(b.payload(p)),
                    Op::Auth(s) => Step::Next(b.tag(s)),
                    Op::AddRecipient(r) => Step::Next(add_rcp!(b, r, $has_rcp)),
                    Op::Create { aad, out, fallible: false, .. } => Step::Next(b.create_tag(&aad, rec1(&log, out))),
                    Op::Create { aad, out, fallible: true, fail, .. } => match b.try_create_tag(&aad, rec1f(&log, out, fail)) { Ok(b) => Step::Next(b), Err(e) => Step::Failed(e) },
                    _ => Step::Next(b),
                },
                model: |m, op, created| match op {
                    Op::Protected(h) => { m.protected = built(&h); Ok(()) }
                    Op::Unprotected(h) => { m.unprotected = h; Ok(()) }
                    Op::Content(p) => { m.payload = Some(p); Ok(()) }
                    Op::Auth(s) => { m.tag = s; Ok(()) }
                    Op::AddRecipient(r) => { model_add_rcp!(m, r, $has_rcp); Ok(()) }
                    Op::Create { aad, out, fail, .. } => match &m.payload {
                        None => Err("MAC helper without a payload"),
                        Some(p) => {
                            let expected = ref_mac_structure($ctxstr, &pbytes(&m.protected), &aad, p);
                            created.push(Created { index: 0, aad, detached: None, plaintext: vec![], seen: vec![], seen_plaintext: None, expected, stale: false, ctx: 0 });
                            if fail.is_none() { m.tag = out; }
                            Ok(())
                        }
                    },
                    _ => Ok(()),
                });
            let (msg, model, created) = match r {
                Some(x) => x,
                None => return Ok(()),
            };
            ensure!(same(&msg, &model), "{}: built message differs from the model\n  built: {}\n  model: {}", stringify!($builder), short(&msg, 600), short(&model, 600));
            let tagged = g.bool();
            let back = if tagged { <$ty>::from_tagged_slice(&msg.clone().to_tagged_vec().map_err(|e| format!("{:?}", e))?) } else { <$ty>::from_slice(&msg.clone().to_vec().map_err(|e| format!("{:?}", e))?) }
                .map_err(|e| format!("built {} does not survive encode/decode: {:?}", $ctxstr, e))?;
            if back.payload.is_none() {
                ctx.class("mac:no-payload");
                return Ok(());
            }
            let last = created.last().cloned();
            let aad = last.as_ref().map(|c| c.aad.clone()).unwrap_or_else(|| g.small_bytes());
            let verdict: Result<(), u8> = if g.bool() { Ok(()) } else { Err(g.byte()) };
            let seen = RefCell::new(None);
            let ret = back.verify_tag(&aad, |t, d| { *seen.borrow_mut() = Some((t.to_vec(), d.to_vec())); verdict });
            ensure!(ret == verdict, "verify_tag returned {:?} for the MAC function's {:?}", ret, verdict);
            let (t, d) = seen.into_inner().ok_or("MAC function not called")?;
            ensure!(t == model.tag, "verify_tag handed over tag {} but the message stores {}", hex_trunc(&t, 40), hex_trunc(&model.tag, 40));
            let want = ref_mac_structure($ctxstr, &pbytes(&model.protected), &aad, back.payload.as_deref().unwrap());
            expect_same(concat!($ctxstr, " verifier bytes vs structure of the final state"), &d, &want)?;
            if let Some(c) = &last {
                if !c.stale {
                    expect_same(concat!($ctxstr, ": verifier bytes vs creator bytes"), &d, &c.seen)?;
                    ctx.class("roundtrip:creator-bytes==verifier-bytes");
                }
            }
            let d2 = RefCell::new(vec![]);
            let _: Result<(), u8> = back.verify_tag(&perturb(&aad), |_, x| { *d2.borrow_mut() = x.to_vec(); Ok(()) });
            ensure!(*d2.borrow() != d, "changing the AAD does not change the to-be-MACed bytes");
            let mut b2 = back.clone();
            b2.payload = Some(perturb(back.payload.as_deref().unwrap()));
            let _: Result<(), u8> = b2.verify_tag(&aad, |_, x| { *d2.borrow_mut() = x.to_vec(); Ok(()) });
            ensure!(*d2.borrow() != d, "changing the payload does not change the to-be-MACed bytes");
            let mut b3 = back.clone();
            b3.protected = built(&Header { key_id: vec![0xde, 0xad], rest: vec![(Label::Int(779), Value::Null)], ..Default::default() });
            let _: Result<(), u8> = b3.verify_tag(&aad, |_, x| { *d2.borrow_mut() = x.to_vec(); Ok(()) });
            ensure!(*d2.borrow() != d, "changing the protected header does not change the to-be-MACed bytes");
            let mut b4 = back.clone();
            b4.unprotected.key_id = perturb(&b4.unprotected.key_id);
            let _: Result<(), u8> = b4.verify_tag(&aad, |_, x| { *d2.borrow_mut() = x.to_vec(); Ok(()) });
            ensure!(*d2.borrow() == d, "changing the unprotected header changes the to-be-MACed bytes");
            Ok(())
        }
    };
}
macro_rules! add_rcp {
    ($b:ident, $r:ident, true) => { $b.add_recipient($r) };
    ($b:ident, $r:ident, false) => {{ let _ = $r; $b }};
}
macro_rules! model_add_rcp {
    ($m:ident, $r:ident, true) => { $m.recipients.push($r) };
    ($m:ident, $r:ident, false) => {{ let _ = $r; }};
}
run_mac_like!(run_mac, Carrier::Mac, CoseMacBuilder, CoseMac, "MAC", true);
run_mac_like!(run_mac0, Carrier::Mac0, CoseMac0Builder, CoseMac0, "MAC0", false);

// ---- COSE_Encrypt / COSE_Encrypt0 / COSE_recipient -------------------------------------------

macro_rules! run_enc_like {
    ($fname:ident, $carrier:expr, $builder:ty, $ty:ty, $fixed_ctx:tt, $has_rcp:tt, $tagged:tt) => {
        fn $fname(g: &mut Gen, ops: &[Op], ctx: &mut Ctx) -> CaseResult {
            let fixed: Option<usize> = $fixed_ctx;
            let r = interpret!($carrier, $builder, $ty, ops, ctx,
                real: |b, op, log| match op {
                    Op::Protected(h) => Step::Next(b.protected(h)),
                    Op::Unprotected(h) => Step::Next(b.unprotected(h)),
                    Op::Content(p) => Step::Next(b.ciphertext(p)),
                    Op::AddRecipient(r) => Step::Next(add_rcp!(b, r, $has_rcp)),
                    Op::Create { aad, plaintext, out, fallible, fail, ctx } => enc_create!(b, aad, plaintext, out, fallible, fail, ctx, log, $fixed_ctx),
                    _ => Step::Next(b),
                },
                model: |m, op, created| match op {
                    Op::Protected(h) => { m.protected = built(&h); Ok(()) }
                    Op::Unprotected(h) => { m.unprotected = h; Ok(()) }
                    Op::Content(p) => { m.ciphertext = Some(p); Ok(()) }
                    Op::AddRecipient(r) => { model_add_rcp!(m, r, $has_rcp); Ok(()) }
                    Op::Create { aad, plaintext, out, fail, ctx, .. } => {
                        let c = fixed.unwrap_or(ctx);
                        if fixed.is_none() && c < 2 { Err("recipient helper with a non-recipient context") } else {
                            let expected = ref_enc_structure(ENC_CONTEXTS[c], &pbytes(&m.protected), &aad);
                            created.push(Created { index: 0, aad, detached: None, plaintext, seen: vec![], seen_plaintext: None, expected, stale: false, ctx: c });
                            if fail.is_none() { m.ciphertext = Some(out); }
                            Ok(())
                        }
                    }
                    _ => Ok(()),
                });
            let (msg, model, created) = match r {
                Some(x) => x,
                None => return Ok(()),
            };
            ensure!(same(&msg, &model), "{}: built message differs from the model\n  built: {}\n  model: {}", stringify!($builder), short(&msg, 600), short(&model, 600));
            for c in &created {
                ensure!(c.seen_plaintext.as_ref() == Some(&c.plaintext), "the cipher function was handed a different plaintext");
            }
            let back = enc_roundtrip!(g, msg, $ty, $tagged).map_err(|e| format!("built message does not survive encode/decode: {:?}", e))?;
            if back.ciphertext.is_none() {
                ctx.class("enc:no-ciphertext");
                return Ok(());
            }
            let last = created.last().cloned();
            let aad = last.as_ref().map(|c| c.aad.clone()).unwrap_or_else(|| g.small_bytes());
            let c = fixed.unwrap_or_else(|| last.as_ref().map(|c| c.ctx).unwrap_or(2 + g.below(3)));
            let verdict: Result<Vec<u8>, u8> = if g.bool() { Ok(g.small_bytes()) } else { Err(g.byte()) };
            let seen = RefCell::new(None);
            let v2 = verdict.clone();
            let ret = enc_decrypt!(back, c, &aad, |ct: &[u8], a: &[u8]| { *seen.borrow_mut() = Some((ct.to_vec(), a.to_vec())); v2 }, $fixed_ctx);
            ensure!(ret == verdict, "decrypt returned {:?} for the cipher function's {:?}", ret, verdict);
            let (ct, a) = seen.into_inner().ok_or("cipher function not called")?;
            ensure!(Some(&ct) == model.ciphertext.as_ref(), "decrypt handed over a ciphertext other than the stored one");
            let want = ref_enc_structure(ENC_CONTEXTS[c], &pbytes(&model.protected), &aad);
            expect_same("decrypt additional data vs structure of the final state", &a, &want)?;
            if let Some(cr) = &last {
                // only protected-header setters make the creator's view stale for AEAD data
                let stale = ops_protected_after_last_create(ops);
                if !stale {
                    expect_same("decrypt additional data vs the bytes the cipher function was given at creation", &a, &cr.seen)?;
                    ctx.class("roundtrip:creator-bytes==verifier-bytes");
                }
            }
            let a2 = RefCell::new(vec![]);
            let _: Result<Vec<u8>, u8> = enc_decrypt!(back, c, &perturb(&aad), |_: &[u8], x: &[u8]| { *a2.borrow_mut() = x.to_vec(); Ok(vec![]) }, $fixed_ctx);
            ensure!(*a2.borrow() != a, "changing the AAD does not change the additional data");
            let mut b3 = back.clone();
            b3.protected = built(&Header { key_id: vec![0xde, 0xad], rest: vec![(Label::Int(780), Value::Null)], ..Default::default() });
            let _: Result<Vec<u8>, u8> = enc_decrypt!(b3, c, &aad, |_: &[u8], x: &[u8]| { *a2.borrow_mut() = x.to_vec(); Ok(vec![]) }, $fixed_ctx);
            ensure!(*a2.borrow() != a, "changing the protected header does not change the additional data");
            let mut b4 = back.clone();
            b4.unprotected.key_id = perturb(&b4.unprotected.key_id);
            let _: Result<Vec<u8>, u8> = enc_decrypt!(b4, c, &aad, |_: &[u8], x: &[u8]| { *a2.borrow_mut() = x.to_vec(); Ok(vec![]) }, $fixed_ctx);
            ensure!(*a2.borrow() == a, "changing the unprotected header changes the additional data");
            Ok(())
        }
    };
}
fn ops_protected_after_last_create(ops: &[Op]) -> bool {
    for op in ops.iter().rev() {
        match op {
            Op::Create { .. } => return false,
            Op::Protected(_) => return true,
            _ => {}
        }
    }
    false
}
macro_rules! enc_create {
    ($b:ident, $aad:ident, $pt:ident, $out:ident, $fallible:ident, $fail:ident, $ctx:ident, $log:ident, None) => {{
        if $fallible {
            match $b.try_create_ciphertext(ENC[$ctx], &$pt, &$aad, rec2f(&$log, $out, $fail)) { Ok(b) => Step::Next(b), Err(e) => Step::Failed(e) }
        } else {
            Step::Next($b.create_ciphertext(ENC[$ctx], &$pt, &$aad, rec2(&$log, $out)))
        }
    }};
    ($b:ident, $aad:ident, $pt:ident, $out:ident, $fallible:ident, $fail:ident, $ctx:ident, $log:ident, $fixed:tt) => {{
        let _ = $ctx;
        if $fallible {
            match $b.try_create_ciphertext(&$pt, &$aad, rec2f(&$log, $out, $fail)) { Ok(b) => Step::Next(b), Err(e) => Step::Failed(e) }
        } else {
            Step::Next($b.create_ciphertext(&$pt, &$aad, rec2(&$log, $out)))
        }
    }};
}
macro_rules! enc_decrypt {
    ($m:ident, $c:ident, $aad:expr, $f:expr, None) => { $m.decrypt(ENC[$c], $aad, $f) };
    ($m:ident, $c:ident, $aad:expr, $f:expr, $fixed:tt) => {{ let _ = $c; $m.decrypt($aad, $f) }};
}
macro_rules! enc_roundtrip {
    ($g:ident, $msg:ident, $ty:ty, true) => {{
        if $g.bool() { <$ty>::from_tagged_slice(&$msg.clone().to_tagged_vec().map_err(|e| format!("{:?}", e))?) } else { <$ty>::from_slice(&$msg.clone().to_vec().map_err(|e| format!("{:?}", e))?) }
    }};
    ($g:ident, $msg:ident, $ty:ty, false) => {{
        let _ = &$g;
        <$ty>::from_slice(&$msg.clone().to_vec().map_err(|e| format!("{:?}", e))?)
    }};
}
run_enc_like!(run_encrypt, Carrier::Encrypt, CoseEncryptBuilder, CoseEncrypt, (Some(0)), true, true);
run_enc_like!(run_encrypt0, Carrier::Encrypt0, CoseEncrypt0Builder, CoseEncrypt0, (Some(1)), false, true);
run_enc_like!(run_recipient, Carrier::Recipient, CoseRecipientBuilder, CoseRecipient, None, true, false);

fn case(g: &mut Gen, ctx: &mut Ctx) -> CaseResult {
    let c = *g.pick(&[Carrier::Sign1, Carrier::Sign, Carrier::Mac, Carrier::Mac0, Carrier::Encrypt, Carrier::Encrypt0, Carrier::Recipient]);
    let n = g.below(13);
    let mut ops: Vec<Op> = (0..n).map(|_| gen_op(g, c)).collect();
    if g.ratio(1, 4) {
        // repeated work: a create helper is called again with the arguments of an earlier call but for one
        // (the detached payload, the AAD, the signer description, the output) — anything the builder
        // remembers between calls must be keyed on all of them.  Data is sometimes page-sized.
        let sized = |g: &mut Gen| -> Vec<u8> {
            let n = *g.pick(&[4095usize, 4096, 4097, 5000, 8192, 16384]);
            let seed = g.bytes(3);
            (0..n).map(|i| seed[i % 3] ^ (i / 3) as u8).collect()
        };
        let creates: Vec<usize> = ops.iter().enumerate().filter(|(_, o)| matches!(o, Op::Create { .. } | Op::CreateDetached { .. } | Op::AddCreated { .. } | Op::AddDetached { .. })).map(|(i, _)| i).collect();
        if !creates.is_empty() {
            let at = creates[g.below(creates.len())];
            if g.bool() {
                match &mut ops[at] {
                    Op::CreateDetached { payload, .. } | Op::AddDetached { payload, .. } => *payload = sized(g),
                    Op::Create { aad, .. } | Op::AddCreated { aad, .. } => *aad = sized(g),
                    _ => {}
                }
            }
            let mut again = ops[at].clone();
            let big = g.bool();
            let data = |g: &mut Gen| if big { sized(g) } else { gen_data(g) };
            match &mut again {
                Op::AddDetached { sig, payload, aad, out, .. } => match g.below(4) {
                    0 => *payload = data(g),
                    1 => *aad = data(g),
                    2 => sig.protected = gen_prot_desc(g),
                    _ => *out = gen_out(g),
                },
                Op::CreateDetached { payload, aad, out, .. } => match g.below(3) {
                    0 => *payload = data(g),
                    1 => *aad = data(g),
                    _ => *out = gen_out(g),
                },
                Op::AddCreated { sig, aad, out, .. } => match g.below(3) {
                    0 => *aad = data(g),
                    1 => sig.protected = gen_prot_desc(g),
                    _ => *out = gen_out(g),
                },
                Op::Create { aad, plaintext, out, .. } => match g.below(3) {
                    0 => *aad = data(g),
                    1 => *plaintext = data(g),
                    _ => *out = gen_out(g),
                },
                _ => {}
            }
            let to = at + 1 + g.below(ops.len() - at);
            ops.insert(to, again);
            ctx.class("history:create-call-repeated-with-one-argument-changed");
        }
    }
    if c == Carrier::Sign && g.ratio(1, 5) {
        // related headers: the body protected header and some signers' protected headers are the same
        // header, or the same up to the sign of a floating-point zero (equal under `==`, other bytes)
        let mut base = gen_small_header(g);
        let deep = g.bool();
        let z = |x: f64| if deep { Value::Array(vec![Value::from(1), Value::Float(x)]) } else { Value::Float(x) };
        base.rest.push((Label::Int(9_000), z(0.0)));
        let mut twin = base.clone();
        twin.rest.last_mut().unwrap().1 = z(-0.0);
        ops.insert(0, Op::Protected(base.clone()));
        for op in ops.iter_mut() {
            match op {
                Op::AddCreated { sig, .. } | Op::AddDetached { sig, .. } | Op::AddSignature(sig) => {
                    if g.ratio(2, 3) {
                        sig.protected = built(if g.bool() { &twin } else { &base });
                    }
                }
                _ => {}
            }
        }
        ctx.class("history:signer-header-related-to-body-header");
    }
    let ops = ops;
    ctx.classf(format!("carrier:{:?}", c));
    let ncreate = ops.iter().filter(|o| matches!(o, Op::Create { .. } | Op::CreateDetached { .. } | Op::AddCreated { .. } | Op::AddDetached { .. })).count();
    ctx.classf(format!("create-helpers:{}", ncreate.min(4)));
    if ncreate >= 1 {
        ctx.nontrivial(hash_str(&format!("{:?}{:?}", c, ops)));
        ctx.sample_with(|| format!("{:?}: {}", c, short(&ops, 500)));
    }
    // a setter of protected header / payload after a create helper
    let mut seen_create = false;
    for o in &ops {
        match o {
            Op::Create { .. } | Op::CreateDetached { .. } | Op::AddCreated { .. } | Op::AddDetached { .. } => seen_create = true,
            Op::Protected(_) | Op::Content(_) if seen_create => {
                ctx.class("history:setter-after-create");
                break;
            }
            _ => {}
        }
    }
    match c {
        Carrier::Sign1 => run_sign1(g, &ops, ctx),
        Carrier::Sign => run_sign(g, &ops, ctx),
        Carrier::Mac => run_mac(g, &ops, ctx),
        Carrier::Mac0 => run_mac0(g, &ops, ctx),
        Carrier::Encrypt => run_encrypt(g, &ops, ctx),
        Carrier::Encrypt0 => run_encrypt0(g, &ops, ctx),
        Carrier::Recipient => run_recipient(g, &ops, ctx),
    }
}

pub fn property() -> Property {
    Property {
        id: "C06",
        title: "What is signed, MACed or encrypted is what is later verified or decrypted",
        rule: "histories of 0-12 builder calls per carrier (COSE_Sign1, COSE_Sign, COSE_Mac, COSE_Mac0, COSE_Encrypt, COSE_Encrypt0, COSE_recipient): field setters and every create/add helper \
               (infallible, fallible succeeding, fallible failing with a drawn error; embedded and detached; any AAD; recipient contexts incl. refused ones) in any order and multiplicity with recording closures, headers drawing the algorithm from the whole IANA table / private-use / text, \
               then build, encode (tagged or untagged), decode, verify/decrypt of every signer with the creation-time and perturbed AAD / payload / headers; \
               oracle: model of the builder state; creator bytes == reference structure of the state at call time; verifier gets the stored signature/tag/ciphertext and the reference structure of the final state \
               (== creator bytes when no protected-header/payload setter follows); results passed through unchanged; failing creator yields its error and no builder; documented refusals predicted; metamorphic perturbations; \
               non-trivial = history with >= 1 create helper; distinct by (carrier, call list)",
        assumptions: &["a built protected header contributes h'' when empty and Header::to_vec otherwise (that this is what the message emits is checked by C03/C11)", "reference structures: the independent encoders of C03-C05"],
        exhaustive_domains: &[],
        case,
        exh_count: no_exh_count,
        exh_case: no_exh_case,
        bytes_case: None,
        quick_cases: 200_000,
        thorough_cases: 1_500_000,
        max_tape: 4096,
    }
}

//! Helpers shared by the property modules.

use crate::cbor::{encode_styled, Item, StyleOpts};
use crate::model::*;
use crate::tape::Gen;
use coset::{
    CborSerializable, CoseEncrypt, CoseEncrypt0, CoseError, CoseMac, CoseMac0, CoseRecipient, CoseSign, CoseSign1,
    CoseSignature, TaggedCborSerializable,
};

/// Encode a clone of `item` in a tape-drawn style; returns the bytes and the clone with every
/// wrapped byte string's chosen content recorded.
pub fn styled(item: &Item, g: &mut Gen, o: StyleOpts) -> (Vec<u8>, Item) {
    let mut c = item.clone();
    let b = encode_styled(&mut c, g, o);
    (b, c)
}

/// Deterministic encoding with recorded wire bytes.
pub fn plain(item: &Item) -> (Vec<u8>, Item) {
    let mut c = item.clone();
    let empty: [u8; 0] = [];
    let mut g = Gen::new(&empty);
    let b = encode_styled(&mut c, &mut g, StyleOpts::NONE);
    (b, c)
}

pub fn is_dup(e: &CoseError) -> bool {
    matches!(e, CoseError::DuplicateMapKey)
}
pub fn is_extraneous(e: &CoseError) -> bool {
    matches!(e, CoseError::ExtraneousData)
}
pub fn is_out_of_range(e: &CoseError) -> bool {
    matches!(e, CoseError::OutOfRangeIntegerValue)
}

/// Decode `bytes` as message structure `kind` and convert to the model shape.
pub fn decode_msg(kind: Kind, bytes: &[u8]) -> Result<Result<MMsg, String>, CoseError> {
    Ok(match kind {
        Kind::Signature => signature_to_model(&CoseSignature::from_slice(bytes)?),
        Kind::Sign1 => sign1_to_model(&CoseSign1::from_slice(bytes)?),
        Kind::Sign => sign_to_model(&CoseSign::from_slice(bytes)?),
        Kind::Mac => mac_to_model(&CoseMac::from_slice(bytes)?),
        Kind::Mac0 => mac0_to_model(&CoseMac0::from_slice(bytes)?),
        Kind::Encrypt => encrypt_to_model(&CoseEncrypt::from_slice(bytes)?),
        Kind::Encrypt0 => encrypt0_to_model(&CoseEncrypt0::from_slice(bytes)?),
        Kind::Recipient => recipient_to_model(&CoseRecipient::from_slice(bytes)?),
    })
}

pub fn decode_msg_tagged(kind: Kind, bytes: &[u8]) -> Option<Result<Result<MMsg, String>, CoseError>> {
    Some((|| {
        Ok(match kind {
            Kind::Sign1 => sign1_to_model(&CoseSign1::from_tagged_slice(bytes)?),
            Kind::Sign => sign_to_model(&CoseSign::from_tagged_slice(bytes)?),
            Kind::Mac => mac_to_model(&CoseMac::from_tagged_slice(bytes)?),
            Kind::Mac0 => mac0_to_model(&CoseMac0::from_tagged_slice(bytes)?),
            Kind::Encrypt => encrypt_to_model(&CoseEncrypt::from_tagged_slice(bytes)?),
            Kind::Encrypt0 => encrypt0_to_model(&CoseEncrypt0::from_tagged_slice(bytes)?),
            _ => return Err(CoseError::EncodeFailed),
        })
    })())
    .filter(|_| kind.tag().is_some())
}

/// A structurally minimal valid message of `kind` around the given header slots.
pub fn carrier(kind: Kind, protected: Item, unprotected: Item) -> Item {
    let mut v = vec![protected, unprotected];
    match kind {
        Kind::Signature => v.push(Item::Bytes(vec![0x51])),
        Kind::Sign1 | Kind::Mac0 => {
            v.push(Item::Bytes(vec![0x70]));
            v.push(Item::Bytes(vec![0x51]));
        }
        Kind::Sign => {
            v.push(Item::Null);
            v.push(Item::Array(vec![Item::Array(vec![Item::Bytes(vec![]), Item::Map(vec![]), Item::Bytes(vec![0x52])])]));
        }
        Kind::Mac => {
            v.push(Item::Bytes(vec![0x70]));
            v.push(Item::Bytes(vec![0x51]));
            v.push(Item::Array(vec![Item::Array(vec![Item::Bytes(vec![]), Item::Map(vec![]), Item::Null])]));
        }
        Kind::Encrypt => {
            v.push(Item::Bytes(vec![0x70]));
            v.push(Item::Array(vec![Item::Array(vec![Item::Bytes(vec![]), Item::Map(vec![]), Item::Null])]));
        }
        Kind::Encrypt0 | Kind::Recipient => v.push(Item::Bytes(vec![0x70])),
    }
    Item::Array(v)
}

/// Remove retained wire bytes everywhere (to compare parsed views across encodings).
pub fn strip_wire_header(h: &mut MHeader) {
    for s in h.counter_signatures.iter_mut() {
        strip_wire_msg(s);
    }
}
pub fn strip_wire_msg(m: &mut MMsg) {
    m.protected.wire = None;
    strip_wire_header(&mut m.protected.header);
    strip_wire_header(&mut m.unprotected);
    for n in m.nested.iter_mut() {
        strip_wire_msg(n);
    }
}

pub fn short<T: std::fmt::Debug>(x: &T, n: usize) -> String {
    let s = format!("{:?}", x);
    if s.len() <= n {
        s
    } else {
        let mut e = n;
        while !s.is_char_boundary(e) {
            e -= 1;
        }
        format!("{}…", &s[..e])
    }
}

/// Compare an emitted map with the reference: every `typed` pair present exactly once (any
/// position), the `rest` pairs all present in their given relative order, nothing else.
pub fn map_matches(actual: &[(Item, Item)], typed: &[(Item, Item)], rest: &[(Item, Item)]) -> Result<(), String> {
    if actual.len() != typed.len() + rest.len() {
        return Err(format!("emitted map has {} entries, expected {} typed + {} extra", actual.len(), typed.len(), rest.len()));
    }
    for (i, (k, _)) in actual.iter().enumerate() {
        if actual[..i].iter().any(|(k2, _)| k2 == k) {
            return Err(format!("emitted map repeats key {}", crate::cbor::diag(k)));
        }
    }
    for (k, v) in typed {
        match actual.iter().find(|(k2, _)| k2 == k) {
            Some((_, v2)) if v2 == v => {}
            Some((_, v2)) => return Err(format!("entry {} has value {} instead of {}", crate::cbor::diag(k), crate::cbor::diag(v2), crate::cbor::diag(v))),
            None => return Err(format!("entry {} missing from the emitted map", crate::cbor::diag(k))),
        }
    }
    let extras: Vec<&(Item, Item)> = actual.iter().filter(|(k, _)| !typed.iter().any(|(k2, _)| k2 == k)).collect();
    if extras.len() != rest.len() {
        return Err("extra parameters missing or duplicated in the emitted map".to_string());
    }
    for (a, e) in extras.iter().zip(rest.iter()) {
        if a.0 != e.0 || a.1 != e.1 {
            return Err(format!("extra parameters out of order or changed: got {}: {}, expected {}: {}", crate::cbor::diag(&a.0), crate::cbor::diag(&a.1), crate::cbor::diag(&e.0), crate::cbor::diag(&e.1)));
        }
    }
    Ok(())
}

pub fn opt_bytes_item(b: &Option<Vec<u8>>) -> Item {
    match b {
        Some(b) => Item::Bytes(b.clone()),
        None => Item::Null,
    }
}

/// Equality of two values of one coset type, tolerant of NaN (derived `==` is false for NaN):
/// falls back to comparing the structural `Debug` renderings, which print every NaN alike.
pub fn same<T: PartialEq + std::fmt::Debug>(a: &T, b: &T) -> bool {
    a == b || format!("{:?}", a) == format!("{:?}", b)
}

/// Item equality modulo the order of map entries (the order of a map's entries is not part of
/// the CBOR data model).
pub fn eq_mod_map_order(a: &Item, b: &Item) -> bool {
    match (a, b) {
        (Item::Map(x), Item::Map(y)) => {
            x.len() == y.len()
                && x.iter().all(|(k, v)| y.iter().filter(|(k2, v2)| k == k2 && eq_mod_map_order(v, v2)).count() == x.iter().filter(|(k3, v3)| k == k3 && eq_mod_map_order(v, v3)).count())
        }
        (Item::Array(x), Item::Array(y)) => x.len() == y.len() && x.iter().zip(y.iter()).all(|(p, q)| eq_mod_map_order(p, q)),
        (Item::Tag(t, x), Item::Tag(u, y)) => t == u && eq_mod_map_order(x, y),
        _ => a == b,
    }
}

/// Depth (containers entered by a single parse, the map itself included) of every map of `item`,
/// in depth-first order.  The content of a wrapped byte string is parsed on its own, so depth
/// restarts there.
fn map_depths(item: &Item, depth: usize, inside: bool, out: &mut Vec<(usize, bool)>) {
    match item {
        Item::Array(v) => v.iter().for_each(|x| map_depths(x, depth + 1, inside, out)),
        Item::Map(m) => {
            out.push((depth + 1, inside));
            m.iter().for_each(|(_, v)| map_depths(v, depth + 1, inside, out));
        }
        Item::Tag(_, x) => map_depths(x, depth + 1, inside, out),
        Item::Wrapped(w) if w.is_clean() => map_depths(&w.inner, 0, true, out),
        _ => {}
    }
}

fn plant_at(item: &mut Item, k: &mut usize, entry: &mut Option<(Item, Item)>) {
    if entry.is_none() {
        return;
    }
    match item {
        Item::Array(v) => v.iter_mut().for_each(|x| plant_at(x, k, entry)),
        Item::Map(m) => {
            if *k == 0 {
                m.push(entry.take().unwrap());
                return;
            }
            *k -= 1;
            m.iter_mut().for_each(|(_, v)| plant_at(v, k, entry));
        }
        Item::Tag(_, x) => plant_at(x, k, entry),
        Item::Wrapped(w) if w.is_clean() => plant_at(&mut w.inner, k, entry),
        _ => {}
    }
}

/// A value nested `d` containers deep around an integer: arrays, tags, one-entry maps or a mixture.
pub fn deep_item(d: usize, kind: usize) -> Item {
    let mut x = Item::Int(0);
    for i in 0..d {
        x = match if kind == 3 { i % 3 } else { kind } {
            0 => Item::Array(vec![x]),
            1 => Item::Tag(1000, Box::new(x)),
            _ => Item::Map(vec![(Item::Int(0), x)]),
        };
    }
    x
}

/// Plant, under a fresh text label, a value in one of the maps of `item` (header, key, claims-set
/// or opaque value map at any nesting level, inside protected byte strings too) such that the
/// innermost leaf sits `total` containers deep in the parse that reads it (`outer` = containers
/// around the whole item, e.g. 1 for a tag head).  Returns (depth of the chosen map, depth of the value).
pub fn plant_deep(item: &mut Item, g: &mut Gen, total: usize, outer: usize) -> Option<(usize, usize)> {
    let mut depths = vec![];
    map_depths(item, 0, false, &mut depths);
    if depths.is_empty() {
        return None;
    }
    let mut k = g.below(depths.len());
    // the content of a wrapped string starts a parse of its own: no outer containers there
    let (p, inside) = depths[k];
    let d = total.checked_sub(p + if inside { 0 } else { outer })?;
    let mut entry = Some((Item::Text(format!("~deep{}", d)), deep_item(d, g.below(4))));
    plant_at(item, &mut k, &mut entry);
    if entry.is_some() {
        return None;
    }
    Some((p, d))
}

/// Visit every map of `item` (depth first; inside clean wrapped byte strings too) with its index.
pub fn for_each_map_mut(item: &mut Item, idx: &mut usize, f: &mut dyn FnMut(usize, &mut Vec<(Item, Item)>)) {
    match item {
        Item::Array(v) => v.iter_mut().for_each(|x| for_each_map_mut(x, idx, f)),
        Item::Map(m) => {
            f(*idx, m);
            *idx += 1;
            m.iter_mut().for_each(|(_, v)| for_each_map_mut(v, idx, f));
        }
        Item::Tag(_, x) => for_each_map_mut(x, idx, f),
        Item::Wrapped(w) if w.is_clean() => for_each_map_mut(&mut w.inner, idx, f),
        _ => {}
    }
}

pub fn count_maps(item: &Item) -> usize {
    let mut out = vec![];
    map_depths(item, 0, false, &mut out);
    out.len()
}

/// Add `n` fresh entries (private-use negative integer labels, disjoint between maps, or text labels)
/// to each map of `item` whose index is in `which`; `order` 0 ascending, 1 descending, 2 scattered.
pub fn widen_maps(item: &mut Item, which: &[usize], n: usize, order: usize, text: bool) {
    let mut idx = 0;
    for_each_map_mut(item, &mut idx, &mut |j, m| {
        if !which.contains(&j) {
            return;
        }
        for i in 0..n {
            let k = match order {
                0 => i,
                1 => n - 1 - i,
                _ => (i * 7919) % n.max(1),
            };
            let label = if text {
                Item::Text(format!("w{}-{:07}", j, k))
            } else {
                Item::Int(-(100_000 + (j as i128) * 10_000_000 + k as i128))
            };
            m.push((label, Item::Int(0)));
        }
    });
}

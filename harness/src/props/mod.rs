//! One module per property; `all()` lists them.

use crate::run::Property;

pub mod common;
pub mod structs;
pub mod c01;
pub mod c02;
pub mod c03;
pub mod c04;
pub mod c05;
pub mod c06;
pub mod c07;
pub mod c08;
pub mod c09;
pub mod c10;
pub mod types;
pub mod c11;
pub mod c12;
pub mod c13;
pub mod c14;
pub mod c15;
pub mod c16;
pub mod c17;
pub mod c18;
pub mod c19;
pub mod c20;

pub fn all() -> Vec<Property> {
    vec![c01::property(), c02::property(), c03::property(), c04::property(), c05::property(), c06::property(), c07::property(), c08::property(), c09::property(), c10::property(), c11::property(), c12::property(), c13::property(), c14::property(), c15::property(), c16::property(), c17::property(), c18::property(), c19::property(), c20::property()]
}

pub fn find(id: &str) -> Option<Property> {
    all().into_iter().find(|p| p.id == id)
}

/// Map a flat index onto consecutive segments; returns (segment number, local index).
pub fn segment(mut idx: u64, sizes: &[u64]) -> Option<(usize, u64)> {
    for (s, n) in sizes.iter().enumerate() {
        if idx < *n {
            return Some((s, idx));
        }
        idx -= *n;
    }
    None
}

/// Write small valid wire inputs of every type (deterministic encoding of generator output for a
/// few fixed tapes) into `dir`: seed corpus for the libFuzzer `bytes` target.
pub fn dump_corpus(_p: &Property, dir: &std::path::Path) {
    use crate::gen::Faults;
    let _ = std::fs::create_dir_all(dir);
    for t in types::all_types() {
        for k in 0..3u8 {
            let tape: Vec<u8> = (0..96u32).map(|i| (i as u8).wrapping_mul(37).wrapping_add(k.wrapping_mul(101)) >> (k % 3)).collect();
            let mut g = crate::tape::Gen::new(&tape);
            let item = types::gen_for_shape(&mut g, t.shape, &mut Faults::none());
            let b = crate::cbor::encode(&item);
            if b.len() <= 200 && (t.dec)(&b).is_ok() {
                let name = format!("{}-{:016x}", t.name.replace(|c: char| !c.is_ascii_alphanumeric(), "_"), crate::run::hash_bytes(&b));
                let _ = std::fs::write(dir.join(name), &b);
            }
        }
    }
}

//! C09 — message structures: accepted iff they match their CDDL, slots map to fields.

use crate::cbor::{diag, hex_trunc, StyleOpts};
use crate::gen::{gen_msg, Faults};
use crate::model::*;
use crate::props::common::*;
use crate::run::{hash_str, no_exh_case, no_exh_count, CaseResult, Ctx, Property};
use crate::tape::Gen;

fn case(g: &mut Gen, ctx: &mut Ctx) -> CaseResult {
    let (mut faults, mode) = match g.weighted(&[4, 4, 2]) {
        0 => (Faults::none(), "valid"),
        1 => (Faults::one(), "one-fault"),
        _ => (Faults::many(), "many-faults"),
    };
    let gen_kind = *g.pick(&KINDS);
    let depth = g.weighted(&[3, 3, 2, 1]);
    let item = gen_msg(g, gen_kind, &mut faults, depth);
    ctx.classf(format!("mode:{}", mode));
    ctx.classf(format!("generated-as:{}", gen_kind.name()));
    for f in &faults.log {
        ctx.classf(format!("fault:{}", f));
    }
    let o = if g.ratio(1, 3) { StyleOpts::NONE } else { StyleOpts::ALL };
    let (bytes, enc_item) = styled(&item, g, o);
    let arity = item.as_array().map(|a| a.len());
    if let Some(n) = arity {
        ctx.classf(format!("arity:{}", n.min(8)));
        if (3..=5).contains(&n) {
            ctx.nontrivial(hash_str(&diag(&item)));
            ctx.sample_with(|| format!("[{} as {}] {} = {}", mode, gen_kind.name(), diag(&item), hex_trunc(&bytes, 64)));
        }
    }
    ctx.classf(format!("depth:{}", enc_item.depth().min(12)));
    let mut accepted_by = 0;
    for kind in KINDS {
        let mut mc = MCtx::default();
        let expect = m_msg(kind, &enc_item, &mut mc);
        let got = decode_msg(kind, &bytes);
        match (&expect, got) {
            (Ok(e), Ok(Ok(m))) => {
                accepted_by += 1;
                ensure!(&m == e, "{}: decoded fields differ from the slots\n  item: {}\n  bytes: {}\n  expected: {}\n  got:      {}",
                    kind.name(), diag(&item), hex_trunc(&bytes, 300), short(e, 1000), short(&m, 1000));
            }
            (Ok(_), Ok(Err(s))) => fail!("{}: {}\n  item: {}", kind.name(), s, diag(&item)),
            (Ok(_), Err(e)) => {
                if mc.unspecified {
                    ctx.class("unspecified-empty-nested:rejected");
                } else {
                    fail!("{}: item matching the CDDL rejected ({:?})\n  item: {}\n  bytes: {}", kind.name(), e, diag(&item), hex_trunc(&bytes, 300));
                }
            }
            (Err(Rej::Reject(why)), Ok(_)) => {
                fail!("{}: item not matching the CDDL accepted (model: {})\n  item: {}\n  bytes: {}", kind.name(), why, diag(&item), hex_trunc(&bytes, 300));
            }
            (Err(Rej::Reject(_)), Err(_)) => {}
            (Err(Rej::Unknown(_)), _) => ctx.class("model:unknown"),
        }
        if expect.is_ok() && mc.unspecified {
            ctx.class("unspecified-empty-nested");
        }
    }
    ctx.classf(format!("accepted-by-kinds:{}", accepted_by));
    Ok(())
}

pub fn property() -> Property {
    Property {
        id: "C09",
        title: "Message structures: accepted iff they match their CDDL, slots map to fields",
        rule: "arrays generated as one of the eight structures (valid / one planted fault / several: arity, slot kind, swapped slots, protected-slot faults, \
               nested faults at a chosen depth <= 3), styled encoding, the same bytes decoded as all eight types and compared with the CDDL model; \
               non-trivial = arity 3..5 (gets past some type's arity check); distinct by abstract array",
        assumptions: &[
            "oracle: harness/src/model.rs::m_msg written from the RFC 8152 CDDL; empty nested signature/recipient arrays are unspecified (no accept/reject demand)",
            "raw (non-generated) non-empty protected byte strings that start a map are not modelled (outcome unknown)",
        ],
        exhaustive_domains: &[],
        case,
        exh_count: no_exh_count,
        exh_case: no_exh_case,
        bytes_case: None,
        quick_cases: 300_000,
        thorough_cases: 2_000_000,
        max_tape: 8192,
    }
}

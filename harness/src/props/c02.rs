//! C02 — protected-header bytes are kept and reused bit-for-bit, never re-encoded.

use crate::cbor::{diag, hex_trunc, read_strict, Item, StyleOpts};
use crate::gen::{gen_kdf, gen_msg, gen_supp, Faults};
use crate::model::*;
use crate::props::c11::check_msg_shape;
use crate::props::common::*;
use crate::run::{hash_str, no_exh_case, no_exh_count, CaseResult, Ctx, Property};
use crate::tape::Gen;
use coset::{
    enc_structure_data, mac_structure_data, sig_structure_data, CborSerializable, CoseEncrypt, CoseEncrypt0, CoseKdfContext, CoseMac,
    CoseMac0, CoseRecipient, CoseSign, CoseSign1, CoseSignature, EncryptionContext, Header, MacContext, ProtectedHeader,
    SignatureContext, SuppPubInfo,
};

/// The n-th element of a structure array (strict reader), as bytes.
fn elem(structure: &[u8], n: usize) -> Result<Vec<u8>, String> {
    let r = read_strict(structure).map_err(|e| format!("structure is not strict CBOR: {:?}", e))?;
    let a = r.as_array().ok_or("structure not an array")?;
    a.get(n).and_then(|x| x.as_bytes().cloned()).ok_or_else(|| format!("element {} missing or not a byte string", n))
}

fn wire(p: &ProtectedHeader) -> Result<&Vec<u8>, String> {
    p.original_data.as_ref().ok_or_else(|| "decoded protected header has no retained bytes".to_string())
}

fn check_in(what: &str, structure: &[u8], n: usize, p: &ProtectedHeader) -> CaseResult {
    let got = elem(structure, n)?;
    ensure!(&got == wire(p)?, "{}: element {} of the structure is {} but the received protected bytes are {}", what, n, hex_trunc(&got, 80), hex_trunc(wire(p)?, 80));
    Ok(())
}

/// Counter-signatures found in a header: to-be-signed bytes use the retained bytes of both.
fn check_countersigs(body: &ProtectedHeader, h: &Header, aad: &[u8], n: &mut usize) -> CaseResult {
    for cs in &h.counter_signatures {
        let t = sig_structure_data(SignatureContext::CounterSignature, body.clone(), Some(cs.protected.clone()), aad, b"p");
        check_in("counter-signature Sig_structure (body)", &t, 1, body)?;
        check_in("counter-signature Sig_structure (signer)", &t, 2, &cs.protected)?;
        *n += 1;
        check_countersigs(&cs.protected, &cs.unprotected, aad, n)?;
        check_countersigs(&cs.protected, &cs.protected.header, aad, n)?;
    }
    Ok(())
}

fn check_recipients(rs: &[CoseRecipient], aad: &[u8], g: &mut Gen, n: &mut usize) -> CaseResult {
    for r in rs {
        let c = *g.pick(&[EncryptionContext::EncRecipient, EncryptionContext::MacRecipient, EncryptionContext::RecRecipient]);
        let t = enc_structure_data(c, r.protected.clone(), aad);
        check_in("recipient Enc_structure", &t, 1, &r.protected)?;
        if r.ciphertext.is_some() {
            let mut seen = vec![];
            let _: Result<Vec<u8>, ()> = r.decrypt(c, aad, |_, a| {
                seen = a.to_vec();
                Ok(vec![])
            });
            check_in("recipient decrypt closure", &seen, 1, &r.protected)?;
        }
        *n += 1;
        check_countersigs(&r.protected, &r.unprotected, aad, n)?;
        check_recipients(&r.recipients, aad, g, n)?;
    }
    Ok(())
}

fn msg_case(g: &mut Gen, ctx: &mut Ctx) -> CaseResult {
    let kind = *g.pick(&KINDS);
    let depth = 1 + g.below(3);
    let item = gen_msg(g, kind, &mut Faults::none(), depth);
    let aad = g.small_bytes();
    let mut views = vec![];
    let mut expected_views = vec![];
    let mut nested_positions = 0usize;
    for style in 0..2 {
        let (bytes, enc) = styled(&item, g, StyleOpts::ALL);
        let mut mc = MCtx::default();
        let expect = match m_msg(kind, &enc, &mut mc) {
            Ok(m) => m,
            Err(_) => return Ok(()),
        };
        // (1) retained bytes == wire bytes at every position (MProtected.wire is part of the model value)
        let got = match decode_msg(kind, &bytes) {
            Ok(Ok(m)) => m,
            Ok(Err(s)) => fail!("{}", s),
            Err(e) => {
                if mc.unspecified {
                    return Ok(());
                }
                fail!("valid {} rejected: {:?}\n  item: {}\n  bytes: {}", kind.name(), e, diag(&item), hex_trunc(&bytes, 300))
            }
        };
        ensure!(got == expect, "{}: decoded value (incl. retained protected bytes at every level) differs from the wire\n  item: {}\n  bytes: {}\n  expected: {}\n  got:      {}", kind.name(), diag(&item), hex_trunc(&bytes, 300), short(&expect, 1000), short(&got, 1000));
        let mut v = got.clone();
        strip_wire_msg(&mut v);
        views.push(v);
        let mut e = expect.clone();
        strip_wire_msg(&mut e);
        expected_views.push(e);
        if style == 1 {
            continue;
        }
        // (2) + (3) on the typed value
        macro_rules! reencode {
            ($v:expr) => {{
                let out = $v.clone().to_vec().map_err(|e| format!("decoded {} failed to re-encode: {:?}", kind.name(), e))?;
                let read = read_strict(&out).map_err(|e| format!("re-encoding not strict: {:?}", e))?;
                check_msg_shape(kind, &read, &expect).map_err(|e| format!("{} re-encoded: {}\n  wire:       {}\n  re-encoded: {}", kind.name(), e, hex_trunc(&bytes, 300), hex_trunc(&out, 300)))?;
            }};
        }
        let top_wire;
        match kind {
            Kind::Signature => {
                let v = CoseSignature::from_slice(&bytes).map_err(|e| format!("{:?}", e))?;
                reencode!(v);
                top_wire = wire(&v.protected)?.clone();
                check_countersigs(&v.protected, &v.unprotected, &aad, &mut nested_positions)?;
                check_countersigs(&v.protected, &v.protected.header, &aad, &mut nested_positions)?;
            }
            Kind::Sign1 => {
                let v = CoseSign1::from_slice(&bytes).map_err(|e| format!("{:?}", e))?;
                reencode!(v);
                top_wire = wire(&v.protected)?.clone();
                check_in("CoseSign1::tbs_data", &v.tbs_data(&aad), 1, &v.protected)?;
                if v.payload.is_none() {
                    check_in("CoseSign1::tbs_detached_data", &v.tbs_detached_data(b"d", &aad), 1, &v.protected)?;
                }
                let mut seen = vec![];
                let _: Result<(), ()> = v.verify_signature(&aad, |_, d| {
                    seen = d.to_vec();
                    Ok(())
                });
                check_in("CoseSign1::verify_signature closure", &seen, 1, &v.protected)?;
                check_countersigs(&v.protected, &v.unprotected, &aad, &mut nested_positions)?;
                check_countersigs(&v.protected, &v.protected.header, &aad, &mut nested_positions)?;
            }
            Kind::Sign => {
                let v = CoseSign::from_slice(&bytes).map_err(|e| format!("{:?}", e))?;
                reencode!(v);
                top_wire = wire(&v.protected)?.clone();
                for (i, s) in v.signatures.iter().enumerate() {
                    let t = v.tbs_data(&aad, s);
                    check_in("CoseSign::tbs_data (body)", &t, 1, &v.protected)?;
                    check_in("CoseSign::tbs_data (signer)", &t, 2, &s.protected)?;
                    let mut seen = vec![];
                    if v.payload.is_none() {
                        let _: Result<(), ()> = v.verify_detached_signature(i, b"d", &aad, |_, d| {
                            seen = d.to_vec();
                            Ok(())
                        });
                    } else {
                        let _: Result<(), ()> = v.verify_signature(i, &aad, |_, d| {
                            seen = d.to_vec();
                            Ok(())
                        });
                    }
                    check_in("CoseSign verify closure (body)", &seen, 1, &v.protected)?;
                    check_in("CoseSign verify closure (signer)", &seen, 2, &s.protected)?;
                    nested_positions += 1;
                    check_countersigs(&s.protected, &s.unprotected, &aad, &mut nested_positions)?;
                }
                check_countersigs(&v.protected, &v.unprotected, &aad, &mut nested_positions)?;
            }
            Kind::Mac => {
                let v = CoseMac::from_slice(&bytes).map_err(|e| format!("{:?}", e))?;
                reencode!(v);
                top_wire = wire(&v.protected)?.clone();
                check_in("mac_structure_data", &mac_structure_data(MacContext::CoseMac, v.protected.clone(), &aad, b"p"), 1, &v.protected)?;
                if v.payload.is_some() {
                    let mut seen = vec![];
                    let _: Result<(), ()> = v.verify_tag(&aad, |_, d| {
                        seen = d.to_vec();
                        Ok(())
                    });
                    check_in("CoseMac::verify_tag closure", &seen, 1, &v.protected)?;
                }
                check_recipients(&v.recipients, &aad, g, &mut nested_positions)?;
                check_countersigs(&v.protected, &v.unprotected, &aad, &mut nested_positions)?;
            }
            Kind::Mac0 => {
                let v = CoseMac0::from_slice(&bytes).map_err(|e| format!("{:?}", e))?;
                reencode!(v);
                top_wire = wire(&v.protected)?.clone();
                check_in("mac_structure_data", &mac_structure_data(MacContext::CoseMac0, v.protected.clone(), &aad, b"p"), 1, &v.protected)?;
                if v.payload.is_some() {
                    let mut seen = vec![];
                    let _: Result<(), ()> = v.verify_tag(&aad, |_, d| {
                        seen = d.to_vec();
                        Ok(())
                    });
                    check_in("CoseMac0::verify_tag closure", &seen, 1, &v.protected)?;
                }
                check_countersigs(&v.protected, &v.unprotected, &aad, &mut nested_positions)?;
            }
            Kind::Encrypt => {
                let v = CoseEncrypt::from_slice(&bytes).map_err(|e| format!("{:?}", e))?;
                reencode!(v);
                top_wire = wire(&v.protected)?.clone();
                check_in("enc_structure_data", &enc_structure_data(EncryptionContext::CoseEncrypt, v.protected.clone(), &aad), 1, &v.protected)?;
                if v.ciphertext.is_some() {
                    let mut seen = vec![];
                    let _: Result<Vec<u8>, ()> = v.decrypt(&aad, |_, a| {
                        seen = a.to_vec();
                        Ok(vec![])
                    });
                    check_in("CoseEncrypt::decrypt closure", &seen, 1, &v.protected)?;
                }
                check_recipients(&v.recipients, &aad, g, &mut nested_positions)?;
                check_countersigs(&v.protected, &v.unprotected, &aad, &mut nested_positions)?;
            }
            Kind::Encrypt0 => {
                let v = CoseEncrypt0::from_slice(&bytes).map_err(|e| format!("{:?}", e))?;
                reencode!(v);
                top_wire = wire(&v.protected)?.clone();
                if v.ciphertext.is_some() {
                    let mut seen = vec![];
                    let _: Result<Vec<u8>, ()> = v.decrypt(&aad, |_, a| {
                        seen = a.to_vec();
                        Ok(vec![])
                    });
                    check_in("CoseEncrypt0::decrypt closure", &seen, 1, &v.protected)?;
                }
                check_countersigs(&v.protected, &v.unprotected, &aad, &mut nested_positions)?;
            }
            Kind::Recipient => {
                let v = CoseRecipient::from_slice(&bytes).map_err(|e| format!("{:?}", e))?;
                reencode!(v);
                top_wire = wire(&v.protected)?.clone();
                check_recipients(std::slice::from_ref(&v), &aad, g, &mut nested_positions)?;
            }
        }
        // non-triviality: re-encoding the parsed header would change the bytes, or nested positions exist
        let parsed = m_to_header_bytes(&expect.protected.header);
        let differs = parsed.as_deref() != Some(&top_wire[..]);
        ctx.classf(format!("kind:{}", kind.name()));
        ctx.classf(format!("nested-protected-positions:{}", nested_positions.min(6)));
        if differs {
            ctx.class("top-wire-differs-from-own-encoding");
        }
        if differs || nested_positions > 0 {
            ctx.nontrivial(hash_str(&format!("{}|{}", kind.name(), crate::cbor::hex(&bytes))));
            ctx.sample_with(|| format!("{} {} ; top protected bytes {}", kind.name(), hex_trunc(&bytes, 64), hex_trunc(&top_wire, 32)));
        }
    }
    // (4) the parsed view is the same for every encoding of the same content
    if views.len() == 2 && expected_views[0] == expected_views[1] {
        ensure!(views[0] == views[1], "{}: two encodings of the same content give different parsed views\n  item: {}", kind.name(), diag(&item));
    }
    Ok(())
}

fn m_to_header_bytes(m: &MHeader) -> Option<Vec<u8>> {
    if m.is_empty() {
        return Some(vec![]);
    }
    model_to_header(m)?.to_vec().ok()
}

fn kdf_case(g: &mut Gen, ctx: &mut Ctx) -> CaseResult {
    let standalone = g.bool();
    let item = if standalone { gen_supp(g, &mut Faults::none()) } else { gen_kdf(g, &mut Faults::none()) };
    let (bytes, enc) = styled(&item, g, StyleOpts::ALL);
    let mut mc = MCtx::default();
    if standalone {
        let e = match m_supp(&enc, &mut mc) {
            Ok(e) => e,
            Err(_) => return Ok(()),
        };
        let w = e.protected.wire.clone().unwrap_or_default();
        let v = SuppPubInfo::from_slice(&bytes).map_err(|er| format!("valid SuppPubInfo rejected: {:?} {}", er, hex_trunc(&bytes, 200)))?;
        ensure!(v.protected.original_data.as_ref() == Some(&w), "SuppPubInfo: retained bytes {:?} differ from the wire {}", v.protected.original_data.as_ref().map(|b| hex_trunc(b, 60)), hex_trunc(&w, 60));
        let out = v.clone().to_vec().map_err(|e| format!("{:?}", e))?;
        ensure!(elem(&out, 1)? == w, "SuppPubInfo re-encoded with different protected bytes");
        // the decoded value handed to the KDF-context builder keeps its bytes in the built context
        let built = coset::CoseKdfContextBuilder::new().supp_pub_info(v.clone()).build();
        let bout = built.to_vec().map_err(|e| format!("built KDF context fails to encode: {:?}", e))?;
        let r = read_strict(&bout).map_err(|e| format!("{:?}", e))?;
        let supp = r.as_array().and_then(|a| a.get(3)).and_then(|s| s.as_array()).ok_or("no supp pub info in the built context")?;
        ensure!(supp.get(1).and_then(|p| p.as_bytes()) == Some(&w), "a decoded SuppPubInfo passed through CoseKdfContextBuilder::supp_pub_info is written with protected bytes {} instead of the received {}", diag(&supp[1]), hex_trunc(&w, 60));
        // ... and so does a decoded recipient's protected header placed in a SuppPubInfo literal
        let lit = SuppPubInfo { key_data_length: 128, protected: v.protected.clone(), other: None };
        let lout = lit.to_vec().map_err(|e| format!("{:?}", e))?;
        ensure!(elem(&lout, 1)? == w, "SuppPubInfo literal holding a decoded protected header re-encodes it");
        ctx.class("kind:SuppPubInfo");
        ctx.nontrivial(hash_str(&crate::cbor::hex(&bytes)));
        ctx.sample_with(|| format!("SuppPubInfo {} ; protected {}", hex_trunc(&bytes, 48), hex_trunc(&w, 32)));
    } else {
        let e = match m_kdf(&enc, &mut mc) {
            Ok(e) => e,
            Err(_) => return Ok(()),
        };
        let w = e.supp.protected.wire.clone().unwrap_or_default();
        let v = CoseKdfContext::from_slice(&bytes).map_err(|er| format!("valid KDF context rejected: {:?} {}", er, hex_trunc(&bytes, 200)))?;
        let out = v.to_vec().map_err(|e| format!("{:?}", e))?;
        let r = read_strict(&out).map_err(|e| format!("{:?}", e))?;
        let supp = r.as_array().and_then(|a| a.get(3)).and_then(|s| s.as_array()).ok_or("no supp pub info")?;
        ensure!(supp.get(1).and_then(|p| p.as_bytes()) == Some(&w), "KDF context re-encoded with different SuppPubInfo protected bytes: wire {} out {}", hex_trunc(&w, 60), diag(&supp[1]));
        ctx.class("kind:CoseKdfContext");
        ctx.nontrivial(hash_str(&crate::cbor::hex(&bytes)));
        ctx.sample_with(|| format!("CoseKdfContext {} ; supp protected {}", hex_trunc(&bytes, 48), hex_trunc(&w, 32)));
    }
    Ok(())
}

/// Copies of decoded values (Clone::clone and Clone::clone_from over a previously decoded value
/// whose retained bytes are longer, shorter or equal) carry the source's bytes.
fn copy_case(g: &mut Gen, ctx: &mut Ctx) -> CaseResult {
    let mut decoded = vec![];
    for _ in 0..2 {
        let item = gen_msg(g, Kind::Sign1, &mut Faults::none(), 1);
        let (bytes, enc) = styled(&item, g, StyleOpts::ALL);
        if m_msg(Kind::Sign1, &enc, &mut MCtx::default()).is_err() {
            return Ok(());
        }
        decoded.push(CoseSign1::from_slice(&bytes).map_err(|e| format!("valid COSE_Sign1 rejected: {:?}", e))?);
    }
    let (a, b) = (decoded.remove(0), decoded.remove(0));
    let (wa, wb) = (wire(&a.protected)?.clone(), wire(&b.protected)?.clone());
    ctx.classf(format!("copy:{}", if wa.len() > wb.len() { "dst-longer" } else if wa.len() < wb.len() { "dst-shorter" } else { "same-length" }));
    if wa != wb {
        ctx.nontrivial(hash_str(&format!("copy|{}|{}", hex_trunc(&wa, 200), hex_trunc(&wb, 200))));
        ctx.sample_with(|| format!("clone_from: destination retained {} <- source retained {}", hex_trunc(&wa, 24), hex_trunc(&wb, 24)));
    }
    let aad = g.small_bytes();
    // the protected header alone
    let mut p = a.protected.clone();
    p.clone_from(&b.protected);
    ensure!(same(&p, &b.protected), "ProtectedHeader::clone_from yields {:?}, source is {:?}", p, b.protected);
    let t = sig_structure_data(SignatureContext::CoseSign1, p, None, &aad, b"p");
    check_in("Sig_structure of a clone_from copy", &t, 1, &b.protected)?;
    // a built header (nothing retained) copied over a decoded one: nothing retained afterwards either
    let built = ProtectedHeader { original_data: None, header: if g.bool() { Header::default() } else { b.protected.header.clone() } };
    let mut p = a.protected.clone();
    p.clone_from(&built);
    ensure!(same(&p, &built), "ProtectedHeader::clone_from(built source) yields {:?}, source is {:?}", p, built);
    let mut p = built.clone();
    p.clone_from(&a.protected);
    ensure!(same(&p, &a.protected), "ProtectedHeader::clone_from(decoded source) over a built value yields {:?}, source is {:?}", p, a.protected);
    // the whole message
    let mut m = a.clone();
    m.clone_from(&b);
    let (out, want) = (m.clone().to_vec().map_err(|e| format!("{:?}", e))?, b.clone().to_vec().map_err(|e| format!("{:?}", e))?);
    ensure!(out == want, "a clone_from copy encodes as {} but its source as {}", hex_trunc(&out, 200), hex_trunc(&want, 200));
    check_in("tbs_data of a clone_from copy", &m.tbs_data(&aad), 1, &b.protected)?;
    let c = b.clone();
    check_in("tbs_data of a clone", &c.tbs_data(&aad), 1, &b.protected)?;
    Ok(())
}

/// Decoded nested structures handed to the builders (signers through every `add_*signature`
/// helper, recipients through `add_recipient`, counter-signatures through
/// `add_counter_signature`) keep their retained bytes in the built value and in its encoding.
fn builder_case(g: &mut Gen, ctx: &mut Ctx) -> CaseResult {
    use coset::{CoseEncryptBuilder, CoseMacBuilder, CoseSignBuilder, HeaderBuilder};
    let kind = *g.pick(&[Kind::Sign, Kind::Sign, Kind::Encrypt, Kind::Mac]);
    let item = gen_msg(g, kind, &mut Faults::none(), 1);
    let (bytes, enc) = styled(&item, g, StyleOpts::ALL);
    let mut mc = MCtx::default();
    let m = match m_msg(kind, &enc, &mut mc) {
        Ok(m) => m,
        Err(_) => return Ok(()),
    };
    if m.nested.is_empty() {
        return Ok(());
    }
    let aad = g.small_bytes();
    let payload = g.small_bytes();
    ctx.classf(format!("builder:{}", kind.name()));
    ctx.nontrivial(hash_str(&format!("b|{}", hex_trunc(&bytes, 400))));
    ctx.sample_with(|| format!("nested structures of a decoded {} ({}) passed through the builders", kind.name(), hex_trunc(&bytes, 40)));
    let wires: Vec<Vec<u8>> = m.nested.iter().map(|n| n.protected.wire.clone().unwrap_or_default()).collect();
    let (out, slot, first_sig): (Vec<u8>, usize, Option<CoseSignature>) = match kind {
        Kind::Sign => {
            let v = match CoseSign::from_slice(&bytes) { Ok(v) => v, Err(e) => { return if mc.unspecified { Ok(()) } else { Err(format!("valid COSE_Sign rejected: {:?}", e)) } } };
            let detached = g.bool();
            let mut b = CoseSignBuilder::new();
            if !detached {
                b = b.payload(payload.clone());
            }
            for (i, sg) in v.signatures.iter().cloned().enumerate() {
                let how = g.below(3);
                ctx.classf(format!("builder:signer-via:{}", [if detached { "add_detached_signature" } else { "add_created_signature" }, if detached { "try_add_detached_signature" } else { "try_add_created_signature" }, "add_signature"][how]));
                b = match (how, detached) {
                    (0, false) => b.add_created_signature(sg, &aad, |_| vec![i as u8]),
                    (1, false) => b.try_add_created_signature(sg, &aad, |_| -> Result<Vec<u8>, ()> { Ok(vec![i as u8]) }).map_err(|_| "try_add_created_signature failed")?,
                    (0, true) => b.add_detached_signature(sg, &payload, &aad, |_| vec![i as u8]),
                    (1, true) => b.try_add_detached_signature(sg, &payload, &aad, |_| -> Result<Vec<u8>, ()> { Ok(vec![i as u8]) }).map_err(|_| "try_add_detached_signature failed")?,
                    _ => b.add_signature(sg),
                };
            }
            let built = b.build();
            for (i, sg) in built.signatures.iter().enumerate() {
                ensure!(sg.protected.original_data.as_ref() == Some(&wires[i]), "signer {} added through a builder helper retains {:?}, received {}", i, sg.protected.original_data.as_ref().map(|w| hex_trunc(w, 60)), hex_trunc(&wires[i], 60));
            }
            (built.to_vec().map_err(|e| format!("built COSE_Sign fails to encode: {:?}", e))?, 3, v.signatures.first().cloned())
        }
        Kind::Encrypt => {
            let v = match CoseEncrypt::from_slice(&bytes) { Ok(v) => v, Err(e) => { return if mc.unspecified { Ok(()) } else { Err(format!("valid COSE_Encrypt rejected: {:?}", e)) } } };
            let mut b = CoseEncryptBuilder::new().ciphertext(payload.clone());
            for r in v.recipients.iter().cloned() {
                b = b.add_recipient(r);
            }
            (b.build().to_vec().map_err(|e| format!("built COSE_Encrypt fails to encode: {:?}", e))?, 3, None)
        }
        _ => {
            let v = match CoseMac::from_slice(&bytes) { Ok(v) => v, Err(e) => { return if mc.unspecified { Ok(()) } else { Err(format!("valid COSE_Mac rejected: {:?}", e)) } } };
            let mut b = CoseMacBuilder::new().payload(payload.clone()).tag(vec![1]);
            for r in v.recipients.iter().cloned() {
                b = b.add_recipient(r);
            }
            (b.build().to_vec().map_err(|e| format!("built COSE_Mac fails to encode: {:?}", e))?, 4, None)
        }
    };
    let read = read_strict(&out).map_err(|e| format!("built message not strict CBOR: {:?}", e))?;
    let nested = read.as_array().and_then(|a| a.get(slot)).and_then(|x| x.as_array()).ok_or("built message has no nested list")?;
    ensure!(nested.len() == wires.len(), "built message carries {} nested structures, {} were added", nested.len(), wires.len());
    for (i, n) in nested.iter().enumerate() {
        let got = n.as_array().and_then(|a| a.first()).and_then(|x| x.as_bytes()).ok_or("nested structure without protected bstr")?;
        ensure!(got == &wires[i], "nested structure {} of the built {}: protected slot holds {} but the bytes received for it were {}", i, kind.name(), hex_trunc(got, 60), hex_trunc(&wires[i], 60));
    }
    // a decoded signature attached as a counter-signature
    if let Some(sg) = first_sig {
        let h = HeaderBuilder::new().add_counter_signature(sg).build();
        let hb = h.to_vec().map_err(|e| format!("header with a decoded counter-signature fails to encode: {:?}", e))?;
        let r = read_strict(&hb).map_err(|e| format!("{:?}", e))?;
        let cs = r.as_map().and_then(|m| m.iter().find(|(k, _)| *k == Item::Int(7))).map(|(_, v)| v.clone()).ok_or("no counter-signature in the built header")?;
        let got = cs.as_array().and_then(|a| a.first()).and_then(|x| x.as_bytes().cloned()).ok_or("counter-signature without protected bstr")?;
        ensure!(got == wires[0], "counter-signature added through add_counter_signature: protected slot holds {} but the bytes received were {}", hex_trunc(&got, 60), hex_trunc(&wires[0], 60));
    }
    Ok(())
}

/// The application edits the parsed view of a decoded protected header (public field) and leaves the
/// retained bytes in place: those bytes — zero-length string included — still are what every
/// structure, closure and re-encoding carries.
fn edited_view_case(g: &mut Gen, ctx: &mut Ctx) -> CaseResult {
    let kind = *g.pick(&[Kind::Sign1, Kind::Mac0, Kind::Encrypt0, Kind::Sign]);
    let item = gen_msg(g, kind, &mut Faults::none(), 0);
    let (bytes, enc) = styled(&item, g, StyleOpts::ALL);
    let mut mc = MCtx::default();
    let m = match m_msg(kind, &enc, &mut mc) {
        Ok(m) => m,
        Err(_) => return Ok(()),
    };
    let w = m.protected.wire.clone().unwrap_or_default();
    let aad = g.small_bytes();
    let how = g.below(7);
    let edit = |h: &mut Header, g: &mut Gen| match how {
        0 => h.alg = Some(coset::Algorithm::Assigned(coset::iana::Algorithm::ES256)),
        1 => h.key_id = g.nonempty_bytes(),
        2 => h.rest.push((coset::Label::Int(70000), coset::cbor::value::Value::Null)),
        // views that could not even be encoded (nobody has to: the received bytes stand for the header)
        4 => {
            h.rest.push((coset::Label::Int(70001), coset::cbor::value::Value::Null));
            h.rest.push((coset::Label::Int(70001), coset::cbor::value::Value::Bool(true)));
        }
        5 => {
            h.alg = Some(coset::Algorithm::Assigned(coset::iana::Algorithm::ES256));
            h.rest.push((coset::Label::Int(1), coset::cbor::value::Value::from(-7)));
        }
        6 => {
            let bad = Header { rest: vec![(coset::Label::Text("x".into()), coset::cbor::value::Value::Null), (coset::Label::Text("x".into()), coset::cbor::value::Value::Null)], ..Default::default() };
            h.counter_signatures.push(CoseSignature { protected: ProtectedHeader { original_data: None, header: bad }, unprotected: Header::default(), signature: vec![1] });
        }
        _ => *h = Header::default(),
    };
    ctx.classf(format!("edited-view:{}:{}", kind.name(), if w.is_empty() { "zero-length-retained" } else { "retained" }));
    ctx.nontrivial(hash_str(&format!("ev|{}|{}", how, hex_trunc(&bytes, 300))));
    ctx.sample_with(|| format!("{} decoded from {}, parsed protected view edited ({}), retained bytes {}", kind.name(), hex_trunc(&bytes, 40), how, hex_trunc(&w, 16)));
    let slot0 = |out: &[u8]| -> Result<Vec<u8>, String> { elem(out, 0) };
    match kind {
        Kind::Sign1 => {
            let mut v = CoseSign1::from_slice(&bytes).map_err(|e| format!("valid COSE_Sign1 rejected: {:?}", e))?;
            edit(&mut v.protected.header, g);
            if v.payload.is_some() {
                check_in("edited view: CoseSign1::tbs_data", &v.tbs_data(&aad), 1, &v.protected)?;
                let mut seen = vec![];
                let _: Result<(), ()> = v.verify_signature(&aad, |_, d| {
                    seen = d.to_vec();
                    Ok(())
                });
                check_in("edited view: verify_signature closure", &seen, 1, &v.protected)?;
            } else {
                check_in("edited view: CoseSign1::tbs_detached_data", &v.tbs_detached_data(b"d", &aad), 1, &v.protected)?;
            }
            ensure!(wire(&v.protected)? == &w, "retained bytes changed by editing the view");
            let out = v.to_vec().map_err(|e| format!("{:?}", e))?;
            ensure!(slot0(&out)? == w, "edited view: re-encoding carries {} in the protected slot, received {}", hex_trunc(&slot0(&out)?, 60), hex_trunc(&w, 60));
        }
        Kind::Sign => {
            let mut v = match CoseSign::from_slice(&bytes) { Ok(v) => v, Err(e) => { return if mc.unspecified { Ok(()) } else { Err(format!("valid COSE_Sign rejected: {:?}", e)) } } };
            edit(&mut v.protected.header, g);
            for i in 0..v.signatures.len() {
                edit(&mut v.signatures[i].protected.header, g);
                let sg = v.signatures[i].clone();
                let t = if v.payload.is_some() { v.tbs_data(&aad, &sg) } else { v.tbs_detached_data(b"d", &aad, &sg) };
                check_in("edited view: CoseSign tbs (body)", &t, 1, &v.protected)?;
                check_in("edited view: CoseSign tbs (signer)", &t, 2, &sg.protected)?;
            }
            let out = v.to_vec().map_err(|e| format!("{:?}", e))?;
            ensure!(slot0(&out)? == w, "edited view: re-encoding carries {} in the protected slot, received {}", hex_trunc(&slot0(&out)?, 60), hex_trunc(&w, 60));
        }
        Kind::Mac0 => {
            let mut v = CoseMac0::from_slice(&bytes).map_err(|e| format!("valid COSE_Mac0 rejected: {:?}", e))?;
            edit(&mut v.protected.header, g);
            if v.payload.is_some() {
                let mut seen = vec![];
                let _: Result<(), ()> = v.verify_tag(&aad, |_, d| {
                    seen = d.to_vec();
                    Ok(())
                });
                check_in("edited view: verify_tag closure", &seen, 1, &v.protected)?;
            }
            check_in("edited view: mac_structure_data", &mac_structure_data(MacContext::CoseMac0, v.protected.clone(), &aad, b"p"), 1, &v.protected)?;
            let out = v.to_vec().map_err(|e| format!("{:?}", e))?;
            ensure!(slot0(&out)? == w, "edited view: re-encoding carries {} in the protected slot, received {}", hex_trunc(&slot0(&out)?, 60), hex_trunc(&w, 60));
        }
        _ => {
            let mut v = CoseEncrypt0::from_slice(&bytes).map_err(|e| format!("valid COSE_Encrypt0 rejected: {:?}", e))?;
            edit(&mut v.protected.header, g);
            if v.ciphertext.is_some() {
                let mut seen = vec![];
                let _: Result<Vec<u8>, ()> = v.decrypt(&aad, |_, a| {
                    seen = a.to_vec();
                    Ok(vec![])
                });
                check_in("edited view: decrypt closure", &seen, 1, &v.protected)?;
            }
            check_in("edited view: enc_structure_data", &enc_structure_data(EncryptionContext::CoseEncrypt0, v.protected.clone(), &aad), 1, &v.protected)?;
            let out = v.to_vec().map_err(|e| format!("{:?}", e))?;
            ensure!(slot0(&out)? == w, "edited view: re-encoding carries {} in the protected slot, received {}", hex_trunc(&slot0(&out)?, 60), hex_trunc(&w, 60));
        }
    }
    Ok(())
}

/// Whatever the decoder accepts (messages with one planted fault — most must be rejected, which is
/// C08/C09's business): the protected bytes it retains are the content of the protected byte string
/// as received, read off the wire by the harness' own reader, and they are what it writes back.
fn accepted_any_case(g: &mut Gen, ctx: &mut Ctx) -> CaseResult {
    let kind = *g.pick(&[Kind::Sign1, Kind::Mac0, Kind::Encrypt0, Kind::Signature, Kind::Recipient]);
    let item = gen_msg(g, kind, &mut Faults::one(), 1);
    let o = if g.bool() { StyleOpts::NONE } else { StyleOpts::ALL };
    let (bytes, _) = styled(&item, g, o);
    let slots = match crate::cbor::read_lenient(&bytes) {
        Ok(Item::Array(a)) => a,
        _ => return Ok(()),
    };
    let w = match slots.first().and_then(|x| x.as_bytes()) {
        Some(w) => w.clone(),
        None => return Ok(()),
    };
    let retained: Option<Vec<u8>> = match kind {
        Kind::Sign1 => CoseSign1::from_slice(&bytes).ok().map(|v| (v.protected.original_data.clone(), v.to_vec())),
        Kind::Mac0 => CoseMac0::from_slice(&bytes).ok().map(|v| (v.protected.original_data.clone(), v.to_vec())),
        Kind::Encrypt0 => CoseEncrypt0::from_slice(&bytes).ok().map(|v| (v.protected.original_data.clone(), v.to_vec())),
        Kind::Signature => CoseSignature::from_slice(&bytes).ok().map(|v| (v.protected.original_data.clone(), v.to_vec())),
        _ => CoseRecipient::from_slice(&bytes).ok().map(|v| (v.protected.original_data.clone(), v.to_vec())),
    }
    .map(|(od, out)| -> Result<Vec<u8>, String> {
        let od = od.ok_or("accepted message without retained protected bytes")?;
        let out = out.map_err(|e| format!("accepted message fails to re-encode: {:?}", e))?;
        let back = elem(&out, 0)?;
        if back != od {
            return Err(format!("re-encoding carries {} in the protected slot, retained {}", hex_trunc(&back, 60), hex_trunc(&od, 60)));
        }
        Ok(od)
    })
    .transpose()?;
    if let Some(od) = retained {
        ctx.classf(format!("accepted-any:{}", kind.name()));
        ctx.nontrivial(hash_str(&format!("aa|{}", hex_trunc(&bytes, 400))));
        ensure!(od == w, "accepted {}: retained protected bytes {} differ from the received ones {} ({})", kind.name(), hex_trunc(&od, 60), hex_trunc(&w, 60), hex_trunc(&bytes, 80));
    }
    Ok(())
}

/// Siblings of mixed provenance in one list: decoded signers / recipients / counter-signatures
/// (received bytes retained, mostly not the crate's own encoding) next to built twins that carry the
/// *same header content* without retained bytes, in any order.  Every slot of the re-encoded list
/// holds its own element's bytes: the received ones for a decoded element, the encoding of the
/// header for a built one; and the to-be-signed bytes of each signer use that signer's bytes.
fn mixed_siblings_case(g: &mut Gen, ctx: &mut Ctx) -> CaseResult {
    let kind = *g.pick(&[Kind::Sign, Kind::Sign, Kind::Encrypt, Kind::Mac, Kind::Recipient]);
    let item = gen_msg(g, kind, &mut Faults::none(), 1);
    let (bytes, enc) = styled(&item, g, StyleOpts::ALL);
    let mut mc = MCtx::default();
    if m_msg(kind, &enc, &mut mc).is_err() || mc.unspecified {
        return Ok(());
    }
    let aad = g.small_bytes();
    // expected content of a protected slot
    fn want(p: &ProtectedHeader) -> Result<Vec<u8>, String> {
        match &p.original_data {
            Some(w) => Ok(w.clone()),
            None if p.header == Header::default() => Ok(vec![]),
            None => p.header.clone().to_vec().map_err(|e| format!("header of a decoded element does not encode on its own: {:?}", e)),
        }
    }
    macro_rules! mix {
        ($list:expr, $ty:ident) => {{
            let mut out: Vec<$ty> = vec![];
            for e in $list.iter() {
                let twin = $ty { protected: ProtectedHeader { original_data: None, header: e.protected.header.clone() }, ..e.clone() };
                match g.below(4) {
                    0 => out.push(e.clone()),
                    1 => { out.push(twin); out.push(e.clone()); }
                    2 => { out.push(e.clone()); out.push(twin); }
                    _ => { out.push(twin.clone()); out.push(e.clone()); out.push(twin); }
                }
            }
            out
        }};
    }
    let check_list = |out: &[u8], slot: Option<usize>, wants: &[Vec<u8>], what: &str| -> CaseResult {
        let read = read_strict(out).map_err(|e| format!("{}: re-encoding not strict CBOR: {:?}", what, e))?;
        let list = match slot {
            Some(s) => read.as_array().and_then(|a| a.get(s)).cloned(),
            None => read.as_map().and_then(|m| m.iter().find(|(k, _)| *k == Item::Int(7))).map(|(_, v)| v.clone()),
        };
        let list = list.and_then(|x| x.as_array().cloned()).ok_or_else(|| format!("{}: no nested list in the re-encoding", what))?;
        // a single counter-signature is inlined
        let list: Vec<Item> = if slot.is_none() && wants.len() == 1 { vec![Item::Array(list)] } else { list };
        ensure!(list.len() == wants.len(), "{}: re-encoding carries {} nested structures, the value holds {}", what, list.len(), wants.len());
        for (i, n) in list.iter().enumerate() {
            let got = n.as_array().and_then(|a| a.first()).and_then(|x| x.as_bytes()).ok_or("nested structure without protected bstr")?;
            ensure!(got == &wants[i], "{}: element {} of a list of mixed provenance: protected slot holds {} but this element's bytes are {}", what, i, hex_trunc(got, 60), hex_trunc(&wants[i], 60));
        }
        Ok(())
    };
    let nontrivial;
    match kind {
        Kind::Sign => {
            let mut v = CoseSign::from_slice(&bytes).map_err(|e| format!("valid COSE_Sign rejected: {:?}", e))?;
            v.signatures = mix!(v.signatures, CoseSignature);
            let wants: Vec<Vec<u8>> = v.signatures.iter().map(|s| want(&s.protected)).collect::<Result<_, _>>()?;
            nontrivial = v.signatures.len() >= 2;
            for (i, sg) in v.signatures.iter().enumerate() {
                let t = v.tbs_data(&aad, sg);
                ensure!(elem(&t, 2)? == wants[i], "COSE_Sign of mixed provenance: to-be-signed bytes of signer {} hold {} in the signer slot, this signer's bytes are {}", i, hex_trunc(&elem(&t, 2)?, 60), hex_trunc(&wants[i], 60));
            }
            // the same signatures as counter-signatures of a header
            let h = Header { counter_signatures: v.signatures.clone(), ..Default::default() };
            if !h.counter_signatures.is_empty() {
                check_list(&h.to_vec().map_err(|e| format!("header with counter-signatures of mixed provenance fails to encode: {:?}", e))?, None, &wants, "counter-signatures")?;
            }
            check_list(&v.clone().to_vec().map_err(|e| format!("COSE_Sign of mixed provenance fails to encode: {:?}", e))?, Some(3), &wants, "COSE_Sign")?;
        }
        Kind::Encrypt => {
            let mut v = CoseEncrypt::from_slice(&bytes).map_err(|e| format!("valid COSE_Encrypt rejected: {:?}", e))?;
            v.recipients = mix!(v.recipients, CoseRecipient);
            let wants: Vec<Vec<u8>> = v.recipients.iter().map(|s| want(&s.protected)).collect::<Result<_, _>>()?;
            nontrivial = v.recipients.len() >= 2;
            check_list(&v.to_vec().map_err(|e| format!("COSE_Encrypt of mixed provenance fails to encode: {:?}", e))?, Some(3), &wants, "COSE_Encrypt")?;
        }
        Kind::Mac => {
            let mut v = CoseMac::from_slice(&bytes).map_err(|e| format!("valid COSE_Mac rejected: {:?}", e))?;
            v.recipients = mix!(v.recipients, CoseRecipient);
            let wants: Vec<Vec<u8>> = v.recipients.iter().map(|s| want(&s.protected)).collect::<Result<_, _>>()?;
            nontrivial = v.recipients.len() >= 2;
            check_list(&v.to_vec().map_err(|e| format!("COSE_Mac of mixed provenance fails to encode: {:?}", e))?, Some(4), &wants, "COSE_Mac")?;
        }
        _ => {
            let mut v = CoseRecipient::from_slice(&bytes).map_err(|e| format!("valid COSE_recipient rejected: {:?}", e))?;
            if v.recipients.is_empty() {
                return Ok(());
            }
            v.recipients = mix!(v.recipients, CoseRecipient);
            let wants: Vec<Vec<u8>> = v.recipients.iter().map(|s| want(&s.protected)).collect::<Result<_, _>>()?;
            nontrivial = v.recipients.len() >= 2;
            check_list(&v.to_vec().map_err(|e| format!("COSE_recipient of mixed provenance fails to encode: {:?}", e))?, Some(3), &wants, "COSE_recipient")?;
        }
    }
    ctx.classf(format!("mixed-siblings:{}", kind.name()));
    if nontrivial {
        ctx.nontrivial(hash_str(&format!("mix|{}", hex_trunc(&bytes, 400))));
        ctx.sample_with(|| format!("{} ({}) whose nested list mixes decoded elements with built twins of the same header content", kind.name(), hex_trunc(&bytes, 40)));
    }
    Ok(())
}

fn case(g: &mut Gen, ctx: &mut Ctx) -> CaseResult {
    if g.ratio(1, 12) {
        return copy_case(g, ctx);
    }
    if g.ratio(1, 10) {
        return accepted_any_case(g, ctx);
    }
    if g.ratio(1, 10) {
        return edited_view_case(g, ctx);
    }
    if g.ratio(1, 10) {
        return builder_case(g, ctx);
    }
    if g.ratio(1, 10) {
        return mixed_siblings_case(g, ctx);
    }
    if g.ratio(1, 8) {
        kdf_case(g, ctx)
    } else {
        msg_case(g, ctx)
    }
}

pub fn property() -> Property {
    let _ = Item::Null;
    Property {
        id: "C02",
        title: "Protected-header bytes are kept and reused bit-for-bit, never re-encoded",
        rule: "valid messages of all eight structures with nesting <= 3 (signers, recipients, counter-signatures in protected and unprotected headers) and KDF contexts / SuppPubInfo, protected headers as h'', wrapped empty map or wrapped header map, \
               everything encoded in two independently drawn styles (head widths, indefinite lengths for maps, arrays, strings and the outer byte string itself, bignum integers, key order as generated); \
               oracle: retained bytes == wire bytes at every position; re-encoding carries the same bytes in every protected slot (strict reader); element 1 (and 2 for signers) of every to-be-signed / MACed / additional-data structure and closure argument == wire bytes; parsed views equal across styles; the retained bytes stay in force after the application edits the parsed view; Clone::clone / clone_from copies of decoded values carry the source's bytes; decoded signers / recipients / counter-signatures passed through the builders' add_* helpers keep their bytes in the built value and its encoding; \
               non-trivial = top-level protected bytes differ from the crate's own encoding of the parsed header, or nested protected positions exist; distinct by bytes",
        assumptions: &["positions: body, signers, recipients (depth <= 3), counter-signatures (recursively), SuppPubInfo"],
        exhaustive_domains: &[],
        case,
        exh_count: no_exh_count,
        exh_case: no_exh_case,
        bytes_case: None,
        quick_cases: 200_000,
        thorough_cases: 1_500_000,
        max_tape: 8192,
    }
}

//! C13 — an accepted input is exactly one CBOR item; byte and Value APIs agree.

use crate::cbor::{diag, encode, hex_trunc, Item, StyleOpts, Wrapped};
use crate::gen::Faults;
use crate::model::*;
use crate::props::common::*;
use crate::props::types::*;
use crate::run::{hash_bytes, no_exh_case, no_exh_count, CaseResult, Ctx, Property};
use crate::tape::Gen;
use coset::cbor::value::Value;

/// The laws on one byte string and one type; `g` supplies suffix choices.
fn check_bytes(t: &TypeOps, b: &[u8], g: &mut Gen, ctx: &mut Ctx) -> CaseResult {
    let got = (t.dec)(b);
    // differential: byte API == parse, then convert
    let via = match parse_one(b) {
        Ok(v) => (t.dec_value)(v).map_err(|_| ()),
        Err(()) => Err(()),
    };
    match (&got, &via) {
        (Ok(a), Ok(c)) => ensure!(a == c, "{}: from_slice and from_cbor_value(parse) yield different values on {}\n  {}\n  {}", t.name, hex_trunc(b, 200), a, c),
        (Err(_), Err(())) => {}
        (Ok(_), Err(())) => fail!("{}: from_slice accepts {} but CBOR-parsing then converting does not", t.name, hex_trunc(b, 200)),
        (Err(e), Ok(_)) => fail!("{}: from_slice rejects {} ({:?}) but CBOR-parsing then converting accepts", t.name, hex_trunc(b, 200), e),
    }
    // the same differential through the tagged entry point
    if let (Some(tag), Some(dec_tagged)) = (t.tag, t.dec_tagged) {
        let got_t = dec_tagged(b);
        let via_t = match parse_one(b) {
            Ok(Value::Tag(n, inner)) if n == tag => (t.dec_value)(*inner).map_err(|_| ()),
            _ => Err(()),
        };
        match (&got_t, &via_t) {
            (Ok(a), Ok(c)) => ensure!(a == c, "{}: from_tagged_slice and parse-then-convert yield different values on {}", t.name, hex_trunc(b, 200)),
            (Err(_), Err(())) => {}
            (Ok(_), Err(())) => fail!("{}: from_tagged_slice accepts {} but CBOR-parsing the bytes, removing the tag and converting does not", t.name, hex_trunc(b, 200)),
            (Err(e), Ok(_)) => fail!("{}: from_tagged_slice rejects {} ({:?}) but CBOR-parsing the bytes, removing the tag and converting accepts", t.name, hex_trunc(b, 200), e),
        }
    }
    if got.is_err() {
        return Ok(());
    }
    ctx.classf(format!("accepted:{}", t.name));
    if b.len() >= 2 {
        ctx.nontrivial(hash_bytes(&[t.name.as_bytes(), b].concat()));
        ctx.sample_with(|| format!("{} <- {}", t.name, hex_trunc(b, 64)));
    }
    // every proper prefix is rejected
    let cuts: Vec<usize> = if ctx.quiet && b.len() > 24 {
        // libFuzzer target: a sample of cut points per execution (the campaign supplies volume)
        let mut v: Vec<usize> = (0..8).collect();
        v.extend((b.len() - 8)..b.len());
        for _ in 0..8 {
            v.push(g.below(b.len()));
        }
        v
    } else if b.len() <= 512 {
        (0..b.len()).collect()
    } else {
        let mut v: Vec<usize> = (0..64).collect();
        v.extend((b.len() - 64)..b.len());
        for _ in 0..64 {
            v.push(g.below(b.len()));
        }
        v
    };
    for k in cuts {
        if let Ok(v) = (t.dec)(&b[..k]) {
            fail!("{}: proper prefix of length {} of accepted input {} is accepted as {}", t.name, k, hex_trunc(b, 200), short(&v, 200));
        }
    }
    // any non-empty suffix => extraneous-data error
    let mut suffixes: Vec<Vec<u8>> = vec![vec![0x00], vec![0xff], vec![0xf6], b.to_vec(), vec![0xa0], vec![0x40]];
    for _ in 0..4 {
        suffixes.push(vec![g.byte()]);
    }
    suffixes.push(g.nonempty_bytes());
    for s in &suffixes {
        let mut x = b.to_vec();
        x.extend_from_slice(s);
        match (t.dec)(&x) {
            Err(e) if is_extraneous(&e) => {}
            Err(e) => fail!("{}: accepted input {} followed by {} rejected with {:?}, not the extraneous-data error", t.name, hex_trunc(b, 120), hex_trunc(s, 16), e),
            Ok(_) => fail!("{}: accepted input {} followed by {} is still accepted", t.name, hex_trunc(b, 120), hex_trunc(s, 16)),
        }
    }
    // encode direction: to_vec == serialise(to_cbor_value)
    if let (Some(Ok(direct)), Some(Ok(v))) = ((t.recode)(b), (t.to_value)(b)) {
        let viav = serialise(&v).map_err(|_| format!("{}: to_cbor_value output does not serialise", t.name))?;
        ensure!(direct == viav, "{}: to_vec differs from serialising to_cbor_value: {} vs {}", t.name, hex_trunc(&direct, 120), hex_trunc(&viav, 120));
    }
    // tagged entry points
    if let (Some(tag), Some(dec_tagged), Some(recode_tagged)) = (t.tag, t.dec_tagged, t.recode_tagged) {
        let mut tb = vec![];
        crate::cbor::head(&mut tb, 6, tag);
        tb.extend_from_slice(b);
        match dec_tagged(&tb) {
            Ok(v) => ensure!(Some(&v) == got.as_ref().ok(), "{}: tagged decoding differs from untagged", t.name),
            Err(e) => {
                // Whether the tag applied to an accepted body must itself be accepted is C14's statement (it is
                // not at the parser's recursion limit, where the tag head takes the last level: C14's known
                // finding).  What this property demands is that the two API layers agree on the tagged bytes.
                let via = match parse_one(&tb) {
                    Ok(Value::Tag(n, inner)) if n == tag => (t.dec_value)(*inner).map_err(|_| ()),
                    _ => Err(()),
                };
                ensure!(via.is_err(), "{}: tag || accepted input rejected by the tagged decoder ({:?}) but accepted by parse-then-convert", t.name, e);
                return Ok(());
            }
        }
        for k in 0..tb.len().min(600) {
            ensure!(dec_tagged(&tb[..k]).is_err(), "{}: proper prefix (len {}) of an accepted tagged input accepted", t.name, k);
        }
        for s in suffixes.iter().take(5) {
            let mut x = tb.clone();
            x.extend_from_slice(s);
            match dec_tagged(&x) {
                Err(e) if is_extraneous(&e) => {}
                Err(e) => fail!("{}: accepted tagged input + {} rejected with {:?}, not the extraneous-data error", t.name, hex_trunc(s, 16), e),
                Ok(_) => fail!("{}: accepted tagged input + {} still accepted", t.name, hex_trunc(s, 16)),
            }
        }
        if let Some(Ok(out)) = recode_tagged(&tb) {
            let v = parse_one(&out).map_err(|_| format!("{}: to_tagged_vec output does not parse", t.name))?;
            match v {
                Value::Tag(n, inner) => {
                    ensure!(n == tag, "{}: to_tagged_vec used tag {}", t.name, n);
                    let plain = (t.recode)(b).unwrap().map_err(|e| format!("{:?}", e))?;
                    ensure!(serialise(&inner).ok() == Some(plain), "{}: tagged encoding body differs from untagged encoding", t.name);
                }
                _ => fail!("{}: to_tagged_vec output is not a tag", t.name),
            }
        }
    }
    Ok(())
}

/// Trailing / truncated content *inside* a protected byte string.
fn check_inside_protected(g: &mut Gen, ctx: &mut Ctx) -> CaseResult {
    let kind = *g.pick(&KINDS);
    let hdr = crate::gen::gen_header(g, &mut Faults::none(), 1);
    let mut mc = MCtx::default();
    if m_header(&hdr, &mut mc).is_err() {
        return Ok(());
    }
    let clean = carrier(kind, Wrapped::new(hdr.clone()), Item::Map(vec![]));
    let (cb, _) = plain(&clean);
    if decode_msg(kind, &cb).is_err() {
        // (a valid header inside a valid carrier: C08/C09 own this; nothing to perturb here)
        return Ok(());
    }
    let hb = encode(&hdr);
    if hb.len() < 2 {
        return Ok(());
    }
    ctx.classf(format!("inside-protected:{}", kind.name()));
    let junk = match g.below(4) {
        0 => vec![0x00],
        1 => vec![0xa0],
        2 => hb.clone(),
        _ => g.nonempty_bytes(),
    };
    let w = Item::Wrapped(Box::new(Wrapped { inner: hdr.clone(), junk: junk.clone(), cut: 0, wire: None }));
    let (b, _) = plain(&carrier(kind, w, Item::Map(vec![])));
    ctx.nontrivial(hash_bytes(&b));
    ctx.sample_with(|| format!("{} with trailing {} inside its protected bstr: {}", kind.name(), hex_trunc(&junk, 8), hex_trunc(&b, 64)));
    match decode_msg(kind, &b) {
        Err(e) if is_extraneous(&e) => {}
        Err(e) => fail!("{}: protected header bytes followed by {} rejected with {:?}, not the extraneous-data error\n  header {}", kind.name(), hex_trunc(&junk, 8), e, diag(&hdr)),
        Ok(_) => fail!("{}: protected header bytes followed by {} accepted\n  header {}\n  bytes {}", kind.name(), hex_trunc(&junk, 8), diag(&hdr), hex_trunc(&b, 200)),
    }
    let cut = 1 + g.below(hb.len() - 1);
    let w = Item::Wrapped(Box::new(Wrapped { inner: hdr.clone(), junk: vec![], cut, wire: None }));
    let (b, _) = plain(&carrier(kind, w, Item::Map(vec![])));
    if decode_msg(kind, &b).is_ok() {
        fail!("{}: protected header bytes truncated by {} accepted\n  header {}\n  bytes {}", kind.name(), cut, diag(&hdr), hex_trunc(&b, 200));
    }
    Ok(())
}

/// Protected headers obtained by decoding a carrier (they retain wire bytes, unlike those the
/// byte-level decoder of `ProtectedHeader` itself yields): byte-level encoding == serialising the
/// `Value` form, for every retained encoding (zero-length, non-minimal, indefinite, unsorted).
fn check_decoded_protected(g: &mut Gen, ctx: &mut Ctx) -> CaseResult {
    use coset::{AsCborValue, CborSerializable};
    let item = crate::gen::gen_msg(g, Kind::Sign1, &mut Faults::none(), 1);
    let (b, enc) = styled(&item, g, StyleOpts::ALL);
    if m_msg(Kind::Sign1, &enc, &mut MCtx::default()).is_err() {
        return Ok(());
    }
    let v = coset::CoseSign1::from_slice(&b).map_err(|e| format!("valid COSE_Sign1 rejected: {:?}", e))?;
    let mut ps = vec![v.protected.clone()];
    for h in [&v.unprotected, &v.protected.header] {
        for cs in &h.counter_signatures {
            ps.push(cs.protected.clone());
        }
    }
    ctx.class("decoded-protected");
    for p in ps {
        let bytes = p.clone().to_vec().map_err(|e| format!("decoded ProtectedHeader fails to encode: {:?}", e))?;
        let via = serialise(&p.clone().to_cbor_value().map_err(|e| format!("decoded ProtectedHeader fails to convert: {:?}", e))?).map_err(|_| "serialise")?;
        ctx.nontrivial(hash_bytes(&[&b"dp"[..], &bytes, p.original_data.as_deref().unwrap_or(&[])].concat()));
        ctx.sample_with(|| format!("decoded ProtectedHeader retaining {}: to_vec vs serialise(to_cbor_value)", hex_trunc(p.original_data.as_deref().unwrap_or(&[]), 32)));
        ensure!(bytes == via, "ProtectedHeader (retained bytes {}): to_vec gives {} but serialising to_cbor_value gives {}", hex_trunc(p.original_data.as_deref().unwrap_or(&[]), 60), hex_trunc(&bytes, 60), hex_trunc(&via, 60));
        // and what it emits is exactly one item that its own decoder accepts
        ensure!(parse_one(&bytes).is_ok(), "ProtectedHeader::to_vec output {} is not exactly one CBOR item", hex_trunc(&bytes, 60));
    }
    Ok(())
}

#[cfg(feature = "own_impls")]
mod foreign {
    use super::*;
    /// A type of the harness' own that implements the crate's public serialisation traits with an
    /// arbitrary tag number, like an application type would: the provided `to_tagged_vec` /
    /// `from_tagged_slice` must agree with the Value-level forms for every tag number.
    #[derive(Clone, Debug, PartialEq)]
    struct Foreign<const T: u64>(Value);
    impl<const T: u64> coset::AsCborValue for Foreign<T> {
        fn from_cbor_value(value: Value) -> coset::Result<Self> {
            Ok(Foreign(value))
        }
        fn to_cbor_value(self) -> coset::Result<Value> {
            Ok(self.0)
        }
    }
    impl<const T: u64> coset::CborSerializable for Foreign<T> {}
    impl<const T: u64> coset::TaggedCborSerializable for Foreign<T> {
        const TAG: u64 = T;
    }

    fn check_foreign_one<const T: u64>(v: &Value, ctx: &mut Ctx) -> CaseResult {
        use coset::{CborSerializable, TaggedCborSerializable};
        let x = Foreign::<T>(v.clone());
        let tagged = x.clone().to_tagged_vec().map_err(|e| format!("to_tagged_vec failed for tag {}: {:?}", T, e))?;
        let via = serialise(&Value::Tag(T, Box::new(v.clone()))).map_err(|_| "serialise")?;
        ctx.nontrivial(hash_bytes(&[&T.to_be_bytes()[..], &tagged].concat()));
        ctx.sample_with(|| format!("foreign type with tag {}: to_tagged_vec {}", T, hex_trunc(&tagged, 24)));
        ensure!(tagged == via, "a type with TAG = {}: to_tagged_vec gives {} but serialising Tag(TAG, to_cbor_value) gives {}", T, hex_trunc(&tagged, 40), hex_trunc(&via, 40));
        let mut want = vec![];
        crate::cbor::head(&mut want, 6, T);
        want.extend_from_slice(&x.clone().to_vec().map_err(|e| format!("{:?}", e))?);
        ensure!(tagged == want, "a type with TAG = {}: to_tagged_vec is not the minimal tag head followed by to_vec: {}", T, hex_trunc(&tagged, 40));
        match Foreign::<T>::from_tagged_slice(&tagged) {
            Ok(back) => ensure!(crate::props::common::same(&back, &x), "a type with TAG = {}: from_tagged_slice(to_tagged_vec(x)) != x", T),
            Err(e) => fail!("a type with TAG = {}: from_tagged_slice rejects to_tagged_vec output: {:?}", T, e),
        }
        // every other tag number is refused
        let mut other = vec![];
        crate::cbor::head(&mut other, 6, if T == u64::MAX { T - 1 } else { T + 1 });
        other.extend_from_slice(&x.to_vec().map_err(|e| format!("{:?}", e))?);
        ensure!(Foreign::<T>::from_tagged_slice(&other).is_err(), "a type with TAG = {} accepts the neighbouring tag number", T);
        Ok(())
    }

    pub fn check_foreign_tags(g: &mut Gen, ctx: &mut Ctx) -> CaseResult {
        let item = crate::gen::gen_value(g, 1, false);
        let v = match crate::conv::item_to_value(&item) {
            Some(v) => v,
            None => return Ok(()),
        };
        ctx.class("foreign-tagged-type");
        macro_rules! all {
            ($($t:expr),*) => { $( check_foreign_one::<{ $t }>(&v, ctx)?; )* };
        }
        all!(0, 1, 23, 24, 255, 256, 65535, 65536, 0x00ff_ffff, 0x0100_0000, 0x0fff_ffff, 0x1000_0000, 0x6374_0101, 0x7fff_ffff, 0x8000_0000, 0xffff_ffff,
             0x1_0000_0000, 0xff_ffff_ffff, 0x7fff_ffff_ffff_ffff, 0x8000_0000_0000_0000, 0xffff_ffff_ffff_ffff);
        Ok(())
    }
}
#[cfg(feature = "own_impls")]
pub(crate) use foreign::check_foreign_tags;
#[cfg(not(feature = "own_impls"))]
pub(crate) fn check_foreign_tags(_g: &mut Gen, ctx: &mut Ctx) -> CaseResult {
    ctx.class("foreign-tagged-type:not-built");
    Ok(())
}

/// Values nested right at the CBOR parser's recursion limit (256), inside an unprotected header,
/// through the untagged and the tagged entry points: both API layers must draw the line at the same depth.
fn check_depth_boundary(g: &mut Gen, ctx: &mut Ctx) -> CaseResult {
    let d = 244 + g.below(18);
    let opener: u8 = *g.pick(&[0x81u8, 0x81, 0x9f, 0xc1]);
    let mut deep = vec![];
    for _ in 0..d {
        deep.push(opener);
    }
    deep.push(0x00);
    if opener == 0x9f {
        for _ in 0..d {
            deep.push(0xff);
        }
    }
    let types = all_types();
    let t = &types[g.below(types.len())];
    // body: a message / header / key / claims carrying the deep value under an unknown label
    let body = match t.shape {
        Shape::Msg(k) => {
            let mut hdr = vec![0xa1, 0x18, 0x63];
            hdr.extend_from_slice(&deep);
            let mut b = match k {
                Kind::Signature | Kind::Encrypt0 | Kind::Recipient => vec![0x83, 0x40],
                Kind::Mac => vec![0x85, 0x40],
                _ => vec![0x84, 0x40],
            };
            b.extend_from_slice(&hdr);
            match k {
                Kind::Signature => b.push(0x40),
                Kind::Sign1 | Kind::Mac0 => b.extend_from_slice(&[0xf6, 0x40]),
                Kind::Sign | Kind::Encrypt => b.extend_from_slice(&[0xf6, 0x80]),
                Kind::Mac => b.extend_from_slice(&[0xf6, 0x40, 0x80]),
                Kind::Encrypt0 | Kind::Recipient => b.push(0xf6),
            }
            b
        }
        Shape::Key => [&[0xa2u8, 0x01, 0x01, 0x18, 0x63][..], &deep].concat(),
        Shape::Header | Shape::Claims => [&[0xa1u8, 0x18, 0x63][..], &deep].concat(),
        _ => deep.clone(),
    };
    let tagged = t.tag.is_some() && g.bool();
    let b = if let (true, Some(tag)) = (tagged, t.tag) {
        let mut x = vec![];
        crate::cbor::head(&mut x, 6, tag);
        x.extend_from_slice(&body);
        x
    } else {
        body
    };
    ctx.classf(format!("depth-boundary:{}", d));
    ctx.nontrivial(hash_bytes(&[t.name.as_bytes(), &b].concat()));
    ctx.sample_with(|| format!("{}{} with a value nested {} deep: {}", t.name, if tagged { " (tagged)" } else { "" }, d, hex_trunc(&b, 24)));
    depth_differentials(t, &b, d, ctx)
}

fn depth_differentials(t: &TypeOps, b: &[u8], d: usize, ctx: &mut Ctx) -> CaseResult {
    let _ = &ctx;
    // only the differentials matter here (prefix/suffix work on such inputs is quadratic)
    let got = (t.dec)(b);
    let via = match parse_one(b) {
        Ok(v) => (t.dec_value)(v).map_err(|_| ()),
        Err(()) => Err(()),
    };
    ensure!(got.is_ok() == via.is_ok(), "{}: from_slice {} but parse-then-convert {} for a value nested {} deep", t.name, if got.is_ok() { "accepts" } else { "rejects" }, if via.is_ok() { "accepts" } else { "rejects" }, d);
    if let (Some(tag), Some(dec_tagged)) = (t.tag, t.dec_tagged) {
        let got_t = dec_tagged(b);
        let via_t = match parse_one(b) {
            Ok(Value::Tag(n, inner)) if n == tag => (t.dec_value)(*inner).map_err(|_| ()),
            _ => Err(()),
        };
        ensure!(got_t.is_ok() == via_t.is_ok(), "{}: from_tagged_slice {} but parse-then-convert {} for a value nested {} deep ({})", t.name, if got_t.is_ok() { "accepts" } else { "rejects" }, if via_t.is_ok() { "accepts" } else { "rejects" }, d, hex_trunc(&b, 24));
    }
    // encode direction on what was accepted: to_vec == serialise(to_cbor_value), also at the limit
    if got.is_ok() {
        if let (Some(enc), Some(val)) = ((t.recode)(b), (t.to_value)(b)) {
            let via = val.map_err(|e| format!("{:?}", e)).and_then(|v| serialise(&v).map_err(|_| "serialise failed".to_string()));
            match (enc, via) {
                (Ok(x), Ok(y)) => ensure!(x == y, "{}: to_vec differs from serialising to_cbor_value for a value nested {} deep", t.name, d),
                (Err(_), Err(_)) => {}
                (x, y) => fail!("{}: for an accepted value nested {} deep to_vec {} but converting and serialising {}", t.name, d, if x.is_ok() { "succeeds" } else { "fails" }, if y.is_ok() { "succeeds" } else { "fails" }),
            }
        }
    }
    if let (Some(rt), Some(dec_tagged)) = (t.recode_tagged, t.dec_tagged) {
        if dec_tagged(b).is_ok() {
            if let Some(r) = rt(b) {
                ensure!(r.is_ok(), "{}: a value accepted through the tagged entry point (nested {} deep) fails to encode tagged: {:?}", t.name, d, r.err());
            }
        }
    }
    Ok(())
}

/// The same differentials with the limit-depth value planted at a position drawn from a generated
/// valid item of the type: an extra of any header / key / claims set at any nesting level (body,
/// signer, recipient, counter-signature, key inside a key set, protected content), so that every
/// place where the crate might start a parse of its own is probed at the parser's limit.
fn check_depth_boundary_planted(g: &mut Gen, ctx: &mut Ctx) -> CaseResult {
    let types = all_types();
    let t = &types[g.below(types.len())];
    let mut item = gen_for_shape(g, t.shape, &mut Faults::none());
    let tagged = t.tag.is_some() && g.bool();
    let total = 252 + g.below(8);
    let (p, d) = match plant_deep(&mut item, g, total, tagged as usize) {
        Some(x) => x,
        None => return check_depth_boundary(g, ctx),
    };
    let body = if g.bool() { plain(&item).0 } else { styled(&item, g, StyleOpts::ALL).0 };
    let b = if let (true, Some(tag)) = (tagged, t.tag) {
        let mut x = vec![];
        crate::cbor::head(&mut x, 6, tag);
        x.extend_from_slice(&body);
        x
    } else {
        body
    };
    ctx.classf(format!("depth-boundary-planted:{}:total-{}", t.name, total));
    ctx.classf(format!("depth-boundary-planted:map-at-depth-{}", p.min(9)));
    ctx.nontrivial(hash_bytes(&[t.name.as_bytes(), &b].concat()));
    ctx.sample_with(|| format!("{}{}: value nested {} deep planted in a map at depth {}: {}", t.name, if tagged { " (tagged)" } else { "" }, d, p, hex_trunc(&b, 24)));
    depth_differentials(t, &b, d, ctx)
}

/// Integers in the bignum spellings the CBOR library leaves as tags (over an indefinite-length or a
/// zero-padded byte string), as a label, as an interpreted value and as an opaque value of a header,
/// a key, a claims set and inside message bodies: whatever one API layer makes of them, the other makes
/// the same of them.
fn check_unfolded_bignums(g: &mut Gen, ctx: &mut Ctx) -> CaseResult {
    const SPELLINGS: [&[u8]; 5] = [&[0xc2, 0x5f, 0x41, 0x01, 0xff], &[0xc3, 0x5f, 0x41, 0x06, 0xff], &[0xc2, 0x51, 0, 0, 0, 0, 0, 0, 0, 0, 0, 0, 0, 0, 0, 0, 0, 0, 0x04], &[0xc2, 0x5f, 0x41, 0x01, 0x40, 0xff], &[0xc3, 0x5f, 0xff]];
    let sp = *g.pick(&SPELLINGS);
    let b: Vec<u8> = match g.below(8) {
        0 => crate::props::c14::palette()[g.below(crate::props::c14::palette().len())].clone(),
        1 => sp.to_vec(),
        2 => [&[0xa1u8][..], sp, &[0x00]].concat(),
        3 => [&[0xa1u8, 0x01][..], sp].concat(),
        4 => [&[0xa2u8, 0x01, 0x01][..], sp, &[0x00]].concat(),
        5 => [&[0xa1u8, 0x18, 0x64][..], sp].concat(),
        6 => [&[0xa1u8, 0x04][..], sp].concat(),
        _ => [&[0x83u8, 0xf6][..], sp, &[0xf6]].concat(),
    };
    ctx.class("unfolded-bignum-spelling");
    ctx.nontrivial(hash_bytes(&b));
    ctx.sample_with(|| format!("bignum spelling the CBOR library does not fold: {}", hex_trunc(&b, 40)));
    for t in all_types() {
        let got = (t.dec)(&b);
        let via = match parse_one(&b) {
            Ok(v) => (t.dec_value)(v).map_err(|_| ()),
            Err(()) => Err(()),
        };
        match (&got, &via) {
            (Ok(x), Ok(y)) => ensure!(x == y, "{}: from_slice and from_cbor_value(parse) yield different values on {}", t.name, hex_trunc(&b, 40)),
            (Err(_), Err(_)) => {}
            _ => fail!("{}: from_slice {} but parse-then-convert {} on {}", t.name, if got.is_ok() { "accepts" } else { "rejects" }, if via.is_ok() { "accepts" } else { "rejects" }, hex_trunc(&b, 40)),
        }
    }
    Ok(())
}

/// Lists whose length sits on a CBOR head-width boundary (23 / 24, 255 / 256, 65535 / 65536), for
/// every list the crate writes itself: keys of a key set, signers, recipients, counter-signatures,
/// crit entries, key operations (texts), trailing KDF strings.  Byte-level encoding equals
/// serialising the converted item there too.
fn check_list_lengths(g: &mut Gen, ctx: &mut Ctx) -> CaseResult {
    let n = *g.pick(&[0usize, 1, 22, 23, 24, 25, 254, 255, 256, 257, 65534, 65535, 65536, 65537]);
    let rep = |prefix: &[u8], n: usize, elem: &dyn Fn(usize) -> Vec<u8>, suffix: &[u8]| -> Vec<u8> {
        let mut b = prefix.to_vec();
        crate::cbor::head(&mut b, 4, n as u64);
        for i in 0..n {
            b.extend_from_slice(&elem(i));
        }
        b.extend_from_slice(suffix);
        b
    };
    let text = |i: usize| -> Vec<u8> {
        let t = format!("{:05x}", i);
        let mut b = vec![0x60 + t.len() as u8];
        b.extend_from_slice(t.as_bytes());
        b
    };
    let (name, b): (&str, Vec<u8>) = match g.below(7) {
        0 => ("CoseKeySet", rep(&[], n, &|_| vec![0xa1, 0x01, 0x01], &[])),
        1 => ("CoseSign", rep(&[0x84, 0x40, 0xa0, 0xf6], n, &|_| vec![0x83, 0x40, 0xa0, 0x40], &[])),
        2 => ("CoseEncrypt", rep(&[0x84, 0x40, 0xa0, 0xf6], n, &|_| vec![0x83, 0x40, 0xa0, 0xf6], &[])),
        3 => ("CoseMac", rep(&[0x85, 0x40, 0xa0, 0xf6, 0x40], n, &|_| vec![0x83, 0x40, 0xa0, 0xf6], &[])),
        4 => ("Header", rep(&[0xa1, 0x07], n.max(2), &|_| vec![0x83, 0x40, 0xa0, 0x40], &[])),
        5 => ("Header", rep(&[0xa1, 0x02], n.max(1), &|_| vec![0x01], &[])),
        _ => ("CoseKey", rep(&[0xa2, 0x01, 0x01, 0x04], n.max(1), &text, &[])),
    };
    let t = all_types().iter().find(|t| t.name == name).ok_or("type")?;
    ctx.classf(format!("list-length:{}:{}", name, n));
    ctx.nontrivial(hash_bytes(&[name.as_bytes(), &(n as u64).to_be_bytes()[..], &b[..b.len().min(8)]].concat()));
    ctx.sample_with(|| format!("{} holding a list of {} elements: {}", name, n, hex_trunc(&b, 20)));
    let got = (t.dec)(&b);
    let via = match parse_one(&b) {
        Ok(v) => (t.dec_value)(v).map_err(|_| ()),
        Err(()) => Err(()),
    };
    ensure!(got.is_ok() == via.is_ok(), "{}: from_slice {} but parse-then-convert {} for a list of {} elements", name, if got.is_ok() { "accepts" } else { "rejects" }, if via.is_ok() { "accepts" } else { "rejects" }, n);
    if let (Some(Ok(direct)), Some(Ok(v))) = ((t.recode)(&b), (t.to_value)(&b)) {
        let viav = serialise(&v).map_err(|_| format!("{}: to_cbor_value output does not serialise", name))?;
        ensure!(direct == viav, "{}: to_vec differs from serialising to_cbor_value for a list of {} elements: {} vs {}", name, n, hex_trunc(&direct, 16), hex_trunc(&viav, 16));
    }
    Ok(())
}

fn case(g: &mut Gen, ctx: &mut Ctx) -> CaseResult {
    if g.ratio(1, 60) {
        return check_list_lengths(g, ctx);
    }
    if g.ratio(1, 25) {
        return check_unfolded_bignums(g, ctx);
    }
    if g.ratio(1, 6) {
        return check_inside_protected(g, ctx);
    }
    if g.ratio(1, 12) {
        return if g.bool() { check_depth_boundary(g, ctx) } else { check_depth_boundary_planted(g, ctx) };
    }
    if g.ratio(1, 12) {
        return check_decoded_protected(g, ctx);
    }
    if g.ratio(1, 40) {
        return check_foreign_tags(g, ctx);
    }
    let types = all_types();
    let t = &types[g.below(types.len())];
    let mut f = if g.ratio(1, 5) { Faults::one() } else { Faults::none() };
    let mut item = gen_for_shape(g, t.shape, &mut f);
    if g.ratio(1, 10) {
        // a valid encoding presented in a wrapper (tag 24 / bstr / another tag / array / hex text)
        let valid = gen_for_shape(g, t.shape, &mut Faults::none());
        item = crate::gen::gen_embedded(g, valid);
        ctx.class("embedded");
    }
    let o = if g.bool() { StyleOpts::NONE } else { StyleOpts::ALL };
    let (mut b, _) = styled(&item, g, o);
    // occasionally a byte-level mutation (the differential holds for every byte string)
    if g.ratio(1, 8) && !b.is_empty() {
        let at = g.below(b.len());
        b[at] = g.byte();
        ctx.class("mutated");
    }
    ctx.classf(format!("type:{}", t.name));
    // tagged types: often behind their registered tag; sometimes with one more tag outside it
    // (self-described CBOR, encoded-CBOR, CWT, the same tag again) or behind another tag
    if let Some(tag) = t.tag {
        if g.ratio(1, 3) {
            let mut layers: Vec<u64> = match g.weighted(&[6, 3, 1]) {
                0 => vec![tag],
                1 => vec![*g.pick(&[55799u64, 24, 61, 0]), tag],
                _ => vec![tag ^ 1],
            };
            if layers.len() == 2 && g.ratio(1, 4) {
                layers[0] = tag;
            }
            let mut x = vec![];
            for n in &layers {
                let widths: Vec<u8> = [0u8, 1, 2, 4, 8].iter().copied().filter(|w| *w >= crate::cbor::min_width(*n)).collect();
                crate::cbor::head_w(&mut x, 6, *n, *g.pick(&widths));
            }
            x.extend_from_slice(&b);
            ctx.classf(format!("tag-layers:{}", layers.len()));
            return check_bytes(t, &x, g, ctx);
        }
    }
    check_bytes(t, &b, g, ctx)
}

/// Raw-bytes oracle (corpus files, libFuzzer `bytes` target): every type on the same bytes.
pub fn bytes_case(b: &[u8], ctx: &mut Ctx) -> CaseResult {
    let seed = crate::run::hash_bytes(b).to_le_bytes();
    let mut g = Gen::new(&seed);
    for t in all_types() {
        check_bytes(t, b, &mut g, ctx)?;
    }
    Ok(())
}

pub fn property() -> Property {
    Property {
        id: "C13",
        title: "An accepted input is exactly one CBOR item; byte and Value APIs agree",
        rule: "byte strings from the structured generators of all 26 serialisable types (valid, one fault, styled, byte-mutated); for accepted inputs every cut point (all for <= 512 bytes, 192 sampled above) \
               and ~11 suffixes (single bytes, valid items, a copy of the input, garbage), also through the tagged entry points and inside protected byte strings; \
               differential from_slice vs from_cbor_value(parse) on every generated byte string; to_vec vs serialise(to_cbor_value); the provided tagged methods on a type of the harness' own for 21 tag numbers across all head widths; \
               non-trivial = accepted input of length >= 2; distinct by (type, bytes)",
        assumptions: &["'CBOR-parsing the bytes' = ciborium::de::from_reader requiring that no byte remains"],
        exhaustive_domains: &[],
        case,
        exh_count: no_exh_count,
        exh_case: no_exh_case,
        bytes_case: Some(bytes_case),
        quick_cases: 150_000,
        thorough_cases: 1_500_000,
        max_tape: 2048,
    }
}

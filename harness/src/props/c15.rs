//! C15 — integers are decoded exactly or rejected as out of range, never wrapped.

use crate::cbor::{encode, head_w, hex, min_width, read_strict, Item, INT_MAX, INT_MIN};
use crate::model::*;
use crate::props::common::*;
use crate::props::segment;
use crate::run::{hash_str, CaseResult, Ctx, Property, Tier};
use crate::tape::Gen;
use coset::cwt::ClaimsSet;
use coset::iana;
use coset::{
    CborSerializable, CoseError, CoseKdfContext, CoseKey, Header, Label, PartyInfo, RegisteredLabel,
    RegisteredLabelWithPrivate, SuppPubInfo,
};
use std::sync::OnceLock;

/// An interpreting (or not) position for an integer.
struct Pos {
    name: &'static str,
    /// the abstract item holding integer item `n`
    /// (n, the adjacent integer) -> abstract item
    build: fn(Item, Item) -> Item,
    /// decode, then re-encode
    recode: fn(&[u8]) -> Result<Result<Vec<u8>, CoseError>, CoseError>,
    /// model: does the statement accept this item? (only consulted when n is in the supported range)
    accepts: fn(&Item) -> bool,
    /// supported range is u64 instead of i64
    unsigned: bool,
    /// the crate does not interpret the integer here: preserved whatever its magnitude
    uninterpreted: bool,
}

fn map1(k: Item, v: Item) -> Item {
    Item::Map(vec![(k, v)])
}

macro_rules! recode {
    ($t:ty) => {
        |b: &[u8]| -> Result<Result<Vec<u8>, CoseError>, CoseError> { Ok(<$t>::from_slice(b)?.to_vec()) }
    };
}

/// The adjacent integer (n + 1, or n - 1 at the top of the 64-bit / CBOR range).
fn neighbour(n: &Item) -> Item {
    match n {
        Item::Int(v) if *v == i64::MAX as i128 || *v == INT_MAX => Item::Int(*v - 1),
        Item::Int(v) => Item::Int(*v + 1),
        o => o.clone(),
    }
}

fn party(n: Item) -> Item {
    Item::Array(vec![Item::Null, n, Item::Null])
}
fn nil_party() -> Item {
    Item::Array(vec![Item::Null, Item::Null, Item::Null])
}
fn supp(n: Item) -> Item {
    Item::Array(vec![n, Item::Bytes(vec![])])
}

fn positions() -> &'static Vec<Pos> {
    static P: OnceLock<Vec<Pos>> = OnceLock::new();
    P.get_or_init(|| {
        let mut mc = || MCtx::default();
        let _ = &mut mc;
        vec![
            Pos { name: "Label", build: |n, _m| n, recode: recode!(Label), accepts: |i| m_label(i).is_ok(), unsigned: false, uninterpreted: false },
            Pos { name: "header-label", build: |n, _m| map1(n, Item::Null), recode: recode!(Header), accepts: |i| m_header(i, &mut MCtx::default()).is_ok(), unsigned: false, uninterpreted: false },
            Pos { name: "key-label", build: |n, _m| Item::Map(vec![(Item::Int(1), Item::Int(1)), (n, Item::Null)]), recode: recode!(CoseKey), accepts: |i| m_key(i).is_ok(), unsigned: false, uninterpreted: false },
            Pos { name: "claim-key", build: |n, _m| map1(n, Item::Int(0)), recode: recode!(ClaimsSet), accepts: |i| m_claims(i).is_ok(), unsigned: false, uninterpreted: false },
            Pos { name: "header-alg", build: |n, _m| map1(Item::Int(1), n), recode: recode!(Header), accepts: |i| m_header(i, &mut MCtx::default()).is_ok(), unsigned: false, uninterpreted: false },
            Pos { name: "key-alg", build: |n, _m| Item::Map(vec![(Item::Int(1), Item::Int(1)), (Item::Int(3), n)]), recode: recode!(CoseKey), accepts: |i| m_key(i).is_ok(), unsigned: false, uninterpreted: false },
            Pos { name: "kdf-alg", build: |n, _m| Item::Array(vec![n, nil_party(), nil_party(), supp(Item::Int(1))]), recode: recode!(CoseKdfContext), accepts: |i| m_kdf(i, &mut MCtx::default()).is_ok(), unsigned: false, uninterpreted: false },
            Pos { name: "kty", build: |n, _m| map1(Item::Int(1), n), recode: recode!(CoseKey), accepts: |i| m_key(i).is_ok(), unsigned: false, uninterpreted: false },
            Pos { name: "content-type", build: |n, _m| map1(Item::Int(3), n), recode: recode!(Header), accepts: |i| m_header(i, &mut MCtx::default()).is_ok(), unsigned: false, uninterpreted: false },
            Pos { name: "crit-entry", build: |n, _m| map1(Item::Int(2), Item::Array(vec![Item::Int(1), n])), recode: recode!(Header), accepts: |i| m_header(i, &mut MCtx::default()).is_ok(), unsigned: false, uninterpreted: false },
            Pos { name: "key-ops-entry", build: |n, _m| Item::Map(vec![(Item::Int(1), Item::Int(1)), (Item::Int(4), Item::Array(vec![n]))]), recode: recode!(CoseKey), accepts: |i| m_key(i).is_ok(), unsigned: false, uninterpreted: false },
            Pos { name: "nonce", build: |n, _m| party(n), recode: recode!(PartyInfo), accepts: |i| m_party(i).is_ok(), unsigned: false, uninterpreted: false },
            Pos { name: "kdf-party-v-nonce", build: |n, _m| Item::Array(vec![Item::Int(1), nil_party(), party(n), supp(Item::Int(1))]), recode: recode!(CoseKdfContext), accepts: |i| m_kdf(i, &mut MCtx::default()).is_ok(), unsigned: false, uninterpreted: false },
            Pos { name: "exp", build: |n, _m| map1(Item::Int(4), n), recode: recode!(ClaimsSet), accepts: |i| m_claims(i).is_ok(), unsigned: false, uninterpreted: false },
            Pos { name: "nbf", build: |n, _m| map1(Item::Int(5), n), recode: recode!(ClaimsSet), accepts: |i| m_claims(i).is_ok(), unsigned: false, uninterpreted: false },
            Pos { name: "iat", build: |n, _m| map1(Item::Int(6), n), recode: recode!(ClaimsSet), accepts: |i| m_claims(i).is_ok(), unsigned: false, uninterpreted: false },
            Pos { name: "key-data-length", build: |n, _m| supp(n), recode: recode!(SuppPubInfo), accepts: |i| m_supp(i, &mut MCtx::default()).is_ok(), unsigned: true, uninterpreted: false },
            Pos { name: "kdf-key-data-length", build: |n, _m| Item::Array(vec![Item::Int(1), nil_party(), nil_party(), supp(n)]), recode: recode!(CoseKdfContext), accepts: |i| m_kdf(i, &mut MCtx::default()).is_ok(), unsigned: true, uninterpreted: false },
            Pos { name: "RegisteredLabel<Algorithm>", build: |n, _m| n, recode: recode!(RegisteredLabel<iana::Algorithm>), accepts: |i| m_reg_label(crate::registry::ALGORITHM, i).is_ok(), unsigned: false, uninterpreted: false },
            Pos { name: "RegisteredLabel<CoapContentFormat>", build: |n, _m| n, recode: recode!(RegisteredLabel<iana::CoapContentFormat>), accepts: |i| m_reg_label(crate::registry::COAP_CONTENT_FORMAT, i).is_ok(), unsigned: false, uninterpreted: false },
            Pos { name: "RegisteredLabelWithPrivate<Algorithm>", build: |n, _m| n, recode: recode!(RegisteredLabelWithPrivate<iana::Algorithm>), accepts: |i| m_reg_label_private(crate::registry::ALGORITHM, i).is_ok(), unsigned: false, uninterpreted: false },
            Pos { name: "RegisteredLabelWithPrivate<CwtClaimName>", build: |n, _m| n, recode: recode!(RegisteredLabelWithPrivate<iana::CwtClaimName>), accepts: |i| m_reg_label_private(crate::registry::CWT_CLAIM_NAME, i).is_ok(), unsigned: false, uninterpreted: false },
            Pos { name: "RegisteredLabelWithPrivate<HeaderParameter>", build: |n, _m| n, recode: recode!(RegisteredLabelWithPrivate<iana::HeaderParameter>), accepts: |i| m_reg_label_private(crate::registry::HEADER_PARAMETER, i).is_ok(), unsigned: false, uninterpreted: false },
            Pos { name: "RegisteredLabelWithPrivate<EllipticCurve>", build: |n, _m| n, recode: recode!(RegisteredLabelWithPrivate<iana::EllipticCurve>), accepts: |i| m_reg_label_private(crate::registry::ELLIPTIC_CURVE, i).is_ok(), unsigned: false, uninterpreted: false },
            // interpreting positions inside nested structures
            Pos { name: "countersig-array-unprotected-alg", build: |n, _m| map1(Item::Int(7), Item::Array(vec![Item::Array(vec![Item::Bytes(vec![]), Item::Map(vec![]), Item::Bytes(vec![1])]), Item::Array(vec![Item::Bytes(vec![]), map1(Item::Int(1), n), Item::Bytes(vec![2])])])), recode: recode!(Header), accepts: |i| m_header(i, &mut MCtx::default()).is_ok(), unsigned: false, uninterpreted: false },
            Pos { name: "countersig-single-label", build: |n, _m| map1(Item::Int(7), Item::Array(vec![Item::Bytes(vec![]), map1(n, Item::Null), Item::Bytes(vec![1])])), recode: recode!(Header), accepts: |i| m_header(i, &mut MCtx::default()).is_ok(), unsigned: false, uninterpreted: false },
            Pos { name: "countersig-array-crit-entry", build: |n, _m| map1(Item::Int(7), Item::Array(vec![Item::Array(vec![Item::Bytes(vec![]), map1(Item::Int(2), Item::Array(vec![n])), Item::Bytes(vec![1])]), Item::Array(vec![Item::Bytes(vec![]), Item::Map(vec![]), Item::Bytes(vec![2])])])), recode: recode!(Header), accepts: |i| m_header(i, &mut MCtx::default()).is_ok(), unsigned: false, uninterpreted: false },
            Pos { name: "nested-recipient-alg", build: |n, _m| Item::Array(vec![Item::Bytes(vec![]), Item::Map(vec![]), Item::Null, Item::Array(vec![Item::Array(vec![Item::Bytes(vec![]), Item::Map(vec![]), Item::Null, Item::Array(vec![Item::Array(vec![Item::Bytes(vec![]), map1(Item::Int(1), n), Item::Null])])])])]), recode: recode!(coset::CoseEncrypt), accepts: |i| m_msg(Kind::Encrypt, i, &mut MCtx::default()).is_ok(), unsigned: false, uninterpreted: false },
            Pos { name: "keyset-second-key-kty", build: |n, _m| Item::Array(vec![map1(Item::Int(1), Item::Int(1)), map1(Item::Int(1), n)]), recode: recode!(coset::CoseKeySet), accepts: |i| m_keyset(i).is_ok(), unsigned: false, uninterpreted: false },
            Pos { name: "mac-recipient-label", build: |n, _m| Item::Array(vec![Item::Bytes(vec![]), Item::Map(vec![]), Item::Null, Item::Bytes(vec![]), Item::Array(vec![Item::Array(vec![Item::Bytes(vec![]), map1(n, Item::Null), Item::Null])])]), recode: recode!(coset::CoseMac), accepts: |i| m_msg(Kind::Mac, i, &mut MCtx::default()).is_ok(), unsigned: false, uninterpreted: false },
            // two adjacent integers as labels of one map (n and its neighbour): both must be decoded exactly
            Pos { name: "header-label-pair", build: |n, m| { Item::Map(vec![(n, Item::Null), (m, Item::Null)]) }, recode: recode!(Header), accepts: |i| m_header(i, &mut MCtx::default()).is_ok(), unsigned: false, uninterpreted: false },
            Pos { name: "key-label-pair", build: |n, m| { Item::Map(vec![(Item::Int(1), Item::Int(1)), (n, Item::Null), (m, Item::Null)]) }, recode: recode!(CoseKey), accepts: |i| m_key(i).is_ok(), unsigned: false, uninterpreted: false },
            Pos { name: "claim-key-pair", build: |n, m| { Item::Map(vec![(n, Item::Int(0)), (m, Item::Int(0))]) }, recode: recode!(ClaimsSet), accepts: |i| m_claims(i).is_ok(), unsigned: false, uninterpreted: false },
            Pos { name: "key-ops-pair", build: |n, m| { Item::Map(vec![(Item::Int(1), Item::Int(1)), (Item::Int(4), Item::Array(vec![n, m]))]) }, recode: recode!(CoseKey), accepts: |i| m_key(i).is_ok(), unsigned: false, uninterpreted: false },
            // a label next to populated typed fields (typed labels and extra labels share one map)
            Pos { name: "header-label-beside-typed-fields", build: |n, _m| Item::Map(vec![(Item::Int(1), Item::Int(-7)), (Item::Int(3), Item::Int(0)), (Item::Int(4), Item::Bytes(vec![1])), (n, Item::Null)]), recode: recode!(Header), accepts: |i| m_header(i, &mut MCtx::default()).is_ok(), unsigned: false, uninterpreted: false },
            Pos { name: "key-label-beside-typed-fields", build: |n, _m| Item::Map(vec![(Item::Int(1), Item::Int(1)), (Item::Int(2), Item::Bytes(vec![1])), (Item::Int(3), Item::Int(-7)), (Item::Int(5), Item::Bytes(vec![2])), (n, Item::Null)]), recode: recode!(CoseKey), accepts: |i| m_key(i).is_ok(), unsigned: false, uninterpreted: false },
            Pos { name: "protected-header-label-beside-typed-fields", build: |n, _m| Item::Array(vec![Item::Bytes(vec![]), Item::Map(vec![(Item::Int(7), Item::Array(vec![Item::Bytes(vec![]), Item::Map(vec![(Item::Int(1), Item::Int(-7)), (Item::Int(5), Item::Bytes(vec![3])), (n, Item::Null)]), Item::Bytes(vec![1])]))]), Item::Null, Item::Bytes(vec![])]), recode: recode!(coset::CoseSign1), accepts: |i| m_msg(Kind::Sign1, i, &mut MCtx::default()).is_ok(), unsigned: false, uninterpreted: false },
            // the same integer twice as labels of one map: out of range it is an out-of-range error (whatever else is wrong with the map), in range a duplicate
            Pos { name: "header-label-twice", build: |n, _m| { Item::Map(vec![(n.clone(), Item::Null), (n, Item::Null)]) }, recode: recode!(Header), accepts: |i| m_header(i, &mut MCtx::default()).is_ok(), unsigned: false, uninterpreted: false },
            Pos { name: "key-label-twice", build: |n, _m| { Item::Map(vec![(Item::Int(1), Item::Int(1)), (n.clone(), Item::Null), (n, Item::Null)]) }, recode: recode!(CoseKey), accepts: |i| m_key(i).is_ok(), unsigned: false, uninterpreted: false },
            Pos { name: "claim-key-twice", build: |n, _m| { Item::Map(vec![(n.clone(), Item::Int(0)), (n, Item::Int(0))]) }, recode: recode!(ClaimsSet), accepts: |i| m_claims(i).is_ok(), unsigned: false, uninterpreted: false },
            Pos { name: "countersig-label-twice", build: |n, _m| map1(Item::Int(7), Item::Array(vec![Item::Bytes(vec![]), Item::Map(vec![(n.clone(), Item::Null), (n, Item::Null)]), Item::Bytes(vec![1])])), recode: recode!(Header), accepts: |i| m_header(i, &mut MCtx::default()).is_ok(), unsigned: false, uninterpreted: false },
            // the integer is the first fault a reader of the map meets; something else is wrong further on, or
            // only shows once the map has been read completely (no kty): out of range it is still an
            // out-of-range error, in range the map is rejected for the other reason
            Pos { name: "key-kty-member-label", build: |n, _m| Item::Map(vec![(n, Item::Int(2)), (Item::Int(3), Item::Int(-7)), (Item::Int(-1), Item::Int(1))]), recode: recode!(CoseKey), accepts: |i| m_key(i).is_ok(), unsigned: false, uninterpreted: false },
            Pos { name: "key-alg-no-kty", build: |n, _m| Item::Map(vec![(Item::Int(3), n), (Item::Int(-1), Item::Int(1))]), recode: recode!(CoseKey), accepts: |i| m_key(i).is_ok(), unsigned: false, uninterpreted: false },
            Pos { name: "key-ops-entry-no-kty", build: |n, _m| Item::Map(vec![(Item::Int(4), Item::Array(vec![n])), (Item::Int(2), Item::Bytes(vec![7]))]), recode: recode!(CoseKey), accepts: |i| m_key(i).is_ok(), unsigned: false, uninterpreted: false },
            Pos { name: "key-label-before-kty", build: |n, _m| Item::Map(vec![(n, Item::Null), (Item::Int(1), Item::Int(1))]), recode: recode!(CoseKey), accepts: |i| m_key(i).is_ok(), unsigned: false, uninterpreted: false },
            Pos { name: "key-label-before-reserved-kty", build: |n, _m| Item::Map(vec![(n, Item::Null), (Item::Int(1), Item::Int(0))]), recode: recode!(CoseKey), accepts: |i| m_key(i).is_ok(), unsigned: false, uninterpreted: false },
            Pos { name: "keyset-first-key-label-no-kty-then-bad-key", build: |n, _m| Item::Array(vec![map1(n, Item::Null), Item::Int(0)]), recode: recode!(coset::CoseKeySet), accepts: |i| m_keyset(i).is_ok(), unsigned: false, uninterpreted: false },
            Pos { name: "header-label-before-wrong-kind-kid", build: |n, _m| Item::Map(vec![(n, Item::Null), (Item::Int(4), Item::Text("kid".into()))]), recode: recode!(Header), accepts: |i| m_header(i, &mut MCtx::default()).is_ok(), unsigned: false, uninterpreted: false },
            Pos { name: "header-alg-before-iv-and-partial-iv", build: |n, _m| Item::Map(vec![(Item::Int(1), n), (Item::Int(5), Item::Bytes(vec![1])), (Item::Int(6), Item::Bytes(vec![2]))]), recode: recode!(Header), accepts: |i| m_header(i, &mut MCtx::default()).is_ok(), unsigned: false, uninterpreted: false },
            Pos { name: "header-crit-entry-before-repeated-label", build: |n, _m| Item::Map(vec![(Item::Int(2), Item::Array(vec![n])), (Item::Int(9), Item::Int(1)), (Item::Int(9), Item::Int(2))]), recode: recode!(Header), accepts: |i| m_header(i, &mut MCtx::default()).is_ok(), unsigned: false, uninterpreted: false },
            Pos { name: "header-label-before-non-label-key", build: |n, _m| Item::Map(vec![(n, Item::Null), (Item::Bytes(vec![1]), Item::Null)]), recode: recode!(Header), accepts: |i| m_header(i, &mut MCtx::default()).is_ok(), unsigned: false, uninterpreted: false },
            Pos { name: "claim-key-before-wrong-kind-iss", build: |n, _m| Item::Map(vec![(n, Item::Int(0)), (Item::Int(1), Item::Int(5))]), recode: recode!(ClaimsSet), accepts: |i| m_claims(i).is_ok(), unsigned: false, uninterpreted: false },
            Pos { name: "claim-exp-before-unregistered-key", build: |n, _m| Item::Map(vec![(Item::Int(4), n), (Item::Int(-5), Item::Int(5))]), recode: recode!(ClaimsSet), accepts: |i| m_claims(i).is_ok(), unsigned: false, uninterpreted: false },
            Pos { name: "countersig-label-before-later-fault", build: |n, _m| map1(Item::Int(7), Item::Array(vec![Item::Bytes(vec![]), Item::Map(vec![(n, Item::Null), (Item::Int(3), Item::Text("nonsense".into()))]), Item::Bytes(vec![1])])), recode: recode!(Header), accepts: |i| m_header(i, &mut MCtx::default()).is_ok(), unsigned: false, uninterpreted: false },
            // ... the same in lists of structures: the integer sits in an earlier member, a later member is not
            // even a structure
            Pos { name: "countersig-array-first-member-label-then-non-array-member", build: |n, _m| map1(Item::Int(7), Item::Array(vec![Item::Array(vec![Item::Bytes(vec![]), map1(n, Item::Null), Item::Bytes(vec![1])]), Item::Int(0)])), recode: recode!(Header), accepts: |i| m_header(i, &mut MCtx::default()).is_ok(), unsigned: false, uninterpreted: false },
            Pos { name: "countersig-array-first-member-alg-then-text-member", build: |n, _m| map1(Item::Int(7), Item::Array(vec![Item::Array(vec![Item::Bytes(vec![]), map1(Item::Int(1), n), Item::Bytes(vec![1])]), Item::Text("x".into()), Item::Array(vec![])])), recode: recode!(Header), accepts: |i| m_header(i, &mut MCtx::default()).is_ok(), unsigned: false, uninterpreted: false },
            Pos { name: "encrypt-first-recipient-label-then-non-array-member", build: |n, _m| Item::Array(vec![Item::Bytes(vec![]), Item::Map(vec![]), Item::Null, Item::Array(vec![Item::Array(vec![Item::Bytes(vec![]), map1(n, Item::Null), Item::Null]), Item::Int(0)])]), recode: recode!(coset::CoseEncrypt), accepts: |i| m_msg(Kind::Encrypt, i, &mut MCtx::default()).is_ok(), unsigned: false, uninterpreted: false },
            Pos { name: "mac-first-recipient-alg-then-map-member", build: |n, _m| Item::Array(vec![Item::Bytes(vec![]), Item::Map(vec![]), Item::Null, Item::Bytes(vec![]), Item::Array(vec![Item::Array(vec![Item::Bytes(vec![]), map1(Item::Int(1), n), Item::Null]), Item::Map(vec![])])]), recode: recode!(coset::CoseMac), accepts: |i| m_msg(Kind::Mac, i, &mut MCtx::default()).is_ok(), unsigned: false, uninterpreted: false },
            Pos { name: "keyset-first-key-alg-then-non-map-member", build: |n, _m| Item::Array(vec![Item::Map(vec![(Item::Int(1), Item::Int(1)), (Item::Int(3), n)]), Item::Array(vec![])]), recode: recode!(coset::CoseKeySet), accepts: |i| m_keyset(i).is_ok(), unsigned: false, uninterpreted: false },
            // ... and across nesting levels: the integer sits inside a counter-signature, a later entry of the
            // enclosing map is at fault
            Pos { name: "countersig-alg-then-wrong-kind-kid-in-the-enclosing-map", build: |n, _m| Item::Map(vec![(Item::Int(7), Item::Array(vec![Item::Bytes(vec![]), map1(Item::Int(1), n), Item::Bytes(vec![1])])), (Item::Int(4), Item::Int(0))]), recode: recode!(Header), accepts: |i| m_header(i, &mut MCtx::default()).is_ok(), unsigned: false, uninterpreted: false },
            Pos { name: "countersig-array-label-then-iv-and-partial-iv-in-the-enclosing-map", build: |n, _m| Item::Map(vec![(Item::Int(7), Item::Array(vec![Item::Array(vec![Item::Bytes(vec![]), map1(n, Item::Null), Item::Bytes(vec![1])]), Item::Array(vec![Item::Bytes(vec![]), Item::Map(vec![]), Item::Bytes(vec![2])])])), (Item::Int(5), Item::Bytes(vec![1])), (Item::Int(6), Item::Bytes(vec![2]))]), recode: recode!(Header), accepts: |i| m_header(i, &mut MCtx::default()).is_ok(), unsigned: false, uninterpreted: false },
            Pos { name: "countersig-label-then-repeated-label-in-the-enclosing-map", build: |n, _m| Item::Map(vec![(Item::Int(7), Item::Array(vec![Item::Bytes(vec![]), map1(n, Item::Null), Item::Bytes(vec![1])])), (Item::Int(9), Item::Int(1)), (Item::Int(9), Item::Int(2))]), recode: recode!(Header), accepts: |i| m_header(i, &mut MCtx::default()).is_ok(), unsigned: false, uninterpreted: false },
            Pos { name: "sign1-countersig-crit-entry-then-empty-crit-in-the-enclosing-map", build: |n, _m| Item::Array(vec![Item::Bytes(vec![]), Item::Map(vec![(Item::Int(7), Item::Array(vec![Item::Bytes(vec![]), map1(Item::Int(2), Item::Array(vec![n])), Item::Bytes(vec![1])])), (Item::Int(2), Item::Array(vec![]))]), Item::Null, Item::Bytes(vec![])]), recode: recode!(coset::CoseSign1), accepts: |i| m_msg(Kind::Sign1, i, &mut MCtx::default()).is_ok(), unsigned: false, uninterpreted: false },
            // extras that follow an extra labelled 0 (the one extra label that sorts ahead of the typed ones)
            Pos { name: "header-label-after-label-0", build: |n, _m| Item::Map(vec![(Item::Int(0), Item::Null), (n, Item::Null), (Item::Int(900), Item::Int(1))]), recode: recode!(Header), accepts: |i| m_header(i, &mut MCtx::default()).is_ok(), unsigned: false, uninterpreted: false },
            Pos { name: "header-extra-value-after-label-0", build: |n, _m| Item::Map(vec![(Item::Int(1), Item::Int(-7)), (Item::Int(0), Item::Bool(true)), (Item::Int(100), n)]), recode: recode!(Header), accepts: |_| true, unsigned: false, uninterpreted: true },
            Pos { name: "key-extra-value-after-label-0", build: |n, _m| Item::Map(vec![(Item::Int(1), Item::Int(1)), (Item::Int(0), Item::Bool(true)), (Item::Int(-1), n), (Item::Int(-2), Item::Null)]), recode: recode!(CoseKey), accepts: |_| true, unsigned: false, uninterpreted: true },
            Pos { name: "header-extra-value", build: |n, _m| map1(Item::Int(100), n), recode: recode!(Header), accepts: |_| true, unsigned: false, uninterpreted: true },
            Pos { name: "key-extra-value", build: |n, _m| Item::Map(vec![(Item::Int(1), Item::Int(1)), (Item::Int(-1), n)]), recode: recode!(CoseKey), accepts: |_| true, unsigned: false, uninterpreted: true },
            // ... also as the *key* of a map nested inside an extra value (and deeper: in an array, under a tag)
            Pos { name: "header-extra-nested-map-key", build: |n, _m| map1(Item::Int(100), map1(n, Item::Int(0))), recode: recode!(Header), accepts: |_| true, unsigned: false, uninterpreted: true },
            Pos { name: "key-extra-nested-map-key", build: |n, _m| Item::Map(vec![(Item::Int(1), Item::Int(1)), (Item::Int(-1), Item::Array(vec![map1(n, Item::Null)]))]), recode: recode!(CoseKey), accepts: |_| true, unsigned: false, uninterpreted: true },
            Pos { name: "claim-extra-nested-map-key", build: |n, _m| map1(Item::Int(8), map1(Item::Int(1), map1(n, Item::Bytes(vec![])))), recode: recode!(ClaimsSet), accepts: |_| true, unsigned: false, uninterpreted: true },
            Pos { name: "sign1-unprotected-extra-tagged-nested-map-key", build: |n, _m| Item::Array(vec![Item::Bytes(vec![]), map1(Item::Int(-70000), Item::Tag(99, Box::new(map1(n, Item::Int(1))))), Item::Null, Item::Bytes(vec![])]), recode: recode!(coset::CoseSign1), accepts: |_| true, unsigned: false, uninterpreted: true },
            Pos { name: "claim-extra-value", build: |n, _m| map1(Item::Int(8), Item::Array(vec![n])), recode: recode!(ClaimsSet), accepts: |_| true, unsigned: false, uninterpreted: true },
        ]
    })
}

fn lattice() -> &'static Vec<i128> {
    static L: OnceLock<Vec<i128>> = OnceLock::new();
    L.get_or_init(|| {
        let centres: Vec<i128> = vec![
            0, 23, -23, 24, -24, 255, -255, 256, -256, 65535, -65535, 65536, -65536, 1 << 32, -(1 << 32), 1 << 63, -(1i128 << 63),
            INT_MAX, INT_MIN, (1 << 31), -(1 << 31), (1 << 16) + (1 << 8),
        ];
        let mut v: Vec<i128> = vec![];
        for c in centres {
            for d in -3..=3 {
                let x = c + d;
                if (INT_MIN..=INT_MAX).contains(&x) && !v.contains(&x) {
                    v.push(x);
                }
            }
        }
        v
    })
}

/// Encodings of integer n: widths 0,1,2,4,8 that can hold it, and the bignum form (width code 16).
/// 17 and 18 are bignum spellings the CBOR library does *not* read as integers (tag 2/3 over an
/// indefinite-length byte string; over a byte string zero-padded to 17 bytes): the crate need not
/// take them — but if it does, only exactly and in range.
const WIDTHS: [u8; 8] = [0, 1, 2, 4, 8, 16, 17, 18];

fn int_bytes(n: i128, w: u8) -> Option<Vec<u8>> {
    let (major, arg) = if n >= 0 { (0u8, n as u64) } else { (1u8, (-1 - n) as u64) };
    let mut out = vec![];
    if w >= 16 {
        let mut be = arg.to_be_bytes().to_vec();
        while be.first() == Some(&0) {
            be.remove(0);
        }
        out.push(if major == 0 { 0xc2 } else { 0xc3 });
        match w {
            16 => {
                head_w(&mut out, 2, be.len() as u64, 0);
                out.extend_from_slice(&be);
            }
            17 => {
                // chunked: the significant bytes in one chunk (two when there are several)
                out.push(0x5f);
                let cut = be.len() / 2;
                for part in [&be[..cut], &be[cut..]] {
                    if !part.is_empty() {
                        head_w(&mut out, 2, part.len() as u64, 0);
                        out.extend_from_slice(part);
                    }
                }
                out.push(0xff);
            }
            _ => {
                let mut padded = vec![0u8; 17 - be.len().min(17)];
                padded.extend_from_slice(&be);
                head_w(&mut out, 2, padded.len() as u64, 0);
                out.extend_from_slice(&padded);
            }
        }
        return Some(out);
    }
    if w < min_width(arg) {
        return None;
    }
    head_w(&mut out, major, arg, w);
    Some(out)
}

/// Splice a specific encoding of the integer into the deterministic encoding of the carrier: the
/// carrier is built with a unique placeholder integer whose encoding is then replaced.
fn build_bytes(p: &Pos, n: i128, w: u8) -> Option<(Vec<u8>, Item)> {
    let enc_n = int_bytes(n, w)?;
    const PLACEHOLDER: i128 = 0x5a5a_a5a5_1234_5678;
    let ph = encode(&Item::Int(PLACEHOLDER));
    let m = neighbour(&Item::Int(n));
    let carrier = encode(&(p.build)(Item::Int(PLACEHOLDER), m.clone()));
    // every occurrence (the "-twice" positions hold the integer in two places)
    let mut bytes = vec![];
    let mut i = 0;
    let mut found = false;
    while i < carrier.len() {
        if carrier[i..].starts_with(&ph) {
            bytes.extend_from_slice(&enc_n);
            i += ph.len();
            found = true;
        } else {
            bytes.push(carrier[i]);
            i += 1;
        }
    }
    if !found {
        return None;
    }
    Some((bytes, (p.build)(Item::Int(n), m)))
}

fn check(p: &Pos, n: i128, w: u8, ctx: &mut Ctx) -> CaseResult {
    let (bytes, item) = match build_bytes(p, n, w) {
        Some(x) => x,
        None => {
            // this head width cannot hold n: not a case
            ctx.evals = 0;
            return Ok(());
        }
    };
    ctx.classf(format!("pos:{}", p.name));
    let near = lattice().contains(&n);
    if n.abs() >= (1 << 31) || near {
        ctx.nontrivial(hash_str(&format!("{}|{}|{}", p.name, n, w)));
        ctx.sample_with(|| format!("{} holding {} (head width {}): {}", p.name, n, match w { 16 => "bignum".to_string(), 17 => "bignum over chunked bytes".to_string(), 18 => "zero-padded bignum".to_string(), _ => w.to_string() }, hex(&bytes)));
    }
    let in_range = if p.uninterpreted {
        true
    } else if p.unsigned {
        n >= 0
    } else {
        (i64::MIN as i128..=i64::MAX as i128).contains(&n)
    };
    let got = (p.recode)(&bytes);
    if w >= 17 {
        // not an integer of the library's data model: rejection is fine wherever the crate interprets the
        // position; acceptance only of the exact in-range value (uninterpreted positions keep the tag)
        if p.uninterpreted {
            return Ok(());
        }
        ctx.class("expect:unfolded-bignum");
        return match got {
            Err(_) => Ok(()),
            Ok(out) => {
                ensure!(in_range, "{}: integer {} outside the supported range, spelled as an unfolded bignum, accepted ({})", p.name, n, hex(&bytes));
                let out = out.map_err(|e| format!("{}: value holding {} failed to re-encode: {:?}", p.name, n, e))?;
                let read = read_strict(&out).map_err(|e| format!("{}: re-encoding not strict CBOR ({:?}): {}", p.name, e, hex(&out)))?;
                ensure!(eq_mod_map_order(&read, &item), "{}: integer {} spelled as an unfolded bignum ({}) decoded and re-encoded as {}", p.name, n, hex(&bytes), crate::cbor::diag(&read));
                Ok(())
            }
        };
    }
    if !in_range {
        ctx.class("expect:out-of-range");
        return match got {
            Err(e) if is_out_of_range(&e) => Ok(()),
            Err(e) => Err(format!("{}: integer {} outside the supported range rejected with {:?}, not the out-of-range error ({})", p.name, n, e, hex(&bytes))),
            Ok(_) => Err(format!("{}: integer {} outside the supported range accepted ({})", p.name, n, hex(&bytes))),
        };
    }
    let accept = (p.accepts)(&item);
    match (accept, got) {
        (true, Ok(Ok(out))) => {
            ctx.class("expect:exact");
            // the re-encoding, read by the strict reader, holds the same integer at the same place
            let read = read_strict(&out).map_err(|e| format!("{}: re-encoding not strict CBOR ({:?}): {}", p.name, e, hex(&out)))?;
            ensure!(eq_mod_map_order(&read, &item), "{}: integer {} ({}) decoded and re-encoded as {} — expected {}", p.name, n, hex(&bytes), crate::cbor::diag(&read), crate::cbor::diag(&item));
            Ok(())
        }
        (true, Ok(Err(e))) => Err(format!("{}: value holding {} failed to re-encode: {:?}", p.name, n, e)),
        (true, Err(e)) => Err(format!("{}: in-range integer {} rejected ({:?}) though the position admits it ({})", p.name, n, e, hex(&bytes))),
        (false, Ok(_)) => Err(format!("{}: integer {} accepted though the position does not admit it ({})", p.name, n, hex(&bytes))),
        (false, Err(_)) => {
            ctx.class("expect:rejected-unregistered");
            Ok(())
        }
    }
}

/// The number a `Value` denotes when it is an integer or a bignum tag over a byte string.
fn number_of(v: &coset::cbor::value::Value) -> Option<i128> {
    use coset::cbor::value::Value;
    match v {
        Value::Integer(i) => Some(i128::from(*i)),
        Value::Tag(t @ (2 | 3), inner) => match inner.as_ref() {
            Value::Bytes(b) if b.len() <= 16 => {
                let m = b.iter().fold(0u128, |a, x| (a << 8) | *x as u128);
                if m > u64::MAX as u128 {
                    return None;
                }
                Some(if *t == 2 { m as i128 } else { -1 - m as i128 })
            }
            _ => None,
        },
        _ => None,
    }
}

/// Uninterpreted integers handed over at the `Value` level in the spelling the byte parser never
/// yields — a bignum tag over a short byte string — bare, in an array and in a map, as the value
/// of an extra parameter of a key, a header and a claims set: whatever the crate does with the value
/// (keep it, pass it through `canonicalize`, convert it back to a `Value`), it denotes the same number.
fn value_level(n: i128) -> CaseResult {
    use coset::cbor::value::Value;
    use coset::{AsCborValue, CborOrdering};
    let (tag, m) = if n >= 0 { (2u64, n as u128) } else { (3u64, (-1 - n) as u128) };
    let mut be = m.to_be_bytes().to_vec();
    while be.len() > 1 && be[0] == 0 {
        be.remove(0);
    }
    let big = Value::Tag(tag, Box::new(Value::Bytes(be)));
    for wrap in 0..3 {
        let v = match wrap {
            0 => big.clone(),
            1 => Value::Array(vec![Value::Null, big.clone()]),
            _ => Value::Map(vec![(Value::from(0), big.clone())]),
        };
        let unwrap = |x: &Value| -> Option<i128> {
            match (wrap, x) {
                (0, x) => number_of(x),
                (1, Value::Array(a)) => a.get(1).and_then(number_of),
                (2, Value::Map(m)) => m.first().and_then(|(_, x)| number_of(x)),
                _ => None,
            }
        };
        let same_number = |what: &str, x: &Value| -> CaseResult {
            match unwrap(x) {
                Some(k) if k == n => Ok(()),
                Some(k) => Err(format!("{}: an uninterpreted value denoting {} (bignum tag, shape {}) became {}", what, n, wrap, k)),
                None => Err(format!("{}: an uninterpreted value denoting {} (bignum tag, shape {}) became {:?}", what, n, wrap, x)),
            }
        };
        // key: struct literal, canonicalised under both orderings, converted back
        for o in [CborOrdering::Lexicographic, CborOrdering::LengthFirstLexicographic] {
            let mut k = CoseKey { kty: coset::KeyType::Assigned(iana::KeyType::Symmetric), params: vec![(Label::Int(-70000), v.clone()), (Label::Int(-1), Value::Bytes(vec![1]))], ..Default::default() };
            k.canonicalize(o);
            let p = k.params.iter().find(|(l, _)| *l == Label::Int(-70000)).ok_or("canonicalize lost a parameter")?;
            same_number("CoseKey::canonicalize", &p.1)?;
            if let Ok(Value::Map(m)) = k.to_cbor_value() {
                let e = m.iter().find(|(l, _)| *l == Value::from(-70000)).ok_or("to_cbor_value lost a parameter")?;
                same_number("CoseKey::canonicalize + to_cbor_value", &e.1)?;
            }
        }
        // key, header, claims set: Value-level decode, then back
        let km = Value::Map(vec![(Value::from(1), Value::from(4)), (Value::from(-70000), v.clone())]);
        if let Ok(k) = CoseKey::from_cbor_value(km) {
            same_number("CoseKey::from_cbor_value", &k.params.first().ok_or("parameter lost")?.1)?;
        }
        if let Ok(h) = Header::from_cbor_value(Value::Map(vec![(Value::from(100), v.clone())])) {
            same_number("Header::from_cbor_value", &h.rest.first().ok_or("parameter lost")?.1)?;
            if let Ok(Value::Map(m)) = h.to_cbor_value() {
                same_number("Header::to_cbor_value", &m.first().ok_or("parameter lost")?.1)?;
            }
        }
        if let Ok(c) = ClaimsSet::from_cbor_value(Value::Map(vec![(Value::from(-70000), v.clone())])) {
            same_number("ClaimsSet::from_cbor_value", &c.rest.first().ok_or("claim lost")?.1)?;
        }
    }
    // the same spelling where the crate *interprets* the integer (a label, a nonce, a time stamp): a
    // bignum tag is not an integer of the library's data model, so refusing it is fine; taking it is
    // fine only as exactly n
    if let Ok(l) = Label::from_cbor_value(big.clone()) {
        ensure!(i64::try_from(n).map(|v| l == Label::Int(v)).unwrap_or(false), "Label::from_cbor_value took the bignum-tag spelling of {} for {:?}", n, l);
    }
    if let Ok(h) = Header::from_cbor_value(Value::Map(vec![(big.clone(), Value::Null)])) {
        ensure!(h.rest.len() == 1 && i64::try_from(n).map(|v| h.rest[0].0 == Label::Int(v)).unwrap_or(false), "Header::from_cbor_value took the bignum-tag spelling of label {} for {:?}", n, h.rest);
    }
    if let Ok(p) = PartyInfo::from_cbor_value(Value::Array(vec![Value::Null, big.clone(), Value::Null])) {
        ensure!(i64::try_from(n).map(|v| p.nonce == Some(coset::Nonce::Integer(v))).unwrap_or(false), "PartyInfo::from_cbor_value took the bignum-tag spelling of nonce {} for {:?}", n, p.nonce);
    }
    if let Ok(c) = ClaimsSet::from_cbor_value(Value::Map(vec![(Value::from(4), big.clone())])) {
        ensure!(i64::try_from(n).map(|v| c.expiration_time == Some(coset::cwt::Timestamp::WholeSeconds(v))).unwrap_or(false), "ClaimsSet::from_cbor_value took the bignum-tag spelling of exp {} for {:?}", n, c.expiration_time);
    }
    if let Ok(sp) = SuppPubInfo::from_cbor_value(Value::Array(vec![big.clone(), Value::Bytes(vec![])])) {
        ensure!(u64::try_from(n).map(|v| sp.key_data_length == v).unwrap_or(false), "SuppPubInfo::from_cbor_value took the bignum-tag spelling of key data length {} for {}", n, sp.key_data_length);
    }
    Ok(())
}

/// Direct field checks for positions whose decoded field is public.
fn direct(n: i128) -> CaseResult {
    value_level(n)?;
    let b = encode(&Item::Int(n));
    if let Ok(v) = i64::try_from(n) {
        match Label::from_slice(&b) {
            Ok(Label::Int(x)) => ensure!(x == v, "Label {} decoded as {}", v, x),
            o => fail!("Label {} decoded as {:?}", v, o),
        }
        let pb = encode(&party(Item::Int(n)));
        match PartyInfo::from_slice(&pb) {
            Ok(p) => ensure!(p.nonce == Some(coset::Nonce::Integer(v)), "nonce {} decoded as {:?}", v, p.nonce),
            Err(e) => fail!("nonce {} rejected: {:?}", v, e),
        }
        let cb = encode(&map1(Item::Int(4), Item::Int(n)));
        match ClaimsSet::from_slice(&cb) {
            Ok(c) => ensure!(c.expiration_time == Some(coset::cwt::Timestamp::WholeSeconds(v)), "exp {} decoded as {:?}", v, c.expiration_time),
            Err(e) => fail!("exp {} rejected: {:?}", v, e),
        }
        if !(1..=7).contains(&v) {
            let hb = encode(&map1(Item::Int(n), Item::Null));
            match Header::from_slice(&hb) {
                Ok(h) => ensure!(h.rest.len() == 1 && h.rest[0].0 == Label::Int(v), "header label {} decoded as {:?}", v, h.rest),
                Err(e) => fail!("header label {} rejected: {:?}", v, e),
            }
        }
    }
    if let Ok(v) = u64::try_from(n) {
        let sb = encode(&supp(Item::Int(n)));
        match SuppPubInfo::from_slice(&sb) {
            Ok(s) => ensure!(s.key_data_length == v, "key data length {} decoded as {}", v, s.key_data_length),
            Err(e) => fail!("key data length {} rejected: {:?}", v, e),
        }
    }
    Ok(())
}

fn exh_sizes() -> [u64; 2] {
    [(lattice().len() * positions().len() * WIDTHS.len()) as u64, lattice().len() as u64]
}

fn exh_count(_t: Tier) -> u64 {
    exh_sizes().iter().sum()
}

fn exh_case(idx: u64, ctx: &mut Ctx) -> CaseResult {
    let (seg, i) = segment(idx, &exh_sizes()).ok_or("index out of range")?;
    if seg == 1 {
        ctx.class("exh:direct-field");
        return direct(lattice()[i as usize]);
    }
    let nw = WIDTHS.len() as u64;
    let np = positions().len() as u64;
    let w = WIDTHS[(i % nw) as usize];
    let p = &positions()[((i / nw) % np) as usize];
    let n = lattice()[(i / nw / np) as usize];
    ctx.class("exh:lattice");
    check(p, n, w, ctx)
}

fn case(g: &mut Gen, ctx: &mut Ctx) -> CaseResult {
    let n: i128 = match g.weighted(&[3, 3, 2, 2]) {
        0 => g.i64() as i128,
        1 => {
            let hi = g.u64() as i128;
            if g.bool() {
                hi
            } else {
                -1 - hi
            }
        }
        2 => {
            // around a power of two
            let k = g.below(65) as u32;
            let base: i128 = if k == 64 { INT_MAX } else { 1i128 << k };
            let x = base + g.range_i64(-3, 3) as i128;
            let x = if g.bool() { x } else { -x };
            x.clamp(INT_MIN, INT_MAX)
        }
        _ => *g.pick(lattice()),
    };
    let ps = positions();
    let p = &ps[g.below(ps.len())];
    let arg = if n >= 0 { n as u64 } else { (-1 - n) as u64 };
    let legal: Vec<u8> = WIDTHS.iter().copied().filter(|w| *w >= 16 || *w >= min_width(arg)).collect();
    let w = *g.pick(&legal);
    ctx.class("gen:random");
    check(p, n, w, ctx)?;
    if g.ratio(1, 4) {
        direct(n)?;
    }
    Ok(())
}

pub fn property() -> Property {
    Property {
        id: "C15",
        title: "Integers are decoded exactly or rejected as out of range, never wrapped",
        rule: "integer n x interpreting position (73 positions (incl. an out-of-range integer that is the first of several faults of its map (no kty, a later ill-formed entry), labels beside populated typed fields, map keys nested inside extra values, the same integer twice as labels of one map, positions inside counter-signature arrays, nested recipients, key sets, and pairs of adjacent integers in one map): labels, alg, kty, content type, crit / key_ops entries, claim keys, nonces, timestamps, key data length, registry labels, and uninterpreted extra values) \
               x head width (every legal width and the bignum form); exhaustive over the boundary lattice (c-3..c+3 around 0, 23/24, 2^8, 2^16, 2^31, 2^32, 2^63, 2^64 of both signs), random elsewhere in [-2^64, 2^64-1]; \
               non-trivial = |n| >= 2^31 or n on the lattice; distinct by (position, n, width)",
        assumptions: &["oracle: out-of-range => the out-of-range error; in range => accepted iff the reference model accepts, and the re-encoding read by the strict reader holds exactly n"],
        exhaustive_domains: &["boundary lattice x all positions x all head widths incl. bignum", "direct public-field checks over the lattice"],
        case,
        exh_count,
        exh_case,
        bytes_case: None,
        quick_cases: 400_000,
        thorough_cases: 5_000_000,
        max_tape: 64,
    }
}

//! C12 — no map handled by the crate ever carries the same label twice.

use crate::cbor::{diag, hex_trunc, read_lenient, Item, StyleOpts, Wrapped};
use crate::gen::{gen_claims, gen_header, gen_key, gen_value, gen_wrong_kind, Faults};
use crate::model::*;
use crate::props::common::*;
use crate::run::{hash_str, CaseResult, Ctx, Property, Tier};
use crate::tape::Gen;
use coset::cbor::value::Value;
use coset::cwt::ClaimsSet;
use coset::{CborSerializable, CoseError, CoseKey, CoseKeySet, Header, Label};

#[derive(Clone, Copy, PartialEq, Eq, Debug)]
enum MapTy {
    Header,
    Key,
    Claims,
}

fn model_accepts(ty: MapTy, i: &Item) -> bool {
    match ty {
        MapTy::Header => m_header(i, &mut MCtx::default()).is_ok(),
        MapTy::Key => m_key(i).is_ok(),
        MapTy::Claims => m_claims(i).is_ok(),
    }
}

fn recipient_at_depth(hdr_slot_prot: Item, hdr_slot_unprot: Item, depth: usize) -> Item {
    let mut r = Item::Array(vec![hdr_slot_prot, hdr_slot_unprot, Item::Null]);
    for _ in 1..depth {
        r = Item::Array(vec![Item::Bytes(vec![]), Item::Map(vec![]), Item::Null, Item::Array(vec![r])]);
    }
    r
}

/// Embed a header map at a nesting position.  Returns (top item, decode kind, errors propagate).
fn place_header(g: &mut Gen, map: Item, ctx: &mut Ctx) -> (Item, Option<Kind>, bool) {
    let in_protected = g.bool();
    let (p, u) = if in_protected { (Wrapped::new(map.clone()), Item::Map(vec![])) } else { (Item::Bytes(vec![]), map.clone()) };
    match g.weighted(&[3, 4, 2, 3, 3]) {
        0 => {
            ctx.class("pos:standalone");
            (map, None, true)
        }
        1 => {
            let kind = *g.pick(&KINDS);
            ctx.classf(format!("pos:{}:{}", kind.name(), if in_protected { "protected" } else { "unprotected" }));
            (carrier(kind, p, u), Some(kind), true)
        }
        2 => {
            ctx.classf(format!("pos:signer-in-COSE_Sign:{}", if in_protected { "protected" } else { "unprotected" }));
            let signer = Item::Array(vec![p, u, Item::Bytes(vec![1])]);
            let mut sigs = vec![signer];
            if g.bool() {
                sigs.insert(0, Item::Array(vec![Item::Bytes(vec![]), Item::Map(vec![]), Item::Bytes(vec![2])]));
            }
            (Item::Array(vec![Item::Bytes(vec![]), Item::Map(vec![]), Item::Null, Item::Array(sigs)]), Some(Kind::Sign), false)
        }
        3 => {
            let depth = 1 + g.below(3);
            let outer = *g.pick(&[Kind::Encrypt, Kind::Mac, Kind::Recipient]);
            ctx.classf(format!("pos:recipient-depth-{}-in-{}:{}", depth, outer.name(), if in_protected { "protected" } else { "unprotected" }));
            let r = recipient_at_depth(p, u, depth);
            let top = match outer {
                Kind::Encrypt => Item::Array(vec![Item::Bytes(vec![]), Item::Map(vec![]), Item::Null, Item::Array(vec![r])]),
                Kind::Mac => Item::Array(vec![Item::Bytes(vec![]), Item::Map(vec![]), Item::Bytes(vec![1]), Item::Bytes(vec![2]), Item::Array(vec![r])]),
                _ => Item::Array(vec![Item::Bytes(vec![]), Item::Map(vec![]), Item::Null, Item::Array(vec![r])]),
            };
            (top, Some(outer), true)
        }
        _ => {
            // counter-signature inside the protected or unprotected header of a carrier
            let cs = Item::Array(vec![p, u, Item::Bytes(vec![3])]);
            let cs_val = if g.bool() { cs } else { Item::Array(vec![Item::Array(vec![Item::Bytes(vec![]), Item::Map(vec![]), Item::Bytes(vec![4])]), cs]) };
            let outer_hdr = Item::Map(vec![(Item::Int(7), cs_val)]);
            let kind = *g.pick(&[Kind::Sign1, Kind::Mac0, Kind::Encrypt0, Kind::Signature, Kind::Recipient]);
            let outer_prot = g.bool();
            ctx.classf(format!("pos:countersig-in-{}-of-{}:{}", if outer_prot { "protected" } else { "unprotected" }, kind.name(), if in_protected { "protected" } else { "unprotected" }));
            let top = if outer_prot { carrier(kind, Wrapped::new(outer_hdr), Item::Map(vec![])) } else { carrier(kind, Item::Bytes(vec![]), outer_hdr) };
            (top, Some(kind), true)
        }
    }
}

fn decode_top(ty: MapTy, kind: Option<Kind>, in_keyset: bool, bytes: &[u8]) -> Result<(), CoseError> {
    match (ty, kind) {
        (MapTy::Header, None) => Header::from_slice(bytes).map(|_| ()),
        (MapTy::Header, Some(k)) => decode_msg(k, bytes).map(|_| ()),
        (MapTy::Key, _) if in_keyset => CoseKeySet::from_slice(bytes).map(|_| ()),
        (MapTy::Key, _) => CoseKey::from_slice(bytes).map(|_| ()),
        (MapTy::Claims, _) => ClaimsSet::from_slice(bytes).map(|_| ()),
    }
}

fn decode_case(g: &mut Gen, ctx: &mut Ctx) -> CaseResult {
    let ty = *g.pick(&[MapTy::Header, MapTy::Header, MapTy::Key, MapTy::Claims]);
    ctx.classf(format!("decode:{:?}", ty));
    let base = match ty {
        MapTy::Header => {
            // the map may be placed inside a counter-signature below (one level of nesting used up)
            g.cs_level = 1;
            let h = gen_header(g, &mut Faults::none(), 1);
            g.cs_level = 0;
            h
        }
        MapTy::Key => gen_key(g, &mut Faults::none()),
        MapTy::Claims => gen_claims(g, &mut Faults::none()),
    };
    let mut entries = match base {
        Item::Map(m) => m,
        _ => vec![],
    };
    if entries.is_empty() {
        let (k, v) = match ty {
            MapTy::Header => (Item::Int(4), Item::Bytes(vec![7])),
            MapTy::Key => (Item::Int(1), Item::Int(1)),
            MapTy::Claims => (Item::Int(1), Item::Text("i".into())),
        };
        entries.push((k, v));
    }
    if ty != MapTy::Claims && g.ratio(1, 4) {
        // labels of every kind and encoded size around the pair
        crate::gen::add_mixed_labels(g, &mut entries);
        ctx.class("mixed-label-kinds");
    }
    // mostly an existing (valid) label is repeated; sometimes the repeated key is itself not a valid
    // label of this map (unregistered claim name, out-of-range integer, not a label at all): such a
    // map is all the more to be rejected
    let s = if g.ratio(1, 8) {
        let bad = match (ty, g.below(3)) {
            (MapTy::Claims, 0) | (MapTy::Claims, 1) => crate::gen::gen_unregistered(g, crate::registry::CWT_CLAIM_NAME, true),
            (_, 0) => crate::gen::gen_out_of_range(g),
            _ => crate::gen::gen_non_label(g),
        };
        let at = g.below(entries.len() + 1);
        entries.insert(at, (bad, gen_value(g, 1, false)));
        ctx.class("dup-of-invalid-key");
        at
    } else {
        g.below(entries.len())
    };
    let key = entries[s].0.clone();
    let val = match g.weighted(&[3, 3, 2]) {
        0 => entries[s].1.clone(),
        1 => gen_value(g, 1, false),
        _ => gen_wrong_kind(g, &[]),
    };
    let p = g.below(entries.len() + 1);
    entries.insert(p, (key.clone(), val));
    // index of the later of the two equal labels
    let (first, later) = if p <= s { (p, s + 1) } else { (s, p) };
    ctx.classf(format!("dup-distance:{}", (later - first).min(6)));
    ctx.classf(format!("dup-label-class:{}", match &key {
        Item::Int(i) if (1..=7).contains(i) => "standard",
        Item::Int(i) if *i < 0 => "negative-int",
        Item::Int(i) if *i > (1 << 32) || *i < -(1 << 32) => "extreme-int",
        Item::Int(_) => "other-int",
        Item::Text(_) => "text",
        _ => "other",
    }));
    // sometimes the map goes on, after the second occurrence, with a key that is not a label at all
    // (or an integer outside the 64-bit range): the repeated label still comes first
    let mut entries = entries;
    if g.ratio(1, 8) {
        let junk = if g.bool() { crate::gen::gen_out_of_range(g) } else { crate::gen::gen_non_label(g) };
        let at = later + 1 + g.below(entries.len() - later);
        entries.insert(at, (junk, gen_value(g, 1, false)));
        ctx.class("dup-followed-by-non-label-key");
    }
    // ... or with entries that are a fault only once they have been read: the second half of an IV /
    // Partial-IV pair, a typed parameter of the wrong kind, an empty crit / key_ops list
    if g.ratio(1, 6) {
        let has = |es: &Vec<(Item, Item)>, l: i128| es.iter().any(|(k, _)| k == &Item::Int(l));
        let mut tail: Vec<(Item, Item)> = vec![];
        match ty {
            MapTy::Header => match g.below(3) {
                0 => {
                    if !has(&entries, 5) {
                        tail.push((Item::Int(5), Item::Bytes(g.nonempty_bytes())));
                    }
                    if !has(&entries, 6) {
                        tail.push((Item::Int(6), Item::Bytes(g.nonempty_bytes())));
                    }
                    if g.bool() {
                        tail.reverse();
                    }
                }
                1 if !has(&entries, 4) => tail.push((Item::Int(4), Item::Int(0))),
                _ if !has(&entries, 2) => tail.push((Item::Int(2), Item::Array(vec![]))),
                _ => {}
            },
            MapTy::Key => {
                if !has(&entries, 2) {
                    tail.push((Item::Int(2), Item::Text("kid".into())));
                } else if !has(&entries, 4) {
                    tail.push((Item::Int(4), Item::Array(vec![])));
                }
            }
            MapTy::Claims => {
                if !has(&entries, 1) {
                    tail.push((Item::Int(1), Item::Int(5)));
                }
            }
        }
        if !tail.is_empty() {
            for e in tail {
                let at = later + 1 + g.below(entries.len() - later);
                entries.insert(at, e);
            }
            ctx.class("dup-followed-by-a-fault-that-shows-later");
        }
    }
    let map = Item::Map(entries.clone());
    let mut without_later = entries.clone();
    without_later.remove(later);
    // the duplicate is "the fault met first" when everything before its second occurrence is fine
    let first_fault = model_accepts(ty, &Item::Map(entries[..later].to_vec()));
    let only_fault = model_accepts(ty, &Item::Map(without_later)) || first_fault;
    ctx.class(if only_fault { "duplicate-is-only-fault" } else { "duplicate-among-other-faults" });

    let mut in_keyset = false;
    let (top, kind, propagates) = match ty {
        MapTy::Header => place_header(g, map.clone(), ctx),
        MapTy::Key => {
            if g.ratio(1, 3) {
                in_keyset = true;
                ctx.class("pos:key-in-keyset");
                let good = Item::Map(vec![(Item::Int(1), Item::Int(4))]);
                (Item::Array(if g.bool() { vec![good, map.clone()] } else { vec![map.clone()] }), None, true)
            } else {
                ctx.class("pos:standalone");
                (map.clone(), None, true)
            }
        }
        MapTy::Claims => {
            ctx.class("pos:standalone");
            (map.clone(), None, true)
        }
    };
    let (bytes, _) = styled(&top, g, StyleOpts::ALL);
    ctx.nontrivial(hash_str(&format!("{:?}|{}", ty, diag(&top))));
    ctx.sample_with(|| format!("decode {:?}: {} = {}", ty, diag(&top), hex_trunc(&bytes, 64)));
    match decode_top(ty, kind, in_keyset, &bytes) {
        Ok(()) => fail!("map with the same label twice accepted\n  item: {}\n  bytes: {}", diag(&top), hex_trunc(&bytes, 300)),
        Err(e) => {
            if only_fault && propagates {
                ensure!(is_dup(&e), "duplicate label is the only fault (or the first one met) but the error is {:?}, not the duplicate-key error\n  item: {}\n  bytes: {}", e, diag(&top), hex_trunc(&bytes, 300));
            }
        }
    }
    Ok(())
}

// ---- encode side -----------------------------------------------------------------------------

/// The maps the crate itself emits (header / key / claims maps at the top level, the header maps of
/// nested messages and counter-signatures) have pairwise distinct keys.  Values of extra
/// parameters are caller data and are not descended into.
fn maps_distinct(i: &Item) -> Result<(), String> {
    match i {
        Item::Map(m) => {
            for (n, (k, v)) in m.iter().enumerate() {
                if m[..n].iter().any(|(k2, _)| k2 == k) {
                    return Err(format!("emitted map repeats key {}", diag(k)));
                }
                if k == &Item::Int(7) {
                    // counter-signature(s): message-shaped arrays
                    maps_distinct(v)?;
                }
            }
            Ok(())
        }
        Item::Array(a) => {
            // message shape: [bstr protected, map unprotected, ...]
            if a.len() >= 2 {
                if let (Item::Bytes(b), Item::Map(_)) = (&a[0], &a[1]) {
                    if !b.is_empty() {
                        if let Ok(inner) = read_lenient(b) {
                            maps_distinct(&inner)?;
                        }
                    }
                    maps_distinct(&a[1])?;
                    for x in &a[2..] {
                        if let Item::Array(_) = x {
                            maps_distinct(x)?;
                        }
                    }
                    return Ok(());
                }
            }
            // list of messages / keys
            for x in a {
                match x {
                    Item::Array(_) | Item::Map(_) => maps_distinct(x)?,
                    _ => {}
                }
            }
            Ok(())
        }
        _ => Ok(()),
    }
}

fn leaf_value(g: &mut Gen) -> Value {
    match g.below(4) {
        0 => Value::from(g.range_i64(-5, 500)),
        1 => Value::Bytes(g.small_bytes()),
        2 => Value::Text(g.text()),
        _ => Value::Bool(g.bool()),
    }
}

fn check_encode_result(what: &str, must_fail: bool, r: Result<Vec<u8>, CoseError>, ctx: &mut Ctx, known_sig: Option<&str>) -> CaseResult {
    match r {
        Err(_) => Ok(()),
        Ok(out) => {
            let read = read_lenient(&out).map_err(|e| format!("{}: output is not well-formed CBOR ({:?})", what, e))?;
            let distinct = maps_distinct(&read);
            if distinct.is_ok() && !must_fail {
                return Ok(());
            }
            let msg = format!("{}: encoding succeeded{}: {} = {}", what,
                match &distinct { Err(e) => format!(" and {}", e), Ok(()) => " although the value puts one label into its map twice".to_string() },
                diag(&read), hex_trunc(&out, 120));
            match known_sig {
                Some(sig) => ctx.known(sig, &msg_head(&msg)).map_err(|_| msg),
                None => Err(msg),
            }
        }
    }
}

fn msg_head(m: &str) -> String {
    m.split(':').next().unwrap_or(m).to_string()
}

fn encode_case(g: &mut Gen, ctx: &mut Ctx) -> CaseResult {
    let ty = *g.pick(&[MapTy::Header, MapTy::Header, MapTy::Key, MapTy::Claims]);
    ctx.classf(format!("encode:{:?}", ty));
    // how the repeated label arises
    let mode = g.below(3); // 0: two equal extras; 1: extra = populated typed label; 2: extra = empty typed label
    match ty {
        MapTy::Header => {
            let base = gen_header(g, &mut Faults::none(), 1);
            let m = match m_header(&base, &mut MCtx::default()) {
                Ok(m) => m,
                Err(_) => return Ok(()),
            };
            let mut h = match model_to_header(&m) {
                Some(h) => h,
                None => return Ok(()),
            };
            // a struct literal can populate both IV and Partial IV (no decoder or builder does)
            if g.ratio(1, 5) {
                if h.iv.is_empty() {
                    h.iv = g.nonempty_bytes();
                }
                if h.partial_iv.is_empty() {
                    h.partial_iv = g.nonempty_bytes();
                }
                ctx.class("encode:header-with-iv-and-partial-iv");
            }
            let must_fail;
            let descr;
            match mode {
                0 => {
                    if h.rest.is_empty() {
                        h.rest.push((Label::Int(g.range_i64(8, 40)), leaf_value(g)));
                    }
                    let l = h.rest[g.below(h.rest.len())].0.clone();
                    let at = g.below(h.rest.len() + 1);
                    h.rest.insert(at, (l.clone(), leaf_value(g)));
                    must_fail = true;
                    descr = format!("Header with extra label {:?} twice", l);
                    ctx.class("encode:two-equal-extras");
                }
                _ => {
                    let l = g.range_i64(1, 7);
                    let populated = match l {
                        1 => h.alg.is_some(),
                        2 => !h.crit.is_empty(),
                        3 => h.content_type.is_some(),
                        4 => !h.key_id.is_empty(),
                        5 => !h.iv.is_empty(),
                        6 => !h.partial_iv.is_empty(),
                        _ => !h.counter_signatures.is_empty(),
                    };
                    // steer towards the requested mode
                    if mode == 1 && !populated && l == 4 {
                        h.key_id = vec![1, 2];
                    }
                    let populated = populated || (mode == 1 && l == 4);
                    let at = g.below(h.rest.len() + 1);
                    h.rest.insert(at, (Label::Int(l), leaf_value(g)));
                    must_fail = populated;
                    descr = format!("Header with extra label {} whose typed field is {}", l, if populated { "populated" } else { "empty" });
                    ctx.class(if populated { "encode:extra-equals-populated-typed" } else { "encode:extra-equals-empty-typed" });
                }
            }
            ctx.nontrivial(hash_str(&format!("{:?}", h)));
            ctx.sample_with(|| format!("encode {}: {}", descr, short(&h, 300)));
            check_encode_result(&descr, must_fail, h.clone().to_vec(), ctx, None)?;
            // as the headers of a carrier
            let kind = g.below(4);
            let prot = g.bool();
            let (ph, uh) = if prot { (coset::ProtectedHeader { original_data: None, header: h.clone() }, Header::default()) } else { (Default::default(), h.clone()) };
            let r = match kind {
                0 => coset::CoseSign1 { protected: ph, unprotected: uh, payload: None, signature: vec![1] }.to_vec(),
                1 => coset::CoseEncrypt0 { protected: ph, unprotected: uh, ciphertext: None }.to_vec(),
                2 => coset::CoseMac { protected: Default::default(), unprotected: Header::default(), payload: None, tag: vec![], recipients: vec![coset::CoseRecipient { protected: ph, unprotected: uh, ciphertext: None, recipients: vec![] }] }.to_vec(),
                _ => {
                    let sig = coset::CoseSignature { protected: ph, unprotected: uh, signature: vec![2] };
                    let outer = Header { counter_signatures: vec![sig], ..Default::default() };
                    coset::CoseSign1 { protected: Default::default(), unprotected: outer, payload: None, signature: vec![1] }.to_vec()
                }
            };
            check_encode_result(&format!("{} inside a carrier ({} slot)", descr, if prot { "protected" } else { "unprotected" }), must_fail, r, ctx, None)
        }
        MapTy::Key => {
            let base = gen_key(g, &mut Faults::none());
            let m = match m_key(&base) {
                Ok(m) => m,
                Err(_) => return Ok(()),
            };
            let mut k = match model_to_key(&m) {
                Some(k) => k,
                None => return Ok(()),
            };
            let must_fail;
            let descr;
            match mode {
                0 => {
                    if k.params.is_empty() {
                        k.params.push((Label::Int(-1), leaf_value(g)));
                    }
                    // (one time in six the repeated label is 0 — the one extra label that is emitted ahead of
                    // the typed fields — and the two copies may be next to each other, leading, or apart;
                    // sometimes the key is canonicalised before it is encoded)
                    let zero = g.ratio(1, 6);
                    if zero && !k.params.iter().any(|(l, _)| *l == Label::Int(0)) {
                        let at = if g.bool() { 0 } else { g.below(k.params.len() + 1) };
                        k.params.insert(at, (Label::Int(0), leaf_value(g)));
                    }
                    let l = if zero { Label::Int(0) } else { k.params[g.below(k.params.len())].0.clone() };
                    let at = if zero && g.bool() { 0 } else { g.below(k.params.len() + 1) };
                    k.params.insert(at, (l.clone(), leaf_value(g)));
                    if g.ratio(1, 4) {
                        k.canonicalize(if g.bool() { coset::CborOrdering::Lexicographic } else { coset::CborOrdering::LengthFirstLexicographic });
                        ctx.class("encode:canonicalized-first");
                    }
                    must_fail = true;
                    descr = format!("CoseKey with extra label {:?} twice", l);
                    ctx.class("encode:two-equal-extras");
                }
                _ => {
                    let l = g.range_i64(1, 5);
                    let populated = match l {
                        1 => true, // kty is always emitted
                        2 => !k.key_id.is_empty(),
                        3 => k.alg.is_some(),
                        4 => !k.key_ops.is_empty(),
                        _ => !k.base_iv.is_empty(),
                    };
                    if l == 1 && g.bool() {
                        // a key whose kty was never set: label 1 is emitted all the same (`1: 0`)
                        k.kty = coset::KeyType::default();
                        ctx.class("encode:kty-left-at-its-default");
                    }
                    let at = g.below(k.params.len() + 1);
                    k.params.insert(at, (Label::Int(l), leaf_value(g)));
                    must_fail = populated;
                    descr = format!("CoseKey with extra label {} whose typed field is {}", l, if populated { "populated" } else { "empty" });
                    ctx.class(if populated { "encode:extra-equals-populated-typed" } else { "encode:extra-equals-empty-typed" });
                }
            }
            ctx.nontrivial(hash_str(&format!("{:?}", k)));
            ctx.sample_with(|| format!("encode {}: {}", descr, short(&k, 300)));
            check_encode_result(&descr, must_fail, k.clone().to_vec(), ctx, None)?;
            check_encode_result(&format!("{} inside a key set", descr), must_fail, CoseKeySet(vec![k]).to_vec(), ctx, None)
        }
        MapTy::Claims => {
            let base = gen_claims(g, &mut Faults::none());
            let m = match m_claims(&base) {
                Ok(m) => m,
                Err(_) => return Ok(()),
            };
            let mut c = match model_to_claims(&m) {
                Some(c) => c,
                None => return Ok(()),
            };
            let must_fail;
            let descr;
            let sig;
            match mode {
                0 => {
                    if c.rest.is_empty() {
                        c.rest.push((coset::cwt::ClaimName::Text("x".into()), leaf_value(g)));
                    }
                    let l = c.rest[g.below(c.rest.len())].0.clone();
                    let at = g.below(c.rest.len() + 1);
                    c.rest.insert(at, (l.clone(), leaf_value(g)));
                    must_fail = true;
                    descr = format!("ClaimsSet with extra claim {:?} twice", l);
                    sig = "encode:ClaimsSet:repeated-extra-claim";
                    ctx.class("encode:two-equal-extras");
                }
                _ => {
                    let l = g.range_i64(1, 7);
                    let populated = match l {
                        1 => c.issuer.is_some(),
                        2 => c.subject.is_some(),
                        3 => c.audience.is_some(),
                        4 => c.expiration_time.is_some(),
                        5 => c.not_before.is_some(),
                        6 => c.issued_at.is_some(),
                        _ => c.cwt_id.is_some(),
                    };
                    use coset::iana::EnumI64;
                    let name = coset::cwt::ClaimName::Assigned(coset::iana::CwtClaimName::from_i64(l).ok_or("claim name")?);
                    let at = g.below(c.rest.len() + 1);
                    c.rest.insert(at, (name, leaf_value(g)));
                    must_fail = populated;
                    descr = format!("ClaimsSet with extra claim {} whose typed field is {}", l, if populated { "populated" } else { "absent" });
                    sig = "encode:ClaimsSet:extra-claim-names-populated-typed-claim";
                    ctx.class(if populated { "encode:extra-equals-populated-typed" } else { "encode:extra-equals-empty-typed" });
                }
            }
            ctx.nontrivial(hash_str(&format!("{:?}", c)));
            ctx.sample_with(|| format!("encode {}: {}", descr, short(&c, 300)));
            check_encode_result(&descr, must_fail, c.to_vec(), ctx, Some(sig))
        }
    }
}

/// Plain regression checks of the repaired defects (KNOWN_FINDINGS.txt `fixed:` entries) and of
/// the shapes the suite itself pins; they bypass the generators entirely.
fn exh_count(_t: Tier) -> u64 {
    6
}

fn exh_case(idx: u64, ctx: &mut Ctx) -> CaseResult {
    use coset::iana;
    ctx.class("regression:explicit");
    ctx.nontrivial(hash_str(&format!("explicit-{}", idx)));
    let five = Value::from(5);
    match idx {
        0 => {
            let h = Header { alg: Some(coset::Algorithm::Assigned(iana::Algorithm::ES256)), rest: vec![(Label::Int(1), five)], ..Default::default() };
            ctx.sample_with(|| "Header{alg: ES256, rest: [(1, 5)]}.to_vec() must fail (fixed 00d11be)".into());
            check_encode_result("Header{alg: ES256, rest: [(1, 5)]}", true, h.to_vec(), ctx, None)
        }
        1 => {
            let k = CoseKey { kty: coset::KeyType::Assigned(iana::KeyType::OKP), params: vec![(Label::Int(1), five)], ..Default::default() };
            check_encode_result("CoseKey{kty: OKP, params: [(1, 5)]}", true, k.to_vec(), ctx, None)
        }
        2 => {
            let h = Header { key_id: vec![1], rest: vec![(Label::Int(8), five.clone()), (Label::Int(4), five)], ..Default::default() };
            let s = coset::CoseSign1 { protected: coset::ProtectedHeader { original_data: None, header: h }, ..Default::default() };
            check_encode_result("CoseSign1 whose built protected header has kid and an extra labelled 4", true, s.to_vec(), ctx, None)
        }
        3 => {
            let k = CoseKey { kty: coset::KeyType::Assigned(iana::KeyType::EC2), base_iv: vec![9], params: vec![(Label::Int(-1), five.clone()), (Label::Int(5), five)], ..Default::default() };
            check_encode_result("CoseKey with Base IV and an extra labelled 5, inside a key set", true, CoseKeySet(vec![k]).to_vec(), ctx, None)
        }
        4 => {
            let h = Header { rest: vec![(Label::Text("a".into()), five.clone()), (Label::Int(9), five.clone()), (Label::Text("a".into()), five)], ..Default::default() };
            check_encode_result("Header with text label \"a\" twice", true, h.to_vec(), ctx, None)
        }
        _ => {
            // decode side witness: alg twice with different encodings of label 1
            let b = [0xa2u8, 0x01, 0x26, 0x18, 0x01, 0x26];
            match Header::from_slice(&b) {
                Err(e) if is_dup(&e) => Ok(()),
                o => Err(format!("a2 01 26 1801 26 (label 1 twice, differently encoded) gave {:?}", o)),
            }
        }
    }
}

fn case(g: &mut Gen, ctx: &mut Ctx) -> CaseResult {
    if g.ratio(1, 3) {
        encode_case(g, ctx)
    } else {
        decode_case(g, ctx)
    }
}

pub fn property() -> Property {
    Property {
        id: "C12",
        title: "No map handled by the crate ever carries the same label twice",
        rule: "decode: a valid header / key / claims map plus one duplicated entry (any source entry, any insertion position, duplicate's value equal, arbitrary or of a wrong kind; the two keys styled independently), \
               placed standalone, in the protected or unprotected slot of every carrier, in a signer, in recipients at depth 1-3, in counter-signatures (protected and unprotected), in a key set; \
               encode: in-memory Header / CoseKey / ClaimsSet (and carriers / key sets holding them) with two equal extra labels or an extra label naming a typed field (populated or empty); \
               every case is non-trivial (each holds a repeated label); distinct by (type, abstract item)",
        assumptions: &[
            "the duplicate-key error is demanded only when the duplicate is the single fault (model accepts the map without the later entry) and the position propagates nested errors (not a signer inside COSE_Sign)",
            "encode side: only the maps the crate emits itself are examined (top-level header/key/claims map, header maps of nested messages and counter-signatures); values of extra parameters are caller data",
        ],
        exhaustive_domains: &["explicit regression witnesses of the two repaired encoder defects and of the pinned duplicate shapes"],
        case,
        exh_count,
        exh_case,
        bytes_case: None,
        quick_cases: 400_000,
        thorough_cases: 3_000_000,
        max_tape: 2048,
    }
}

//! C04 — to-be-MACed bytes are exactly RFC 8152 MAC_structure.

use crate::cbor::hex_trunc;
use crate::cbor::StyleOpts;
use crate::gen::{gen_msg, Faults};
use crate::model::{m_msg, Kind, MCtx};
use crate::props::common::styled;
use crate::props::structs::*;
use crate::run::{hash_bytes, no_exh_case, no_exh_count, CaseResult, Ctx, Property};
use crate::tape::Gen;
use coset::{mac_structure_data, CborSerializable, CoseMac, CoseMac0, CoseMac0Builder, CoseMacBuilder, Header, MacContext};
use std::cell::RefCell;

fn expect_eq(what: &str, got: &[u8], want: &[u8]) -> CaseResult {
    ensure!(got == want, "{}: to-be-MACed bytes differ from the deterministic encoding of MAC_structure\n  got:  {}\n  want: {}", what, hex_trunc(got, 200), hex_trunc(want, 200));
    Ok(())
}

/// A whole COSE_Mac / COSE_Mac0 decoded from styled wire bytes (any unprotected header, recipients), then verified.
fn wire_carrier_case(g: &mut Gen, ctx: &mut Ctx) -> CaseResult {
    let kind = *g.pick(&[Kind::Mac, Kind::Mac0]);
    let depth = g.below(2);
    let item = gen_msg(g, kind, &mut Faults::none(), depth);
    let (bytes, enc) = styled(&item, g, StyleOpts::ALL);
    let mut mc = MCtx::default();
    let m = match m_msg(kind, &enc, &mut mc) {
        Ok(m) => m,
        Err(_) => return Ok(()),
    };
    let payload = match &m.content {
        Some(p) => p.clone(),
        None => return Ok(()),
    };
    let aad = gen_class_bytes(g);
    let w = m.protected.wire.clone().unwrap_or_default();
    ctx.classf(format!("wire-carrier:{}", kind.name()));
    ctx.nontrivial(hash_bytes(&[&b"w"[..], &bytes, &aad].concat()));
    ctx.sample_with(|| format!("whole {} decoded from {} then verified, aad {}B", kind.name(), hex_trunc(&bytes, 48), aad.len()));
    let mut seen = (vec![], vec![]);
    let f = |t: &[u8], d: &[u8]| -> Result<(), u8> {
        seen = (t.to_vec(), d.to_vec());
        Ok(())
    };
    let want = if kind == Kind::Mac {
        let v = match CoseMac::from_slice(&bytes) { Ok(v) => v, Err(e) => { return if mc.unspecified { Ok(()) } else { Err(format!("valid COSE_Mac rejected: {:?}", e)) } } };
        let _ = v.verify_tag(&aad, f);
        ref_mac_structure("MAC", &w, &aad, &payload)
    } else {
        let v = CoseMac0::from_slice(&bytes).map_err(|e| format!("valid COSE_Mac0 rejected: {:?}", e))?;
        let _ = v.verify_tag(&aad, f);
        ref_mac_structure("MAC0", &w, &aad, &payload)
    };
    ensure!(seen.0 == m.auth, "whole {}: verify_tag handed over a tag other than the received one", kind.name());
    expect_eq(&format!("whole {}: verify_tag", kind.name()), &seen.1, &want)
}

/// Whatever the decoder accepts (here: messages with one planted fault, most of which it must
/// reject — that is C08/C09's business), the to-be-MACed bytes carry the *received* protected
/// bytes, payload and context: the slots are read off the wire with the harness' own reader.
fn accepted_any_case(g: &mut Gen, ctx: &mut Ctx) -> CaseResult {
    let kind = *g.pick(&[Kind::Mac, Kind::Mac0]);
    let item = gen_msg(g, kind, &mut Faults::one(), 1);
    let o = if g.bool() { StyleOpts::NONE } else { StyleOpts::ALL };
    let (bytes, _) = styled(&item, g, o);
    let slots = match wire_slots(&bytes) {
        Some(s) => s,
        None => return Ok(()),
    };
    let (w, payload, tag) = match (slot_bytes(&slots, 0), slot_bytes(&slots, 2), slot_bytes(&slots, 3)) {
        (Some(w), Some(p), Some(t)) => (w, p, t),
        _ => return Ok(()),
    };
    let aad = g.small_bytes();
    let mut seen = None;
    let f = |t: &[u8], d: &[u8]| -> Result<(), u8> {
        seen = Some((t.to_vec(), d.to_vec()));
        Ok(())
    };
    let cname = if kind == Kind::Mac {
        match CoseMac::from_slice(&bytes) {
            Ok(v) => {
                let _ = v.verify_tag(&aad, f);
            }
            Err(_) => return Ok(()),
        }
        "MAC"
    } else {
        match CoseMac0::from_slice(&bytes) {
            Ok(v) => {
                let _ = v.verify_tag(&aad, f);
            }
            Err(_) => return Ok(()),
        }
        "MAC0"
    };
    ctx.classf(format!("accepted-any:{}", kind.name()));
    ctx.nontrivial(hash_bytes(&[&b"a"[..], &bytes, &aad].concat()));
    let (t, d) = seen.ok_or("verify_tag did not call the verifier")?;
    ensure!(t == tag, "accepted {}: verify_tag handed over a tag other than the received one", kind.name());
    expect_eq(&format!("accepted {} ({}): verify_tag", kind.name(), hex_trunc(&bytes, 60)), &d, &ref_mac_structure(cname, &w, &aad, &payload))
}

/// A built protected header that has no encoding is refused by every helper (nothing is MACed
/// for it — in particular not the bytes of a different header).
fn unencodable_case(g: &mut Gen, ctx: &mut Ctx) -> CaseResult {
    let (bad, sibling) = gen_unencodable_header(g, ctx);
    let aad = g.small_bytes();
    let payload = g.small_bytes();
    let c = if g.bool() { MacContext::CoseMac } else { MacContext::CoseMac0 };
    ctx.nontrivial(hash_bytes(format!("u|{:?}|{:?}", bad, aad).as_bytes()));
    ctx.sample_with(|| format!("built protected header without an encoding: {:?}", bad));
    let pb = coset::ProtectedHeader { original_data: None, header: bad.clone() };
    let ps = coset::ProtectedHeader { original_data: None, header: sibling.clone() };
    let want_sibling = crate::run::catch(|| mac_structure_data(c, ps.clone(), &aad, &payload));
    match crate::run::catch(|| mac_structure_data(c, pb.clone(), &aad, &payload)) {
        Err(_) => {}
        Ok(b) => {
            ensure!(Some(&b) != want_sibling.as_ref().ok(), "mac_structure_data: a protected header that cannot be encoded shares to-be-MACed bytes with a different header\n  header:  {:?}\n  sibling: {:?}", bad, sibling);
            fail!("mac_structure_data produced {} for a protected header that has no encoding: {:?}", hex_trunc(&b, 80), bad);
        }
    }
    let called = RefCell::new(0u32);
    let f = |_: &[u8]| {
        *called.borrow_mut() += 1;
        vec![1u8]
    };
    let r = if g.bool() {
        crate::run::catch(|| CoseMac0Builder::new().protected(bad.clone()).payload(payload.clone()).create_tag(&aad, f).build().tag)
    } else {
        crate::run::catch(|| CoseMacBuilder::new().protected(bad.clone()).payload(payload.clone()).create_tag(&aad, f).build().tag)
    };
    ensure!(r.is_err() && *called.borrow() == 0, "create_tag MACed something for a protected header that has no encoding: {:?}", bad);
    // verify side
    let m = CoseMac0 { protected: pb, unprotected: Header::default(), payload: Some(payload.clone()), tag: vec![1] };
    let called = RefCell::new(0u32);
    let r = crate::run::catch(|| m.verify_tag(&aad, |_, _| -> Result<(), u8> { *called.borrow_mut() += 1; Ok(()) }));
    ensure!(r.is_err() && *called.borrow() == 0, "verify_tag handed the verifier something for a protected header that has no encoding: {:?}", bad);
    Ok(())
}

fn case(g: &mut Gen, ctx: &mut Ctx) -> CaseResult {
    if g.ratio(1, 5) {
        return wire_carrier_case(g, ctx);
    }
    if g.ratio(1, 12) {
        return unencodable_case(g, ctx);
    }
    if g.ratio(1, 5) {
        return accepted_any_case(g, ctx);
    }
    let prot = gen_prot(g, ctx)?;
    let aad = gen_aad(g, &prot.p);
    let payload = gen_class_bytes(g);
    let mac0 = g.bool();
    let has_payload = !g.ratio(1, 5);
    let cname = if mac0 { "MAC0" } else { "MAC" };
    ctx.classf(format!("carrier:{}", if mac0 { "COSE_Mac0" } else { "COSE_Mac" }));
    ctx.classf(format!("aad-len:{}", len_class(aad.len())));
    ctx.classf(format!("payload-len:{}", len_class(payload.len())));
    ctx.class(if has_payload { "payload:present" } else { "payload:absent" });
    ctx.nontrivial(hash_bytes(&[&b"m"[..], &prot.p, &aad, &payload, &[mac0 as u8, has_payload as u8]].concat()));
    ctx.sample_with(|| format!("{} protected[{}]={} aad={}B payload={}", cname, prot.flavour, hex_trunc(&prot.p, 24), aad.len(), if has_payload { format!("{}B", payload.len()) } else { "absent".into() }));
    let tag = g.small_bytes();
    let want = ref_mac_structure(cname, &prot.p, &aad, &payload);

    // the general function, both contexts, and their separation
    let g_this = mac_structure_data(if mac0 { MacContext::CoseMac0 } else { MacContext::CoseMac }, prot.value.clone(), &aad, &payload);
    let g_other = mac_structure_data(if mac0 { MacContext::CoseMac } else { MacContext::CoseMac0 }, prot.value.clone(), &aad, &payload);
    expect_eq("mac_structure_data", &g_this, &want)?;
    expect_eq("mac_structure_data (other context)", &g_other, &ref_mac_structure(if mac0 { "MAC" } else { "MAC0" }, &prot.p, &aad, &payload))?;
    ensure!(g_this != g_other, "MAC and MAC0 contexts share to-be-MACed bytes");

    let called = RefCell::new(0u32);
    let seen = RefCell::new(None);
    let verify = |t: &[u8], d: &[u8]| -> Result<(), u8> {
        *called.borrow_mut() += 1;
        *seen.borrow_mut() = Some((t.to_vec(), d.to_vec()));
        Ok(())
    };
    let pl = if has_payload { Some(payload.clone()) } else { None };
    if mac0 {
        let msg = CoseMac0 { protected: prot.value.clone(), unprotected: Header::default(), payload: pl.clone(), tag: tag.clone() };
        if has_payload {
            let _ = msg.verify_tag(&aad, verify);
        } else {
            ensure!(panics(|| msg.verify_tag(&aad, verify)), "CoseMac0::verify_tag without a payload did not refuse");
            ensure!(*called.borrow() == 0, "CoseMac0::verify_tag without a payload still called the MAC function");
        }
    } else {
        let msg = CoseMac { protected: prot.value.clone(), unprotected: Header::default(), payload: pl.clone(), tag: tag.clone(), recipients: vec![] };
        if has_payload {
            let _ = msg.verify_tag(&aad, verify);
        } else {
            ensure!(panics(|| msg.verify_tag(&aad, verify)), "CoseMac::verify_tag without a payload did not refuse");
            ensure!(*called.borrow() == 0, "CoseMac::verify_tag without a payload still called the MAC function");
        }
    }
    if has_payload {
        let (t, d) = seen.into_inner().ok_or("verify_tag did not call the MAC function")?;
        ensure!(t == tag, "verify_tag handed over a different tag");
        expect_eq("verify_tag", &d, &want)?;
    }

    // builder helpers
    if let Some(h) = &prot.built {
        let seen = RefCell::new(vec![]);
        let fallible = g.bool();
        let create = |d: &[u8]| {
            seen.borrow_mut().push(d.to_vec());
            vec![0x7a]
        };
        let outcome: Result<Vec<u8>, String> = if mac0 {
            let mut b = crate::builder_with_headers!(CoseMac0Builder, g, h);
            if has_payload {
                b = b.payload(payload.clone());
            }
            crate::run::catch(|| if fallible { b.try_create_tag(&aad, |d| -> Result<Vec<u8>, ()> { Ok(create(d)) }).map(|b| b.build().tag).unwrap_or_default() } else { b.create_tag(&aad, create).build().tag })
        } else {
            let mut b = crate::builder_with_headers!(CoseMacBuilder, g, h);
            if has_payload {
                b = b.payload(payload.clone());
            }
            crate::run::catch(|| if fallible { b.try_create_tag(&aad, |d| -> Result<Vec<u8>, ()> { Ok(create(d)) }).map(|b| b.build().tag).unwrap_or_default() } else { b.create_tag(&aad, create).build().tag })
        };
        let seen = seen.into_inner();
        if has_payload {
            let t = outcome.map_err(|e| format!("create_tag panicked with a payload present: {}", e))?;
            ensure!(t == vec![0x7a], "builder did not store the MAC function's output");
            ensure!(seen.len() == 1, "MAC function called {} times", seen.len());
            expect_eq("builder create_tag", &seen[0], &want)?;
        } else {
            ensure!(outcome.is_err(), "create_tag / try_create_tag without a payload did not refuse");
            ensure!(seen.is_empty(), "create_tag without a payload still called the MAC function (with {})", hex_trunc(&seen[0], 60));
        }
        ctx.class("builder-helper");
        // the built message, its protected header edited through the public fields afterwards: the
        // verifier MACs the edited header
        if has_payload && h.rest.iter().all(|(l, _)| !matches!(l, coset::Label::Int(i) if (77_000..77_100).contains(i))) {
            let mut seen2: Vec<u8> = vec![];
            let p2;
            if mac0 {
                let mut m = CoseMac0Builder::new().protected(h.clone()).payload(payload.clone()).create_tag(&aad, |_| vec![0x7a]).build();
                p2 = edit_built_protected(g, &mut m.protected)?;
                let _: Result<(), ()> = m.verify_tag(&aad, |_, d| {
                    seen2 = d.to_vec();
                    Ok(())
                });
            } else {
                let mut m = CoseMacBuilder::new().protected(h.clone()).payload(payload.clone()).create_tag(&aad, |_| vec![0x7a]).build();
                p2 = edit_built_protected(g, &mut m.protected)?;
                let _: Result<(), ()> = m.verify_tag(&aad, |_, d| {
                    seen2 = d.to_vec();
                    Ok(())
                });
            }
            expect_eq("message built through the builder, protected header edited afterwards: verify_tag", &seen2, &ref_mac_structure(if mac0 { "MAC0" } else { "MAC" }, &p2, &aad, &payload))?;
            ctx.class("built-then-edited");
        }
    }
    // injectivity on a perturbed tuple
    let mut aad2 = aad.clone();
    aad2.push(1);
    let o = mac_structure_data(if mac0 { MacContext::CoseMac0 } else { MacContext::CoseMac }, prot.value.clone(), &aad2, &payload);
    ensure!(o != g_this, "different AAD, same to-be-MACed bytes");
    if !aad.is_empty() {
        // moving the boundary between aad and payload
        let (a1, a2) = aad.split_at(aad.len() - 1);
        let mut p2 = a2.to_vec();
        p2.extend_from_slice(&payload);
        let o = mac_structure_data(if mac0 { MacContext::CoseMac0 } else { MacContext::CoseMac }, prot.value.clone(), a1, &p2);
        ensure!(o != g_this, "shifting a byte from AAD to payload keeps the to-be-MACed bytes");
    }
    Ok(())
}

pub fn property() -> Property {
    Property {
        id: "C04",
        title: "To-be-MACed bytes are exactly RFC 8152 MAC_structure",
        rule: "(COSE_Mac | COSE_Mac0) x protected header [decoded from styled wire bytes | built empty | built non-empty] x external AAD x payload (present / absent) with lengths on the CBOR length-class lattice (rarely 2^20..2^25 bytes; one AAD in ten shaped like a structure naming a context and the same protected bytes); whole carriers decoded from styled wire bytes, and messages with one planted fault that the decoder nevertheless accepts (slots read off the wire by the harness' reader); \
               reached through mac_structure_data (both contexts) and the closures of create_tag / try_create_tag / verify_tag; byte equality with an independent deterministic encoder; context separation; \
               refusal (panic, MAC function not called) without a payload; every case is non-trivial; distinct by tuple",
        assumptions: &["reference: own deterministic encoder of the RFC 8152 §6.3 array with the two context strings written in the harness"],
        exhaustive_domains: &[],
        case,
        exh_count: no_exh_count,
        exh_case: no_exh_case,
        bytes_case: None,
        quick_cases: 200_000,
        thorough_cases: 1_500_000,
        max_tape: 4096,
    }
}

//! C10 — COSE_Key / COSE_KeySet: accepted iff well-formed, parameters map to fields.

use crate::cbor::{diag, hex_trunc, Item, StyleOpts};
use crate::gen::{gen_key, gen_keyset, Faults};
use crate::model::*;
use crate::props::common::*;
use crate::run::{hash_str, no_exh_case, no_exh_count, CaseResult, Ctx, Property};
use crate::tape::Gen;
use coset::{CborSerializable, CoseKey, CoseKeySet};

fn case(g: &mut Gen, ctx: &mut Ctx) -> CaseResult {
    let (mut faults, mode) = match g.weighted(&[4, 4, 2]) {
        0 => (Faults::none(), "valid"),
        1 => (Faults::one(), "one-fault"),
        _ => (Faults::many(), "many-faults"),
    };
    let set = g.ratio(1, 3);
    let item = if set { gen_keyset(g, &mut faults) } else { gen_key(g, &mut faults) };
    ctx.classf(format!("mode:{}", mode));
    ctx.class(if set { "type:COSE_KeySet" } else { "type:COSE_Key" });
    for f in &faults.log {
        ctx.classf(format!("fault:{}", f));
    }
    let mut decoded: Vec<String> = vec![];
    for style in 0..2 {
        let o = if style == 0 && g.bool() { StyleOpts::NONE } else { StyleOpts::ALL };
        let (bytes, _) = styled(&item, g, o);
        if style == 0 {
            let nontrivial = match &item {
                Item::Map(m) => (m.iter().any(|(k, _)| k == &Item::Int(1)) && m.len() >= 2) || !faults.log.is_empty(),
                Item::Array(a) => !a.is_empty(),
                _ => !faults.log.is_empty(),
            };
            if nontrivial {
                ctx.nontrivial(hash_str(&diag(&item)));
                ctx.sample_with(|| format!("[{}] {} = {}", mode, diag(&item), hex_trunc(&bytes, 48)));
            }
        }
        if set {
            let expect = m_keyset(&item);
            let got = CoseKeySet::from_slice(&bytes);
            if style == 0 {
                ctx.classf(format!("model:{}", if expect.is_ok() { "accept" } else { "reject" }));
            }
            match (&expect, got) {
                (Ok(e), Ok(ks)) => {
                    let m = keyset_to_model(&ks)?;
                    ensure!(&m == e, "COSE_KeySet decoded differently from the wire content\n  item: {}\n  bytes: {}\n  expected: {}\n  got: {}", diag(&item), hex_trunc(&bytes, 300), short(e, 800), short(&m, 800));
                    decoded.push(format!("{:?}", m));
                }
                (Ok(_), Err(e)) => fail!("well-formed COSE_KeySet rejected ({:?})\n  item: {}\n  bytes: {}", e, diag(&item), hex_trunc(&bytes, 300)),
                (Err(Rej::Reject(why)), Ok(_)) => fail!("ill-formed COSE_KeySet accepted (model: {})\n  item: {}\n  bytes: {}", why, diag(&item), hex_trunc(&bytes, 300)),
                _ => {}
            }
        } else {
            let expect = m_key(&item);
            let got = CoseKey::from_slice(&bytes);
            if style == 0 {
                ctx.classf(format!("model:{}", if expect.is_ok() { "accept" } else { "reject" }));
            }
            match (&expect, got) {
                (Ok(e), Ok(k)) => {
                    let m = key_to_model(&k)?;
                    ensure!(&m == e, "COSE_Key decoded differently from the wire content\n  item: {}\n  bytes: {}\n  expected: {}\n  got: {}", diag(&item), hex_trunc(&bytes, 300), short(e, 800), short(&m, 800));
                    decoded.push(format!("{:?}", m));
                }
                (Ok(_), Err(e)) => fail!("well-formed COSE_Key rejected ({:?})\n  item: {}\n  bytes: {}", e, diag(&item), hex_trunc(&bytes, 300)),
                (Err(Rej::Reject(why)), Ok(_)) => fail!("ill-formed COSE_Key accepted (model: {})\n  item: {}\n  bytes: {}", why, diag(&item), hex_trunc(&bytes, 300)),
                _ => {}
            }
        }
    }
    if decoded.len() == 2 {
        ensure!(decoded[0] == decoded[1], "two encodings of the same key content decode differently\n  item: {}", diag(&item));
    }
    Ok(())
}

pub fn property() -> Property {
    Property {
        id: "C10",
        title: "COSE_Key / COSE_KeySet: accepted iff well-formed, parameters map to fields",
        rule: "abstract key maps over labels {0..6, key-type-specific negatives, texts, extremes, non-labels} and key sets of them, valid / one planted fault / several \
               (kty absent, reserved, unregistered, wrong kind; empty kid/Base IV; bad alg; key_ops empty, non-array, unregistered, repeated int or text; duplicate or non-label keys), \
               two independently styled encodings each; non-trivial = has kty and >= 1 other entry, or a planted fault, or a non-empty key set; distinct by abstract item",
        assumptions: &["oracle: harness/src/model.rs::m_key / m_keyset written from RFC 8152 §7 and the property statement", "registry membership per harness/src/registry.rs"],
        exhaustive_domains: &[],
        case,
        exh_count: no_exh_count,
        exh_case: no_exh_case,
        bytes_case: None,
        quick_cases: 400_000,
        thorough_cases: 3_000_000,
        max_tape: 2048,
    }
}

//! Table of every serialisable public type with its byte-level and Value-level entry points,
//! erased to byte strings / Debug renderings so that properties can range over "all types".

use crate::cbor::Item;
use crate::gen::*;
use crate::model::Kind;
use crate::tape::Gen;
use coset::cbor::value::Value;
use coset::cwt::ClaimsSet;
use coset::iana;
use coset::{
    AsCborValue, CborSerializable, CoseEncrypt, CoseEncrypt0, CoseError, CoseKdfContext, CoseKey, CoseKeySet, CoseMac,
    CoseMac0, CoseRecipient, CoseSign, CoseSign1, CoseSignature, Header, Label, PartyInfo, ProtectedHeader,
    RegisteredLabel, RegisteredLabelWithPrivate, SuppPubInfo, TaggedCborSerializable,
};

#[derive(Clone, Copy, PartialEq, Eq, Debug)]
pub enum Shape {
    Label,
    RegLabel,
    Header,
    Msg(Kind),
    Key,
    KeySet,
    Claims,
    Party,
    Supp,
    Kdf,
    Any,
}

pub struct TypeOps {
    pub name: &'static str,
    pub shape: Shape,
    pub tag: Option<u64>,
    /// from_slice, rendered with Debug
    pub dec: fn(&[u8]) -> Result<String, CoseError>,
    /// from_cbor_value, rendered with Debug
    pub dec_value: fn(Value) -> Result<String, CoseError>,
    /// from_slice then to_vec
    pub recode: fn(&[u8]) -> Option<Result<Vec<u8>, CoseError>>,
    /// from_slice then to_cbor_value
    pub to_value: fn(&[u8]) -> Option<Result<Value, CoseError>>,
    pub dec_tagged: Option<fn(&[u8]) -> Result<String, CoseError>>,
    /// from_tagged_slice then to_tagged_vec
    pub recode_tagged: Option<fn(&[u8]) -> Option<Result<Vec<u8>, CoseError>>>,
    /// from_slice, clone, ==, Debug, drop (C01 follow-ups that every type supports); Err on
    /// a failed self-equality that is not explained by NaN
    pub basic_followups: fn(&[u8]) -> Result<bool, String>,
    /// decode -> encode -> decode -> encode (C07); None if the input is rejected
    pub roundtrip: fn(&[u8]) -> Option<Result<RoundTrip, String>>,
    pub roundtrip_tagged: Option<fn(&[u8]) -> Option<Result<RoundTrip, String>>>,
    /// C01 follow-ups on an accepted value: clone, ==, Debug, re-encode, drop, and the type's
    /// helpers under their documented preconditions (aad, detached payload supplied).
    /// Returns whether the input was accepted.
    pub follow: fn(&[u8], &[u8], &[u8]) -> bool,
    pub follow_tagged: Option<fn(&[u8], &[u8], &[u8]) -> bool>,
    /// decode two inputs and compare the values with each other (both ways): `==` terminates, is
    /// symmetric, and holds when the two render identically (NaN aside).  Ok(true) if both decoded.
    pub compare: fn(&[u8], &[u8]) -> Result<bool, String>,
}

/// Follow-up operations a decoded value supports beyond clone/==/Debug/encode/drop.
pub trait Follow {
    fn follow(&self, _aad: &[u8], _payload: &[u8]) {}
}
impl Follow for Label {
    fn follow(&self, _aad: &[u8], _payload: &[u8]) {
        let _ = self.cmp(self);
        let _ = self.cmp_canonical(self);
    }
}
impl<T: iana::EnumI64> Follow for RegisteredLabel<T> {}
impl<T: iana::EnumI64 + iana::WithPrivateRange> Follow for RegisteredLabelWithPrivate<T> {}
impl Follow for Header {
    fn follow(&self, _aad: &[u8], _payload: &[u8]) {
        let _ = self.is_empty();
    }
}
impl Follow for ProtectedHeader {
    fn follow(&self, aad: &[u8], payload: &[u8]) {
        let _ = self.is_empty();
        let _ = self.clone().cbor_bstr();
        // a decoded header encodes again (C07), so the structure helpers take it as a protected header
        // without hitting their "failed to serialize header" panic
        let _ = coset::sig_structure_data(coset::SignatureContext::CoseSign1, self.clone(), None, aad, payload);
        let _ = coset::sig_structure_data(coset::SignatureContext::CounterSignature, ProtectedHeader::default(), Some(self.clone()), aad, payload);
        let _ = coset::mac_structure_data(coset::MacContext::CoseMac0, self.clone(), aad, payload);
        let _ = coset::enc_structure_data(coset::EncryptionContext::CoseEncrypt0, self.clone(), aad);
    }
}
impl Follow for CoseSignature {}
impl Follow for CoseSign {
    fn follow(&self, aad: &[u8], payload: &[u8]) {
        for (i, s) in self.signatures.iter().enumerate() {
            let _ = self.tbs_data(aad, s);
            let _: Result<(), u8> = self.verify_signature(i, aad, |_, _| Ok(()));
            if self.payload.is_none() {
                let _ = self.tbs_detached_data(payload, aad, s);
                let _: Result<(), u8> = self.verify_detached_signature(i, payload, aad, |_, _| Err(1));
            }
        }
    }
}
impl Follow for CoseSign1 {
    fn follow(&self, aad: &[u8], payload: &[u8]) {
        let _ = self.tbs_data(aad);
        let _: Result<(), u8> = self.verify_signature(aad, |_, _| Ok(()));
        if self.payload.is_none() {
            let _ = self.tbs_detached_data(payload, aad);
            let _: Result<(), u8> = self.verify_detached_signature(payload, aad, |_, _| Err(1));
        }
    }
}
fn follow_recipients(rs: &[CoseRecipient], aad: &[u8]) {
    for r in rs {
        r.follow(aad, &[]);
    }
}
impl Follow for CoseRecipient {
    fn follow(&self, aad: &[u8], _payload: &[u8]) {
        if self.ciphertext.is_some() {
            for c in [coset::EncryptionContext::EncRecipient, coset::EncryptionContext::MacRecipient, coset::EncryptionContext::RecRecipient] {
                let _: Result<Vec<u8>, u8> = self.decrypt(c, aad, |_, _| Ok(vec![]));
            }
        }
        follow_recipients(&self.recipients, aad);
    }
}
impl Follow for CoseMac {
    fn follow(&self, aad: &[u8], _payload: &[u8]) {
        if self.payload.is_some() {
            let _: Result<(), u8> = self.verify_tag(aad, |_, _| Ok(()));
        }
        follow_recipients(&self.recipients, aad);
    }
}
impl Follow for CoseMac0 {
    fn follow(&self, aad: &[u8], _payload: &[u8]) {
        if self.payload.is_some() {
            let _: Result<(), u8> = self.verify_tag(aad, |_, _| Err(2));
        }
    }
}
impl Follow for CoseEncrypt {
    fn follow(&self, aad: &[u8], _payload: &[u8]) {
        if self.ciphertext.is_some() {
            let _: Result<Vec<u8>, u8> = self.decrypt(aad, |_, _| Ok(vec![]));
        }
        follow_recipients(&self.recipients, aad);
    }
}
impl Follow for CoseEncrypt0 {
    fn follow(&self, aad: &[u8], _payload: &[u8]) {
        if self.ciphertext.is_some() {
            let _: Result<Vec<u8>, u8> = self.decrypt(aad, |_, _| Err(3));
        }
    }
}
impl Follow for CoseKey {
    fn follow(&self, _aad: &[u8], _payload: &[u8]) {
        let mut k = self.clone();
        k.canonicalize(coset::CborOrdering::Lexicographic);
        let _ = k.clone().to_vec();
        k.canonicalize(coset::CborOrdering::LengthFirstLexicographic);
        let _ = k.to_vec();
    }
}
impl Follow for CoseKeySet {
    fn follow(&self, aad: &[u8], payload: &[u8]) {
        for k in &self.0 {
            k.follow(aad, payload);
        }
    }
}
impl Follow for ClaimsSet {}
impl Follow for PartyInfo {}
impl Follow for SuppPubInfo {}
impl Follow for CoseKdfContext {}
impl Follow for Value {}

fn follow_all<T: Follow + Clone + PartialEq + std::fmt::Debug + CborSerializable>(v: T, aad: &[u8], payload: &[u8]) {
    let c = v.clone();
    let _ = v == c;
    let _ = format!("{:?}", v);
    v.follow(aad, payload);
    let _ = c.to_vec();
    drop(v);
}

pub struct RoundTrip {
    /// enc(dec(b))
    pub b1: Vec<u8>,
    /// dec(b1) == dec(b) by derived equality
    pub eq: bool,
    /// … by Debug rendering (structural; all NaNs alike)
    pub debug_eq: bool,
    pub has_nan: bool,
    /// enc(dec(b1))
    pub b2: Vec<u8>,
}

macro_rules! ops {
    ($t:ty, $name:expr, $shape:expr) => {
        TypeOps {
            name: $name,
            shape: $shape,
            tag: None,
            dec: |b| <$t>::from_slice(b).map(|v| format!("{:?}", v)),
            dec_value: |v| <$t>::from_cbor_value(v).map(|v| format!("{:?}", v)),
            recode: |b| <$t>::from_slice(b).ok().map(|v| v.to_vec()),
            to_value: |b| <$t>::from_slice(b).ok().map(|v| v.to_cbor_value()),
            dec_tagged: None,
            recode_tagged: None,
            basic_followups: |b| match <$t>::from_slice(b) {
                Ok(v) => {
                    let c = v.clone();
                    let d1 = format!("{:?}", v);
                    let d2 = format!("{:?}", c);
                    if d1 != d2 {
                        return Err(format!("clone renders differently: {} vs {}", d1, d2));
                    }
                    if v != c && !d1.contains("NaN") {
                        return Err(format!("value != its clone: {}", d1));
                    }
                    drop(v);
                    drop(c);
                    Ok(true)
                }
                Err(_) => Ok(false),
            },
            roundtrip: |b| {
                let v = <$t>::from_slice(b).ok()?;
                Some((|| {
                    let d = format!("{:?}", v);
                    let b1 = v.clone().to_vec().map_err(|e| format!("accepted value fails to encode: {:?}", e))?;
                    let v1 = <$t>::from_slice(&b1).map_err(|e| format!("own encoding {} rejected: {:?}", crate::cbor::hex_trunc(&b1, 200), e))?;
                    let d1 = format!("{:?}", v1);
                    let eq = v1 == v;
                    let b2 = v1.to_vec().map_err(|e| format!("re-decoded value fails to encode: {:?}", e))?;
                    Ok(RoundTrip { b1, eq, debug_eq: d == d1, has_nan: d.contains("NaN"), b2 })
                })())
            },
            roundtrip_tagged: None,
            follow: |b, aad, pl| match <$t>::from_slice(b) {
                Ok(v) => {
                    follow_all(v, aad, pl);
                    true
                }
                Err(_) => false,
            },
            follow_tagged: None,
            compare: |x, y| match (<$t>::from_slice(x), <$t>::from_slice(y)) {
                (Ok(a), Ok(b)) => {
                    let (ab, ba) = (a == b, b == a);
                    if ab != ba {
                        return Err(format!("== is not symmetric on {:?} and {:?}", a, b));
                    }
                    let (da, db) = (format!("{:?}", a), format!("{:?}", b));
                    if da == db && !ab && !da.contains("NaN") {
                        return Err(format!("two values that render identically compare unequal: {}", da));
                    }
                    let _ = a != b;
                    Ok(true)
                }
                _ => Ok(false),
            },
        }
    };
    ($t:ty, $name:expr, $shape:expr, tagged) => {{
        let mut o = ops!($t, $name, $shape);
        o.tag = Some(<$t as TaggedCborSerializable>::TAG);
        o.dec_tagged = Some(|b| <$t>::from_tagged_slice(b).map(|v| format!("{:?}", v)));
        o.recode_tagged = Some(|b| <$t>::from_tagged_slice(b).ok().map(|v| v.to_tagged_vec()));
        // a value decoded from the untagged form can be encoded in the tagged form as well
        o.follow = |b, aad, pl| match <$t>::from_slice(b) {
            Ok(v) => {
                let _ = v.clone().to_tagged_vec();
                follow_all(v, aad, pl);
                true
            }
            Err(_) => false,
        };
        o.follow_tagged = Some(|b, aad, pl| match <$t>::from_tagged_slice(b) {
            Ok(v) => {
                let _ = v.clone().to_tagged_vec();
                let _ = v.clone().to_vec();
                follow_all(v, aad, pl);
                true
            }
            Err(_) => false,
        });
        o.roundtrip_tagged = Some(|b| {
            let v = <$t>::from_tagged_slice(b).ok()?;
            Some((|| {
                let d = format!("{:?}", v);
                let b1 = v.clone().to_tagged_vec().map_err(|e| format!("accepted value fails to encode tagged: {:?}", e))?;
                let v1 = <$t>::from_tagged_slice(&b1).map_err(|e| format!("own tagged encoding {} rejected: {:?}", crate::cbor::hex_trunc(&b1, 200), e))?;
                let d1 = format!("{:?}", v1);
                let eq = v1 == v;
                let b2 = v1.to_tagged_vec().map_err(|e| format!("re-decoded value fails to encode tagged: {:?}", e))?;
                Ok(RoundTrip { b1, eq, debug_eq: d == d1, has_nan: d.contains("NaN"), b2 })
            })())
        });
        o
    }};
}

pub fn all_types() -> &'static Vec<TypeOps> {
    static T: std::sync::OnceLock<Vec<TypeOps>> = std::sync::OnceLock::new();
    T.get_or_init(|| {
        vec![
            ops!(Label, "Label", Shape::Label),
            ops!(RegisteredLabel<iana::HeaderParameter>, "RegisteredLabel<HeaderParameter>", Shape::RegLabel),
            ops!(RegisteredLabel<iana::KeyType>, "RegisteredLabel<KeyType>", Shape::RegLabel),
            ops!(RegisteredLabel<iana::KeyOperation>, "RegisteredLabel<KeyOperation>", Shape::RegLabel),
            ops!(RegisteredLabel<iana::CoapContentFormat>, "RegisteredLabel<CoapContentFormat>", Shape::RegLabel),
            ops!(RegisteredLabelWithPrivate<iana::Algorithm>, "RegisteredLabelWithPrivate<Algorithm>", Shape::RegLabel),
            ops!(RegisteredLabelWithPrivate<iana::CwtClaimName>, "RegisteredLabelWithPrivate<CwtClaimName>", Shape::RegLabel),
            ops!(RegisteredLabelWithPrivate<iana::HeaderParameter>, "RegisteredLabelWithPrivate<HeaderParameter>", Shape::RegLabel),
            ops!(RegisteredLabelWithPrivate<iana::EllipticCurve>, "RegisteredLabelWithPrivate<EllipticCurve>", Shape::RegLabel),
            ops!(Header, "Header", Shape::Header),
            ops!(ProtectedHeader, "ProtectedHeader", Shape::Header),
            ops!(CoseSignature, "CoseSignature", Shape::Msg(Kind::Signature)),
            ops!(CoseSign, "CoseSign", Shape::Msg(Kind::Sign), tagged),
            ops!(CoseSign1, "CoseSign1", Shape::Msg(Kind::Sign1), tagged),
            ops!(CoseMac, "CoseMac", Shape::Msg(Kind::Mac), tagged),
            ops!(CoseMac0, "CoseMac0", Shape::Msg(Kind::Mac0), tagged),
            ops!(CoseEncrypt, "CoseEncrypt", Shape::Msg(Kind::Encrypt), tagged),
            ops!(CoseEncrypt0, "CoseEncrypt0", Shape::Msg(Kind::Encrypt0), tagged),
            ops!(CoseRecipient, "CoseRecipient", Shape::Msg(Kind::Recipient)),
            ops!(CoseKey, "CoseKey", Shape::Key),
            ops!(CoseKeySet, "CoseKeySet", Shape::KeySet),
            ops!(ClaimsSet, "ClaimsSet", Shape::Claims),
            ops!(PartyInfo, "PartyInfo", Shape::Party),
            ops!(SuppPubInfo, "SuppPubInfo", Shape::Supp),
            ops!(CoseKdfContext, "CoseKdfContext", Shape::Kdf),
            ops!(Value, "Value", Shape::Any),
        ]
    })
}

/// Generate an abstract item in the shape of `shape`.
pub fn gen_for_shape(g: &mut Gen, shape: Shape, f: &mut Faults) -> Item {
    match shape {
        Shape::Label => gen_label_item(g),
        Shape::RegLabel => {
            if g.ratio(1, 4) {
                gen_label_item(g)
            } else {
                Item::Int(g.range_i64(-50, 120) as i128)
            }
        }
        Shape::Header => gen_header(g, f, 2),
        Shape::Msg(k) => {
            let d = g.weighted(&[3, 3, 2]);
            gen_msg(g, k, f, d)
        }
        Shape::Key => gen_key(g, f),
        Shape::KeySet => gen_keyset(g, f),
        Shape::Claims => gen_claims(g, f),
        Shape::Party => gen_party(g, f),
        Shape::Supp => gen_supp(g, f),
        Shape::Kdf => gen_kdf(g, f),
        Shape::Any => gen_value(g, 3, true),
    }
}

/// Parse bytes as exactly one CBOR item with the crate's CBOR library (the "CBOR-parse" of C13).
pub fn parse_one(mut b: &[u8]) -> Result<Value, ()> {
    let v: Value = coset::cbor::de::from_reader(&mut b).map_err(|_| ())?;
    if b.is_empty() {
        Ok(v)
    } else {
        Err(())
    }
}

pub fn serialise(v: &Value) -> Result<Vec<u8>, ()> {
    let mut out = vec![];
    coset::cbor::ser::into_writer(v, &mut out).map_err(|_| ())?;
    Ok(out)
}

//! C08 — header maps: accepted iff well-formed, and every field means what the wire said.

use crate::cbor::{diag, hex_trunc, Item, StyleOpts, Wrapped};
use crate::gen::{gen_header, Faults};
use crate::model::*;
use crate::props::common::*;
use crate::run::{hash_str, no_exh_case, no_exh_count, CaseResult, Ctx, Property};
use crate::tape::Gen;
use coset::{CborSerializable, Header};

/// The outcome for a header map inside a protected byte string does not depend on *where* that
/// byte string sits: body of a message, or a counter-signature 1-8 levels down.  The content (no
/// counter-signatures of its own) may hold a value nested almost to the CBOR parser's limit —
/// each protected byte string is parsed on its own.
fn position_case(g: &mut Gen, ctx: &mut Ctx) -> CaseResult {
    let mut content = match gen_header(g, &mut Faults::none(), 0) {
        Item::Map(m) => m,
        _ => vec![],
    };
    content.retain(|(k, _)| k != &Item::Int(7));
    let deep = if g.bool() {
        let d = match g.below(3) {
            0 => 100 + g.below(120),
            1 => 220 + g.below(30),
            _ => 250 + g.below(7),
        };
        let mut v = Item::Int(1);
        let kind = g.below(3);
        for _ in 0..d {
            v = match kind {
                0 => Item::Array(vec![v]),
                1 => Item::Map(vec![(Item::Int(0), v)]),
                _ => Item::Tag(1000, Box::new(v)),
            };
        }
        let mut l = 5000;
        while content.iter().any(|(k, _)| k == &Item::Int(l)) {
            l += 1;
        }
        content.push((Item::Int(l), v));
        d
    } else {
        0
    };
    let slot = Wrapped::new(Item::Map(content));
    let level = 1 + g.below(8);
    // level 0: body protected of a COSE_Sign1; level n: protected of the innermost of n nested counter-signatures
    let top0 = Item::Array(vec![slot.clone(), Item::Map(vec![]), Item::Null, Item::Bytes(vec![])]);
    let mut sig = Item::Array(vec![slot, Item::Map(vec![]), Item::Bytes(vec![1])]);
    for n in 1..level {
        let hdr = Item::Map(vec![(Item::Int(7), if g.ratio(1, 4) { Item::Array(vec![sig.clone(), sig]) } else { sig })]);
        sig = if g.bool() {
            Item::Array(vec![Wrapped::new(hdr), Item::Map(vec![]), Item::Bytes(vec![n as u8])])
        } else {
            Item::Array(vec![Item::Bytes(vec![]), hdr, Item::Bytes(vec![n as u8])])
        };
    }
    let topn = Item::Array(vec![Item::Bytes(vec![]), Item::Map(vec![(Item::Int(7), sig)]), Item::Null, Item::Bytes(vec![])]);
    let (b0, _) = plain(&top0);
    let (bn, _) = plain(&topn);
    ctx.classf(format!("position:level-{}:{}", level, match deep { 0 => "flat", 1..=219 => "deep", 220..=249 => "deeper", _ => "at-limit" }));
    ctx.nontrivial(hash_str(&format!("pos|{}|{}", level, hex_trunc(&b0, 400))));
    ctx.sample_with(|| format!("protected content (value nested {} deep) at level 0 vs level {}: {}", deep, level, hex_trunc(&b0, 40)));
    let r0 = coset::CoseSign1::from_slice(&b0);
    let rn = coset::CoseSign1::from_slice(&bn);
    fn innermost(h: &Header) -> Option<&coset::ProtectedHeader> {
        let cs = h.counter_signatures.last()?;
        innermost(&cs.unprotected).or_else(|| innermost(&cs.protected.header)).or(Some(&cs.protected))
    }
    match (&r0, &rn) {
        (Ok(a), Ok(b)) => {
            let pn = innermost(&b.unprotected).ok_or("no counter-signature decoded")?;
            ensure!(same(&a.protected.header, &pn.header), "the same protected content decodes differently at level 0 and inside a counter-signature at level {}", level);
            ensure!(a.protected.original_data == pn.original_data, "the same protected bytes are retained differently at level 0 and at level {}", level);
        }
        (Err(_), Err(_)) => {}
        (Ok(_), Err(e)) => fail!("protected content (a value nested {} deep) accepted as a message's protected header but rejected ({:?}) as that of a counter-signature {} level(s) down: {}", deep, e, level, hex_trunc(&bn, 60)),
        (Err(e), Ok(_)) => fail!("protected content (a value nested {} deep) rejected ({:?}) as a message's protected header but accepted inside a counter-signature {} level(s) down", deep, e, level),
    }
    Ok(())
}

/// The outcome for a header map does not depend on which structure carries it either: stand-alone,
/// or in the protected / unprotected bucket of a recipient nested 1-4 levels below a COSE_Encrypt,
/// COSE_Mac or COSE_recipient, or of a signer of a COSE_Sign.  The content may hold a chain of
/// counter-signatures of any depth up to the decoder's bound (and one beyond): nesting of recipients
/// and nesting of counter-signatures are unrelated.
fn carrier_position_case(g: &mut Gen, ctx: &mut Ctx) -> CaseResult {
    let d = *g.pick(&[0usize, 1, 2, 4, 6, 7, 8, 8, 9]);
    let mut content = match if d == 0 { gen_header(g, &mut Faults::none(), 1) } else { crate::props::structs::countersig_chain_header(g, d) } {
        Item::Map(m) => m,
        _ => vec![],
    };
    if d > 0 && g.bool() {
        if let Item::Map(extra) = gen_header(g, &mut Faults::none(), 0) {
            for (k, v) in extra {
                if k != Item::Int(7) && !content.iter().any(|(k2, _)| k2 == &k) {
                    content.push((k, v));
                }
            }
        }
    }
    let content = Item::Map(content);
    let (b0, _) = plain(&content);
    let r0 = Header::from_slice(&b0);
    let protected = g.bool();
    let slots = |sig_like: bool, inner: Option<Item>| -> Item {
        let (p, u) = if protected { (Wrapped::new(content.clone()), Item::Map(vec![])) } else { (Item::Bytes(vec![]), content.clone()) };
        let mut v = vec![p, u, if sig_like { Item::Bytes(vec![1]) } else { Item::Null }];
        if let Some(i) = inner {
            v.push(Item::Array(vec![i]));
        }
        Item::Array(v)
    };
    let r = 1 + g.below(4);
    let which = g.below(4);
    let (top, what): (Item, &str) = match which {
        0 => {
            // signer of a COSE_Sign
            (Item::Array(vec![Item::Bytes(vec![]), Item::Map(vec![]), Item::Null, Item::Array(vec![Item::Array(vec![Item::Bytes(vec![]), Item::Map(vec![]), Item::Bytes(vec![2])]), slots(true, None)])]), "a signer of a COSE_Sign")
        }
        _ => {
            let mut rec = slots(false, None);
            for _ in 1..r {
                rec = Item::Array(vec![Item::Bytes(vec![]), Item::Map(vec![]), Item::Null, Item::Array(vec![rec])]);
            }
            match which {
                1 => (Item::Array(vec![Item::Bytes(vec![]), Item::Map(vec![]), Item::Null, Item::Array(vec![rec])]), "a recipient nested below a COSE_Encrypt"),
                2 => (Item::Array(vec![Item::Bytes(vec![]), Item::Map(vec![]), Item::Null, Item::Bytes(vec![3]), Item::Array(vec![rec])]), "a recipient nested below a COSE_Mac"),
                _ => (Item::Array(vec![Item::Bytes(vec![]), Item::Map(vec![]), Item::Null, Item::Array(vec![rec])]), "a recipient nested below a COSE_recipient"),
            }
        }
    };
    let (bn, _) = plain(&top);
    ctx.classf(format!("carrier-position:{}:{}-levels:chain-{}", which, if which == 0 { 1 } else { r }, d));
    ctx.nontrivial(hash_str(&format!("cpos|{}|{}|{}|{}", which, r, protected, hex_trunc(&b0, 400))));
    ctx.sample_with(|| format!("header (counter-signature chain of {}) stand-alone vs in the {} bucket of {} ({} levels): {}", d, if protected { "protected" } else { "unprotected" }, what, r, hex_trunc(&b0, 40)));
    // walk to the header in the decoded carrier
    fn pick<'a>(rs: &'a [coset::CoseRecipient], left: usize) -> Option<&'a coset::CoseRecipient> {
        let r = rs.first()?;
        if left <= 1 { Some(r) } else { pick(&r.recipients, left - 1) }
    }
    let got: Result<(Header, Option<Vec<u8>>), coset::CoseError> = match which {
        0 => coset::CoseSign::from_slice(&bn).map(|v| { let s = &v.signatures[1]; if protected { (s.protected.header.clone(), s.protected.original_data.clone()) } else { (s.unprotected.clone(), None) } }),
        1 => coset::CoseEncrypt::from_slice(&bn).map(|v| { let x = pick(&v.recipients, r).expect("recipient"); if protected { (x.protected.header.clone(), x.protected.original_data.clone()) } else { (x.unprotected.clone(), None) } }),
        2 => coset::CoseMac::from_slice(&bn).map(|v| { let x = pick(&v.recipients, r).expect("recipient"); if protected { (x.protected.header.clone(), x.protected.original_data.clone()) } else { (x.unprotected.clone(), None) } }),
        _ => coset::CoseRecipient::from_slice(&bn).map(|v| { let x = pick(&v.recipients, r).expect("recipient"); if protected { (x.protected.header.clone(), x.protected.original_data.clone()) } else { (x.unprotected.clone(), None) } }),
    };
    match (&r0, &got) {
        (Ok(a), Ok((b, w))) => {
            ensure!(same(a, b), "the same header map decodes differently stand-alone and in {} ({} levels)", what, r);
            if protected {
                ensure!(w.as_ref() == Some(&b0), "protected bytes of {} are not retained as received", what);
            }
        }
        (Err(_), Err(_)) => {}
        (Ok(_), Err(e)) => fail!("header map (counter-signature chain of {}) accepted stand-alone but rejected ({:?}) in the {} bucket of {} ({} levels): {}", d, e, if protected { "protected" } else { "unprotected" }, what, r, hex_trunc(&bn, 60)),
        (Err(e), Ok(_)) => fail!("header map (counter-signature chain of {}) rejected stand-alone ({:?}) but accepted in {} ({} levels)", d, e, what, r),
    }
    Ok(())
}

fn case(g: &mut Gen, ctx: &mut Ctx) -> CaseResult {
    if g.ratio(1, 16) {
        return if g.bool() { position_case(g, ctx) } else { carrier_position_case(g, ctx) };
    }
    let (mut faults, mode) = match g.weighted(&[4, 4, 2]) {
        0 => (Faults::none(), "valid"),
        1 => (Faults::one(), "one-fault"),
        _ => (Faults::many(), "many-faults"),
    };
    let item = gen_header(g, &mut faults, 2);
    ctx.classf(format!("mode:{}", mode));
    for f in &faults.log {
        ctx.classf(format!("fault:{}", f));
    }
    ctx.classf(format!("faults-planted:{}", faults.log.len().min(3)));

    let mut views: Vec<MHeader> = vec![];
    let mut expected_views: Vec<MHeader> = vec![];
    for style in 0..2 {
        let o = if style == 0 && g.bool() { StyleOpts::NONE } else { StyleOpts::ALL };
        // (1) standalone
        let (bytes, enc_item) = styled(&item, g, o);
        let mut mc = MCtx::default();
        let expect = m_header(&enc_item, &mut mc);
        let got = Header::from_slice(&bytes);
        if style == 0 {
            let nentries = item.as_map().map(|m| m.len()).unwrap_or(0);
            let has_cs = item.as_map().map(|m| m.iter().any(|(k, _)| k == &Item::Int(7))).unwrap_or(false);
            ctx.classf(format!("model:{}", match &expect { Ok(_) => "accept", Err(Rej::Reject(_)) => "reject", Err(Rej::Unknown(_)) => "unknown" }));
            if nentries >= 2 || !faults.log.is_empty() || has_cs {
                ctx.nontrivial(hash_str(&diag(&item)));
                ctx.sample_with(|| format!("[{}] {} = {}", mode, diag(&item), hex_trunc(&bytes, 48)));
            }
            if has_cs {
                ctx.class("has-counter-signature");
            }
        }
        check_one("Header::from_slice", &item, &bytes, &expect, got.as_ref().map(header_to_model).map_err(|e| format!("{:?}", e)))?;
        if let (Ok(e), Ok(h)) = (&expect, &got) {
            let mut m = header_to_model(h)?;
            strip_wire_header(&mut m);
            views.push(m);
            let mut e = e.clone();
            strip_wire_header(&mut e);
            expected_views.push(e);
        }

        // (2) as the unprotected header of a carrier, (3) inside a protected bstr
        let kind = *g.pick(&KINDS);
        let as_unprot = carrier(kind, Item::Bytes(vec![]), item.clone());
        let (bytes, enc_item) = styled(&as_unprot, g, o);
        let mut mc = MCtx::default();
        let expect = m_msg(kind, &enc_item, &mut mc).map(|m| m.unprotected);
        let got = decode_msg(kind, &bytes);
        let got = match got {
            Ok(Ok(m)) => Ok(Ok(m.unprotected)),
            Ok(Err(s)) => Ok(Err(s)),
            Err(e) => Err(format!("{:?}", e)),
        };
        check_one(&format!("unprotected header of {}", kind.name()), &item, &bytes, &expect, got)?;

        let as_prot = carrier(kind, Wrapped::new(item.clone()), Item::Map(vec![]));
        let (bytes, enc_item) = styled(&as_prot, g, o);
        let mut mc = MCtx::default();
        let expect = m_msg(kind, &enc_item, &mut mc).map(|m| m.protected);
        let got = decode_msg(kind, &bytes);
        match (&expect, got) {
            (Ok(p), Ok(Ok(m))) => {
                ensure!(m.protected == *p, "protected header of {} decoded differently from the wire content\n  item: {}\n  bytes: {}\n  expected: {}\n  got: {}",
                    kind.name(), diag(&item), hex_trunc(&bytes, 200), short(p, 600), short(&m.protected, 600));
            }
            (Ok(_), Ok(Err(s))) => fail!("protected header of {}: {}\n  item: {}", kind.name(), s, diag(&item)),
            (Ok(_), Err(e)) => fail!("well-formed header map rejected inside the protected bstr of {}: {:?}\n  item: {}\n  bytes: {}", kind.name(), e, diag(&item), hex_trunc(&bytes, 200)),
            (Err(Rej::Reject(why)), Ok(_)) => fail!("ill-formed header map ({}) accepted inside the protected bstr of {}\n  item: {}\n  bytes: {}", why, kind.name(), diag(&item), hex_trunc(&bytes, 200)),
            _ => {}
        }
    }
    // (a wrapped byte string placed by a planted slot swap outside a protected slot makes the content
    // itself style-dependent: then the two encodings do not denote the same header content)
    if views.len() == 2 && expected_views[0] == expected_views[1] {
        ensure!(views[0] == views[1], "two encodings of the same header content decode to different headers\n  item: {}", diag(&item));
    }
    Ok(())
}

fn check_one(what: &str, item: &Item, bytes: &[u8], expect: &M<MHeader>, got: Result<Result<MHeader, String>, String>) -> CaseResult {
    match (expect, got) {
        (Ok(e), Ok(Ok(h))) => {
            ensure!(&h == e, "{}: decoded fields differ from the wire content\n  item: {}\n  bytes: {}\n  expected: {}\n  got:      {}",
                what, diag(item), hex_trunc(bytes, 200), short(e, 800), short(&h, 800));
            Ok(())
        }
        (Ok(_), Ok(Err(s))) => Err(format!("{}: {}\n  item: {}", what, s, diag(item))),
        (Ok(_), Err(e)) => Err(format!("{}: well-formed header map rejected ({})\n  item: {}\n  bytes: {}", what, e, diag(item), hex_trunc(bytes, 200))),
        (Err(Rej::Reject(why)), Ok(_)) => Err(format!("{}: ill-formed header map accepted (model: {})\n  item: {}\n  bytes: {}", what, why, diag(item), hex_trunc(bytes, 200))),
        (Err(Rej::Reject(_)), Err(_)) => Ok(()),
        (Err(Rej::Unknown(_)), _) => Ok(()),
    }
}

pub fn property() -> Property {
    Property {
        id: "C08",
        title: "Header maps: accepted iff well-formed, and every field means what the wire said",
        rule: "abstract header maps over the label alphabet (standard 1-7, reserved/unknown/negative/extreme integers, texts, non-labels) \
               generated valid-by-construction, with exactly one planted fault, or with several; each encoded in two independently drawn styles \
               and decoded standalone, as the unprotected slot and inside the protected bstr of a random carrier; the same protected content (possibly holding a value nested up to the parser's limit) as a message's protected header and as that of a counter-signature 1-8 levels down; \
               non-trivial = >= 2 entries, or a planted fault, or a counter-signature; distinct by the abstract map (diagnostic notation)",
        assumptions: &[
            "oracle: reference acceptance model harness/src/model.rs::m_header written from RFC 8152 §3.1 and the property statement",
            "registry membership per harness/src/registry.rs (transcribed IANA tables)",
            "data-model boundary: no undefined/simple values and no tag 2/3 items are generated (ciborium maps them)",
        ],
        exhaustive_domains: &[],
        case,
        exh_count: no_exh_count,
        exh_case: no_exh_case,
        bytes_case: None,
        quick_cases: 400_000,
        thorough_cases: 3_000_000,
        max_tape: 2048,
    }
}

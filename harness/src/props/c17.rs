//! C17 — registry names and integers correspond one-to-one with the IANA assignments.

use crate::cbor::{encode, hex, Item};
use crate::model::L;
use crate::props::segment;
use crate::registry::{self as reg, is_private, registries, LabelClass, Reg};
use crate::run::{hash_str, CaseResult, Ctx, Property, Tier};
use crate::tape::Gen;
use coset::cwt::ClaimsSet;
use coset::{CborSerializable, CoseKey, Header};
use std::sync::OnceLock;

const WINDOW: i64 = 70_000;
const BLOCK: i64 = 512;

fn regs() -> &'static Vec<Reg> {
    static R: OnceLock<Vec<Reg>> = OnceLock::new();
    R.get_or_init(registries)
}

fn scan_window(tier: Tier) -> i64 {
    match tier {
        Tier::Quick => 1 << 18,
        Tier::Thorough => 1 << 24,
    }
}

const EXTREMES: &[i64] = &[i64::MIN, i64::MIN + 1, -(1 << 32) - 1, -(1 << 32), (1 << 32), (1 << 32) + 1, i64::MAX - 1, i64::MAX];

/// from_i64 / to_i64 / is_private at one integer.
fn check_conv(r: &Reg, i: i64) -> CaseResult {
    let got = (r.from_i64)(i);
    let want = reg::name_of(r.table, i);
    match (&got, want) {
        (Some((name, v)), Some(w)) => {
            ensure!(name == w, "{}: from_i64({}) is {} but IANA registers {} under that value", r.name, i, name, w);
            ensure!(*v == i, "{}: from_i64({}).to_i64() = {}", r.name, i, v);
        }
        (Some((name, _)), None) => fail!("{}: from_i64({}) yields {} but the registry assigns nothing to {}", r.name, i, name, i),
        (None, Some(w)) => fail!("{}: from_i64({}) is None but IANA registers {} = {}", r.name, i, w, i),
        (None, None) => {}
    }
    if let Some(rt) = (r.roundtrip)(i) {
        ensure!(rt, "{}: from_i64(x.to_i64()) != Some(x) for x = from_i64({})", r.name, i);
    }
    if let Some(p) = r.is_private {
        ensure!(p(i) == is_private(i), "{}: is_private({}) = {} but the private-use range is exactly i < -65536", r.name, i, p(i));
    }
    Ok(())
}

fn int_enc(i: i64) -> Vec<u8> {
    encode(&Item::Int(i as i128))
}

/// Label decoding classifies integer i per the statement.
fn check_label_decode(r: &Reg, i: i64) -> CaseResult {
    let b = int_enc(i);
    let registered = reg::name_of(r.table, i);
    match ((r.label)(&b), registered) {
        (Ok(LabelClass::Assigned(n, v)), Some(w)) => ensure!(n == w && v == i, "{}: label {} decoded as {}={}", r.name, i, n, v),
        (Ok(c), _) => fail!("{}: RegisteredLabel decoding of {} gave {:?} (registered: {:?})", r.name, i, c, registered),
        (Err(_), Some(w)) => fail!("{}: RegisteredLabel decoding rejected registered value {} ({})", r.name, i, w),
        (Err(_), None) => {}
    }
    if let Some(lp) = r.label_private {
        match (lp(&b), registered) {
            (Ok(LabelClass::Assigned(n, v)), Some(w)) => ensure!(n == w && v == i, "{}: label {} decoded as {}={}", r.name, i, n, v),
            (Ok(LabelClass::Private(v)), None) => ensure!(v == i && is_private(i), "{}: unregistered {} kept as private value {}", r.name, i, v),
            (Ok(c), _) => fail!("{}: RegisteredLabelWithPrivate decoding of {} gave {:?} (registered: {:?})", r.name, i, c, registered),
            (Err(_), Some(w)) => fail!("{}: RegisteredLabelWithPrivate decoding rejected registered value {} ({})", r.name, i, w),
            (Err(_), None) => ensure!(!is_private(i), "{}: unregistered private-use value {} rejected instead of kept", r.name, i),
        }
    }
    Ok(())
}

/// The typed positions: alg, crit, content type (header); kty, alg, key_ops (key); claim key.
fn check_typed_positions(i: i64) -> CaseResult {
    let n = Item::Int(i as i128);
    let m = |e: Vec<(Item, Item)>| encode(&Item::Map(e));
    let alg_ok = reg::registered(reg::ALGORITHM, i) || is_private(i);
    // header alg
    match Header::from_slice(&m(vec![(Item::Int(1), n.clone())])) {
        Ok(h) => {
            ensure!(alg_ok, "header alg {} accepted though unregistered and not private", i);
            let l = crate::model::alg_to_l(h.alg.as_ref().ok_or("alg absent")?)?;
            ensure!(l == L::Int(i), "header alg {} decoded as {:?}", i, l);
        }
        Err(_) => ensure!(!alg_ok, "header alg {} rejected though registered or private", i),
    }
    // crit entry
    let ok = reg::registered(reg::HEADER_PARAMETER, i);
    match Header::from_slice(&m(vec![(Item::Int(2), Item::Array(vec![n.clone()]))])) {
        Ok(h) => {
            ensure!(ok, "crit entry {} accepted though unregistered", i);
            let l = crate::model::reg_label_to_l(reg::HEADER_PARAMETER, &h.crit[0])?;
            ensure!(l == L::Int(i), "crit entry {} decoded as {:?}", i, l);
        }
        Err(_) => ensure!(!ok, "crit entry {} rejected though registered", i),
    }
    // content type
    let ok = reg::registered(reg::COAP_CONTENT_FORMAT, i);
    match Header::from_slice(&m(vec![(Item::Int(3), n.clone())])) {
        Ok(h) => {
            ensure!(ok, "content format {} accepted though unregistered", i);
            let l = crate::model::reg_label_to_l(reg::COAP_CONTENT_FORMAT, h.content_type.as_ref().ok_or("content type absent")?)?;
            ensure!(l == L::Int(i), "content format {} decoded as {:?}", i, l);
        }
        Err(_) => ensure!(!ok, "content format {} rejected though registered", i),
    }
    // kty
    let ok = reg::registered(reg::KEY_TYPE, i) && i != 0;
    match CoseKey::from_slice(&m(vec![(Item::Int(1), n.clone())])) {
        Ok(k) => {
            ensure!(ok, "key type {} accepted though unregistered or reserved", i);
            let l = crate::model::reg_label_to_l(reg::KEY_TYPE, &k.kty)?;
            ensure!(l == L::Int(i), "key type {} decoded as {:?}", i, l);
        }
        Err(_) => ensure!(!ok, "key type {} rejected though registered", i),
    }
    // the header-typed labels arriving *after* labels the crate does not interpret (a positive integer
    // above 7, a text, a negative integer): map order carries no meaning
    // ... or after a counter signature whose own headers use the very same labels (each map has its
    // own label space)
    let cs_hdr = |extra: bool| {
        let mut e = vec![(Item::Int(1), Item::Int(-7)), (Item::Int(2), Item::Array(vec![Item::Int(1)])), (Item::Int(3), Item::Int(0))];
        if extra {
            e.push((Item::Int(33), Item::Bytes(vec![0])));
            e.push((Item::Text("k".into()), Item::Int(1)));
        }
        Item::Map(e)
    };
    let cs = Item::Array(vec![Item::Bytes(encode(&cs_hdr(false))), cs_hdr(true), Item::Bytes(vec![1])]);
    let ahead_list: Vec<(Item, Option<Item>, &str, usize)> = vec![
        (Item::Int(33), None, "label 33", 1),
        (Item::Text("k".into()), None, "a text label", 1),
        (Item::Int(-1), None, "label -1", 1),
        (Item::Int(256), None, "label 256", 1),
        (Item::Int(7), Some(cs.clone()), "a counter signature using the same labels in its own headers", 0),
        (Item::Int(7), Some(Item::Array(vec![cs.clone(), cs.clone()])), "two counter signatures using the same labels in their own headers", 0),
    ];
    for (ahead, ahead_val, descr, nrest) in ahead_list {
        let hb = m(vec![(ahead.clone(), ahead_val.clone().unwrap_or(Item::Bytes(vec![0]))), (Item::Int(1), n.clone())]);
        match Header::from_slice(&hb) {
            Ok(h) => {
                ensure!(alg_ok, "header alg {} after {} accepted though unregistered and not private", i, descr);
                let l = crate::model::alg_to_l(h.alg.as_ref().ok_or_else(|| format!("header alg {} arriving after {} was not recognised as the algorithm (rest = {:?})", i, descr, h.rest))?)?;
                ensure!(l == L::Int(i) && h.rest.len() == nrest, "header alg {} after {} decoded as {:?} with extras {:?}", i, descr, l, h.rest);
            }
            Err(_) => ensure!(!alg_ok, "header alg {} after {} rejected though registered or private", i, descr),
        }
        let ok3 = reg::registered(reg::COAP_CONTENT_FORMAT, i);
        let hb = m(vec![(ahead.clone(), ahead_val.clone().unwrap_or(Item::Null)), (Item::Int(3), n.clone())]);
        match Header::from_slice(&hb) {
            Ok(h) => {
                ensure!(ok3, "content format {} after {} accepted though unregistered", i, descr);
                ensure!(h.content_type.is_some() && h.rest.len() == nrest, "content format {} arriving after {} was not recognised (rest = {:?})", i, descr, h.rest);
            }
            Err(_) => ensure!(!ok3, "content format {} after {} rejected though registered", i, descr),
        }
        let ok2 = reg::registered(reg::HEADER_PARAMETER, i);
        let hb = m(vec![(ahead.clone(), ahead_val.clone().unwrap_or(Item::Int(0))), (Item::Int(2), Item::Array(vec![n.clone()]))]);
        match Header::from_slice(&hb) {
            Ok(h) => {
                ensure!(ok2, "crit entry {} after {} accepted though unregistered", i, descr);
                ensure!(h.crit.len() == 1 && h.rest.len() == nrest, "crit entry {} arriving after {} was not recognised (rest = {:?})", i, descr, h.rest);
            }
            Err(_) => ensure!(!ok2, "crit entry {} after {} rejected though registered", i, descr),
        }
    }
    // the header-typed integers inside protected byte strings: of a message, and of a counter-signature
    for (label, table, private_ok) in [(1i128, reg::ALGORITHM, true), (3, reg::COAP_CONTENT_FORMAT, false)] {
        let ok = reg::registered(table, i) || (private_ok && is_private(i));
        let inner = encode(&Item::Map(vec![(Item::Int(label), n.clone())]));
        let body = encode(&Item::Array(vec![Item::Bytes(inner.clone()), Item::Map(vec![]), Item::Null, Item::Bytes(vec![])]));
        let nested = encode(&Item::Array(vec![
            Item::Bytes(vec![]),
            Item::Map(vec![(Item::Int(7), Item::Array(vec![Item::Bytes(inner.clone()), Item::Map(vec![]), Item::Bytes(vec![1])]))]),
            Item::Null,
            Item::Bytes(vec![]),
        ]));
        for (what, b, pick_nested) in [("protected header of a COSE_Sign1", &body, false), ("protected header of a counter-signature", &nested, true)] {
            match coset::CoseSign1::from_slice(b) {
                Ok(v) => {
                    ensure!(ok, "{}: label {} value {} accepted though unregistered", what, label, i);
                    let h = if pick_nested { &v.unprotected.counter_signatures.first().ok_or("counter-signature missing")?.protected.header } else { &v.protected.header };
                    let l = if label == 1 {
                        crate::model::alg_to_l(h.alg.as_ref().ok_or("alg absent")?)?
                    } else {
                        crate::model::reg_label_to_l(reg::COAP_CONTENT_FORMAT, h.content_type.as_ref().ok_or("content type absent")?)?
                    };
                    ensure!(l == L::Int(i), "{}: label {} value {} decoded as {:?}", what, label, i, l);
                }
                Err(e) => ensure!(!ok, "{}: label {} value {} rejected ({:?}) though registered{}", what, label, i, e, if private_ok { " or private" } else { "" }),
            }
        }
    }
    // kty of a key inside a key set (before and after another key), and alg of a nested signer / recipient / counter-signature
    let ok = reg::registered(reg::KEY_TYPE, i) && i != 0;
    for first in [true, false] {
        let other = Item::Map(vec![(Item::Int(1), Item::Int(4))]);
        let this = Item::Map(vec![(Item::Int(1), n.clone())]);
        let b = encode(&Item::Array(if first { vec![this, other] } else { vec![other, this] }));
        match coset::CoseKeySet::from_slice(&b) {
            Ok(ks) => {
                ensure!(ok, "key set holding key type {} accepted though unregistered or reserved", i);
                ensure!(ks.0.len() == 2, "key set of two keys (one of type {}) decoded to {} keys", i, ks.0.len());
                let k = &ks.0[if first { 0 } else { 1 }];
                let l = crate::model::reg_label_to_l(reg::KEY_TYPE, &k.kty)?;
                ensure!(l == L::Int(i), "key type {} inside a key set decoded as {:?}", i, l);
            }
            Err(_) => ensure!(!ok, "key set holding key type {} rejected though registered", i),
        }
    }
    {
        let hdr = Item::Map(vec![(Item::Int(1), n.clone())]);
        let signer = Item::Array(vec![Item::Bytes(vec![]), hdr.clone(), Item::Bytes(vec![1])]);
        let plain = Item::Array(vec![Item::Bytes(vec![]), Item::Map(vec![]), Item::Bytes(vec![2])]);
        let b = encode(&Item::Array(vec![Item::Bytes(vec![]), Item::Map(vec![(Item::Int(7), signer.clone())]), Item::Null, Item::Array(vec![plain, signer])]));
        match coset::CoseSign::from_slice(&b) {
            Ok(v) => {
                ensure!(alg_ok, "nested alg {} accepted though unregistered and not private", i);
                ensure!(v.signatures.len() == 2 && v.unprotected.counter_signatures.len() == 1, "COSE_Sign with nested alg {}: nested structures went missing", i);
                for h in [&v.signatures[1].unprotected, &v.unprotected.counter_signatures[0].unprotected] {
                    let l = crate::model::alg_to_l(h.alg.as_ref().ok_or("nested alg absent")?)?;
                    ensure!(l == L::Int(i), "nested alg {} decoded as {:?}", i, l);
                }
            }
            Err(_) => ensure!(!alg_ok, "nested alg {} rejected though registered or private", i),
        }
    }
    // key alg
    match CoseKey::from_slice(&m(vec![(Item::Int(1), Item::Int(1)), (Item::Int(3), n.clone())])) {
        Ok(k) => {
            ensure!(alg_ok, "key alg {} accepted though unregistered and not private", i);
            let l = crate::model::alg_to_l(k.alg.as_ref().ok_or("alg absent")?)?;
            ensure!(l == L::Int(i), "key alg {} decoded as {:?}", i, l);
        }
        Err(_) => ensure!(!alg_ok, "key alg {} rejected though registered or private", i),
    }
    // key op
    let ok = reg::registered(reg::KEY_OPERATION, i);
    match CoseKey::from_slice(&m(vec![(Item::Int(1), Item::Int(1)), (Item::Int(4), Item::Array(vec![n.clone()]))])) {
        Ok(k) => {
            ensure!(ok, "key operation {} accepted though unregistered", i);
            let l = crate::model::reg_label_to_l(reg::KEY_OPERATION, k.key_ops.iter().next().ok_or("key_ops empty")?)?;
            ensure!(l == L::Int(i), "key operation {} decoded as {:?}", i, l);
        }
        Err(_) => ensure!(!ok, "key operation {} rejected though registered", i),
    }
    // claim key (value null is fine for extra claims; for 1..7 use a value of the right type)
    let ok = reg::registered(reg::CWT_CLAIM_NAME, i) || is_private(i);
    let val = match i {
        1..=3 => Item::Text("x".into()),
        4..=6 => Item::Int(0),
        7 => Item::Bytes(vec![1]),
        _ => Item::Null,
    };
    match ClaimsSet::from_slice(&m(vec![(n.clone(), val)])) {
        Ok(c) => {
            ensure!(ok, "claim key {} accepted though unregistered and not private", i);
            if !(1..=7).contains(&i) {
                let l = crate::model::claim_name_to_l(&c.rest.first().ok_or("claim missing from rest")?.0)?;
                ensure!(l == L::Int(i), "claim key {} decoded as {:?}", i, l);
            }
        }
        Err(_) => ensure!(!ok, "claim key {} rejected though registered or private", i),
    }
    // two adjacent integers as names in one map: each is classified on its own (a registered or
    // private-use neighbour does not turn a name into a repeat of it, nor hide it)
    let j = if i == i64::MAX { i - 1 } else { i + 1 };
    let claim_ok = |x: i64| reg::registered(reg::CWT_CLAIM_NAME, x) || is_private(x);
    if claim_ok(i) && claim_ok(j) && !(1..=7).contains(&i) && !(1..=7).contains(&j) {
        for (a, b) in [(i, j), (j, i)] {
            let bytes = m(vec![(Item::Int(a as i128), Item::Null), (Item::Int(b as i128), Item::Int(1))]);
            match ClaimsSet::from_slice(&bytes) {
                Ok(c) => {
                    ensure!(c.rest.len() == 2, "claims set with the names {} and {} decoded to {} claims", a, b, c.rest.len());
                    for (k, want) in [(0usize, a), (1, b)] {
                        let l = crate::model::claim_name_to_l(&c.rest[k].0)?;
                        ensure!(l == L::Int(want), "claims set with the names {} and {}: claim {} decoded as {:?}", a, b, k, l);
                    }
                }
                Err(e) => fail!("claims set with the two distinct registered / private-use names {} and {} rejected: {:?}", a, b, e),
            }
        }
    }
    // ... nor does a name that shares its low bits with it (a multiple of 64 / 256 / 65536 away)
    if i < 0 && claim_ok(i) {
        for step in [64i64, 256, 65536] {
            let mut k = i.saturating_sub(step);
            if k > -65537 {
                k -= ((k + 65537 + step - 1) / step) * step;
            }
            if k == i || !claim_ok(k) || k == i64::MIN {
                continue;
            }
            let bytes = m(vec![(Item::Int(i as i128), Item::Null), (Item::Int(k as i128), Item::Int(1))]);
            match ClaimsSet::from_slice(&bytes) {
                Ok(c) => {
                    ensure!(c.rest.len() == 2, "claims set with the names {} and {} decoded to {} claims", i, k, c.rest.len());
                    let (l0, l1) = (crate::model::claim_name_to_l(&c.rest[0].0)?, crate::model::claim_name_to_l(&c.rest[1].0)?);
                    ensure!(l0 == L::Int(i) && l1 == L::Int(k), "claims set with the names {} and {} decoded as {:?} and {:?}", i, k, l0, l1);
                }
                Err(e) => fail!("claims set with the two distinct registered / private-use names {} and {} ({} apart) rejected: {:?}", i, k, i - k, e),
            }
        }
    }
    if !(1..=7).contains(&i) && !(1..=7).contains(&j) {
        let bytes = m(vec![(Item::Int(i as i128), Item::Null), (Item::Int(j as i128), Item::Int(1))]);
        match Header::from_slice(&bytes) {
            Ok(h) => ensure!(h.rest.len() == 2 && h.rest[0].0 == coset::Label::Int(i) && h.rest[1].0 == coset::Label::Int(j), "header with the labels {} and {} decoded with extras {:?}", i, j, h.rest),
            Err(e) => fail!("header with the two distinct labels {} and {} rejected: {:?}", i, j, e),
        }
    }
    // the Value-level API handed the integer in its bignum-tag spelling (which the byte parser folds
    // away, so only hand-assembled trees hold it): refusing it is fine, classifying it is fine only
    // as the classification of exactly i
    {
        use coset::cbor::value::Value;
        use coset::AsCborValue;
        let (tag, mag) = if i >= 0 { (2u64, i as u64) } else { (3u64, !(i as u64)) };
        let mut be = mag.to_be_bytes().to_vec();
        while be.len() > 1 && be[0] == 0 {
            be.remove(0);
        }
        let big = Value::Tag(tag, Box::new(Value::Bytes(be)));
        if let Ok(h) = Header::from_cbor_value(Value::Map(vec![(Value::from(1), big.clone())])) {
            ensure!(alg_ok, "header alg {} spelled as a bignum tag accepted though unregistered and not private", i);
            let l = crate::model::alg_to_l(h.alg.as_ref().ok_or("alg absent")?)?;
            ensure!(l == L::Int(i), "header alg {} spelled as a bignum tag (Value level) classified as {:?}", i, l);
        }
        if let Ok(k) = CoseKey::from_cbor_value(Value::Map(vec![(Value::from(1), big.clone())])) {
            let l = crate::model::reg_label_to_l(reg::KEY_TYPE, &k.kty)?;
            ensure!(l == L::Int(i) && reg::registered(reg::KEY_TYPE, i) && i != 0, "key type {} spelled as a bignum tag (Value level) classified as {:?}", i, l);
        }
        if let Ok(c) = ClaimsSet::from_cbor_value(Value::Map(vec![(big.clone(), Value::Null)])) {
            if !(1..=7).contains(&i) {
                let l = crate::model::claim_name_to_l(&c.rest.first().ok_or("claim missing from rest")?.0)?;
                ensure!(l == L::Int(i) && (reg::registered(reg::CWT_CLAIM_NAME, i) || is_private(i)), "claim key {} spelled as a bignum tag (Value level) classified as {:?}", i, l);
            }
        }
        if let Ok(h) = Header::from_cbor_value(Value::Map(vec![(Value::from(2), Value::Array(vec![big.clone()]))])) {
            let l = crate::model::reg_label_to_l(reg::HEADER_PARAMETER, &h.crit[0])?;
            ensure!(l == L::Int(i) && reg::registered(reg::HEADER_PARAMETER, i), "crit entry {} spelled as a bignum tag (Value level) classified as {:?}", i, l);
        }
    }
    let alg_j = reg::registered(reg::ALGORITHM, j) || is_private(j);
    if alg_ok && alg_j {
        // a header and its counter-signature naming neighbouring algorithms
        let cs = Item::Array(vec![Item::Bytes(vec![]), Item::Map(vec![(Item::Int(1), Item::Int(j as i128))]), Item::Bytes(vec![1])]);
        match Header::from_slice(&m(vec![(Item::Int(1), n.clone()), (Item::Int(7), cs)])) {
            Ok(h) => {
                let l = crate::model::alg_to_l(h.alg.as_ref().ok_or("alg absent")?)?;
                let l2 = crate::model::alg_to_l(h.counter_signatures.first().and_then(|c| c.unprotected.alg.as_ref()).ok_or("nested alg absent")?)?;
                ensure!(l == L::Int(i) && l2 == L::Int(j), "algorithms {} and {} in a header and its counter-signature decoded as {:?} and {:?}", i, j, l, l2);
            }
            Err(e) => fail!("header with algorithm {} whose counter-signature names algorithm {} rejected: {:?}", i, j, e),
        }
    }
    Ok(())
}

fn nontrivial_int(r: &Reg, i: i64) -> bool {
    (-65538..=-65534).contains(&i) || (i.saturating_sub(1)..=i.saturating_add(1)).any(|j| reg::registered(r.table, j))
}

// exhaustive layout:
//  segment 0: one case per registry: table equality over the scan window (+ extremes)
//  segment 1: per (registry, block of BLOCK integers) over [-WINDOW, WINDOW]: label decoding
//  segment 2: per block of integers over [-WINDOW, WINDOW]: the typed positions
fn blocks() -> u64 {
    ((2 * WINDOW + 1) as u64 + BLOCK as u64 - 1) / BLOCK as u64
}

fn exh_sizes() -> [u64; 3] {
    let nr = regs().len() as u64;
    [nr, nr * blocks(), blocks()]
}

fn exh_count(_t: Tier) -> u64 {
    exh_sizes().iter().sum()
}

fn exh_case_tier(idx: u64, ctx: &mut Ctx) -> CaseResult {
    let tier = if std::env::var("VERIF_TIER_INTERNAL").ok().as_deref() == Some("thorough") { Tier::Thorough } else { Tier::Quick };
    let (seg, i) = segment(idx, &exh_sizes()).ok_or("index out of range")?;
    match seg {
        0 => {
            let r = &regs()[i as usize];
            let w = scan_window(tier);
            ctx.classf(format!("exh:table-scan:{}", r.name));
            let mut found: Vec<(String, i64)> = vec![];
            for x in (-w..=w).chain(EXTREMES.iter().copied()) {
                check_conv(r, x)?;
                if let Some((n, v)) = (r.from_i64)(x) {
                    found.push((n, v));
                }
            }
            ctx.evals = (2 * w + 1) as u64 + EXTREMES.len() as u64;
            // exact table equality (no missing, extra, shifted or transposed row; no shared integer)
            let mut want: Vec<(String, i64)> = r.table.iter().map(|(n, v)| (n.to_string(), *v)).collect();
            want.sort_by_key(|x| x.1);
            found.sort_by_key(|x| x.1);
            ensure!(found == want, "{}: names/integers found by scanning differ from the IANA table\n  found: {:?}\n  table: {:?}", r.name, found, want);
            for (_, v) in &want {
                ctx.nontrivial(hash_str(&format!("{}|{}", r.name, v)));
            }
            ctx.sample_with(|| format!("{}: scanned [{}, {}] + extremes; {} names match the table, e.g. {:?}", r.name, -w, w, want.len(), &want[..want.len().min(3)]));
            Ok(())
        }
        1 => {
            let r = &regs()[(i / blocks()) as usize];
            let b = (i % blocks()) as i64;
            let lo = -WINDOW + b * BLOCK;
            let hi = (lo + BLOCK - 1).min(WINDOW);
            ctx.class("exh:label-decode-block");
            for x in lo..=hi {
                check_label_decode(r, x)?;
                if nontrivial_int(r, x) {
                    ctx.nontrivial(hash_str(&format!("ld|{}|{}", r.name, x)));
                }
            }
            ctx.evals = (hi - lo + 1) as u64;
            Ok(())
        }
        _ => {
            let lo = -WINDOW + (i as i64) * BLOCK;
            let hi = (lo + BLOCK - 1).min(WINDOW);
            ctx.class("exh:typed-positions-block");
            for x in lo..=hi {
                check_typed_positions(x)?;
                if (-65538..=-65534).contains(&x) || (-300..=300).contains(&x) {
                    ctx.nontrivial(hash_str(&format!("tp|{}", x)));
                }
            }
            ctx.evals = (hi - lo + 1) as u64;
            Ok(())
        }
    }
}

/// The key_ops position holds a *set* of labels: every registered operation and any number of
/// text labels must be classified and kept, whatever the size of the array.
fn check_key_ops_position(g: &mut Gen, ctx: &mut Ctx) -> CaseResult {
    let n_int = g.below(11);
    let n_text = g.below(8);
    let mut ops: Vec<Item> = (0..n_int).map(|i| Item::Int(1 + i as i128)).collect();
    for i in 0..n_text {
        ops.push(Item::Text(format!("t{}", i)));
    }
    if ops.is_empty() {
        ops.push(Item::Int(1));
    }
    let p = g.permutation(ops.len());
    let ops: Vec<Item> = p.into_iter().map(|i| ops[i].clone()).collect();
    ctx.class("gen:key-ops-position");
    ctx.nontrivial(hash_str(&format!("ko|{:?}", ops)));
    ctx.sample_with(|| format!("key_ops position with {} labels", ops.len()));
    let b = encode(&Item::Map(vec![(Item::Int(1), Item::Int(1)), (Item::Int(4), Item::Array(ops.clone()))]));
    let k = CoseKey::from_slice(&b).map_err(|e| format!("key whose key_ops holds {} distinct registered / text labels rejected: {:?} ({})", ops.len(), e, hex(&b)))?;
    let mut got: Vec<L> = k.key_ops.iter().map(|o| crate::model::reg_label_to_l(reg::KEY_OPERATION, o)).collect::<Result<_, _>>()?;
    let mut want: Vec<L> = ops.iter().map(|o| crate::model::m_label(o).unwrap()).collect();
    got.sort();
    want.sort();
    ensure!(got == want, "key_ops labels classified as {:?}, wire held {:?}", got, want);
    Ok(())
}

fn case(g: &mut Gen, ctx: &mut Ctx) -> CaseResult {
    if g.ratio(1, 10) {
        return check_key_ops_position(g, ctx);
    }
    let rs = regs();
    let r = &rs[g.below(rs.len())];
    match g.weighted(&[5, 2, 2]) {
        0 => {
            let i = match g.weighted(&[3, 2, 2, 1]) {
                0 => g.i64(),
                1 => *g.pick(EXTREMES),
                2 => r.table[g.below(r.table.len())].1.saturating_add(g.range_i64(-2, 2)),
                _ => -65536 + g.range_i64(-3, 3),
            };
            ctx.class("gen:integer");
            if nontrivial_int(r, i) {
                ctx.nontrivial(hash_str(&format!("g|{}|{}", r.name, i)));
                ctx.sample_with(|| format!("{} integer {}", r.name, i));
            }
            check_conv(r, i)?;
            check_label_decode(r, i)?;
            check_typed_positions(i)
        }
        1 => {
            // text labels are always kept
            let t = g.text();
            let b = encode(&Item::Text(t.clone()));
            ctx.class("gen:text-label");
            ctx.nontrivial(hash_str(&format!("t|{}|{}", r.name, t)));
            ctx.sample_with(|| format!("{} text label {:?}", r.name, t));
            match (r.label)(&b) {
                Ok(LabelClass::Text(s)) => ensure!(s == t, "text label {:?} decoded as {:?}", t, s),
                o => fail!("{}: text label {:?} not kept as text: {:?}", r.name, t, o.map_err(|e| format!("{:?}", e))),
            }
            if let Some(lp) = r.label_private {
                match lp(&b) {
                    Ok(LabelClass::Text(s)) => ensure!(s == t, "text label {:?} decoded as {:?}", t, s),
                    o => fail!("{}: text label {:?} not kept as text (with-private): {:?}", r.name, t, o.map_err(|e| format!("{:?}", e))),
                }
            }
            // … a text at the content-type position (the position of the CoAP content-format registry) is kept
            // whenever it has the documented form (non-empty, one `/`, no white space at the ends)
            if g.ratio(1, 3) {
                let ct = crate::gen::gen_content_type(g, &mut crate::gen::Faults::none());
                if let Item::Text(tx) = &ct {
                    let hm = Item::Map(vec![(Item::Int(3), ct.clone())]);
                    if crate::model::m_header(&hm, &mut crate::model::MCtx::default()).is_ok() {
                        ctx.class("gen:text-content-type");
                        match Header::from_slice(&encode(&hm)) {
                            Ok(h) => ensure!(h.content_type == Some(coset::ContentType::Text(tx.clone())), "text content type {:?} decoded as {:?}", tx, h.content_type),
                            Err(e) => fail!("header with the well-formed text content type {:?} rejected: {:?}", tx, e),
                        }
                    }
                }
            }
            // … and in the label-typed positions of maps, whatever the value under it
            let v = match g.below(4) {
                0 => Item::Text("v".into()),
                1 => Item::Int(7),
                2 => Item::Bytes(vec![1]),
                _ => Item::Text(g.text()),
            };
            let vv = crate::conv::item_to_value(&v).ok_or("value")?;
            // several different text labels in one map (related ones over-represented) are all kept, in order
            if g.ratio(1, 3) {
                let mut ts = vec![t.clone()];
                for _ in 0..(1 + g.below(3)) {
                    let src = ts[g.below(ts.len())].clone();
                    let u = if g.ratio(2, 3) { g.text_related(&src) } else { g.text() };
                    if !ts.contains(&u) {
                        ts.push(u);
                    }
                    if let Some(p) = g.take_pending() {
                        if !ts.contains(&p) {
                            ts.push(p);
                        }
                    }
                }
                if g.bool() {
                    ts.reverse();
                }
                ctx.class("gen:several-text-labels");
                let entries: Vec<(Item, Item)> = ts.iter().map(|t| (Item::Text(t.clone()), v.clone())).collect();
                let m = encode(&Item::Map(entries.clone()));
                let c = ClaimsSet::from_slice(&m).map_err(|e| format!("claims set with the distinct text claim names {:?} rejected: {:?}", ts, e))?;
                ensure!(c.rest.len() == ts.len() && c.rest.iter().zip(&ts).all(|((k, x), t)| *k == coset::cwt::ClaimName::Text(t.clone()) && crate::props::common::same(x, &vv)), "claims set with text claim names {:?}: not all kept in order: {:?}", ts, c.rest);
                let h = Header::from_slice(&m).map_err(|e| format!("header with the distinct text labels {:?} rejected: {:?}", ts, e))?;
                ensure!(h.rest.len() == ts.len() && h.rest.iter().zip(&ts).all(|((k, x), t)| *k == coset::Label::Text(t.clone()) && crate::props::common::same(x, &vv)), "header with text labels {:?}: not all kept in order: {:?}", ts, h.rest);
                let mut ke = vec![(Item::Int(1), Item::Int(1))];
                ke.extend(entries);
                let k = CoseKey::from_slice(&encode(&Item::Map(ke))).map_err(|e| format!("key with the distinct text labels {:?} rejected: {:?}", ts, e))?;
                ensure!(k.params.len() == ts.len() && k.params.iter().zip(&ts).all(|((k, x), t)| *k == coset::Label::Text(t.clone()) && crate::props::common::same(x, &vv)), "key with text labels {:?}: not all kept in order: {:?}", ts, k.params);
                // and the values so decoded encode again (the encoders check labels for duplicates too)
                h.to_vec().map_err(|e| format!("header with the distinct text labels {:?} fails to encode: {:?}", ts, e))?;
                k.to_vec().map_err(|e| format!("key with the distinct text labels {:?} fails to encode: {:?}", ts, e))?;
                return Ok(());
            }
            let m = encode(&Item::Map(vec![(Item::Text(t.clone()), v.clone())]));
            match ClaimsSet::from_slice(&m) {
                Ok(c) => ensure!(c.rest.len() == 1 && c.rest[0].0 == coset::cwt::ClaimName::Text(t.clone()) && crate::props::common::same(&c.rest[0].1, &vv) && c.issuer.is_none() && c.subject.is_none() && c.audience.is_none(),
                    "claims set {{{:?}: {}}}: the text claim name was not kept as a text claim with its value: {:?}", t, crate::cbor::diag(&v), c),
                Err(e) => fail!("claims set with the single text claim {:?} rejected: {:?}", t, e),
            }
            match Header::from_slice(&m) {
                Ok(h) => ensure!(h.rest.len() == 1 && h.rest[0].0 == coset::Label::Text(t.clone()) && crate::props::common::same(&h.rest[0].1, &vv) && h.alg.is_none() && h.key_id.is_empty(),
                    "header {{{:?}: {}}}: the text label was not kept as an extra parameter: {:?}", t, crate::cbor::diag(&v), h),
                Err(e) => fail!("header with the single text label {:?} rejected: {:?}", t, e),
            }
            let km = encode(&Item::Map(vec![(Item::Int(1), Item::Int(1)), (Item::Text(t.clone()), v.clone())]));
            match CoseKey::from_slice(&km) {
                Ok(k) => ensure!(k.params.len() == 1 && k.params[0].0 == coset::Label::Text(t.clone()) && crate::props::common::same(&k.params[0].1, &vv),
                    "key with text label {:?}: not kept as an extra parameter: {:?}", t, k),
                Err(e) => fail!("key with the text label {:?} rejected: {:?}", t, e),
            }
            Ok(())
        }
        _ => {
            // non-minimal head widths / bignum form of a table value decode to the same name
            let (name, v) = r.table[g.below(r.table.len())];
            let mut it = Item::Int(v as i128);
            let b = crate::cbor::encode_styled(&mut it, g, crate::cbor::StyleOpts::ALL);
            ctx.class("gen:styled-registered-integer");
            ctx.nontrivial(hash_str(&format!("s|{}|{}", r.name, hex(&b))));
            ctx.sample_with(|| format!("{} {} = {} encoded {}", r.name, name, v, hex(&b)));
            match (r.label)(&b) {
                Ok(LabelClass::Assigned(n, x)) => ensure!(n == name && x == v, "{}: {} encoded as {} decoded as {}={}", r.name, v, hex(&b), n, x),
                o => fail!("{}: registered {} encoded as {} not decoded as its name: {:?}", r.name, v, hex(&b), o.map_err(|e| format!("{:?}", e))),
            }
            Ok(())
        }
    }
}

pub fn property() -> Property {
    Property {
        id: "C17",
        title: "Registry names and integers correspond one-to-one with the IANA assignments",
        rule: "for each of the 16 registry enumerations: every integer of a scan window (quick ±2^18, thorough ±2^24) plus the 64-bit extremes through from_i64/to_i64/is_private, \
               the set of (name, integer) found compared for equality with the transcribed IANA table; every integer of [-70000, 70000] through RegisteredLabel / RegisteredLabelWithPrivate decoding \
               and through the typed positions (header alg, crit, content type; key kty, alg, key_ops; kty inside key sets; alg of nested signers and counter-signatures; alg and content type inside protected byte strings of a message and of a counter-signature; claim key); generated: random 64-bit integers, texts (incl. registered names), several related text labels in one claims / header / key map (all kept, in order, and encodable again), styled encodings; \
               non-trivial = integer assigned, adjacent to an assigned one, or within 2 of -65536; distinct by (registry, integer)",
        assumptions: &["the IANA tables in harness/src/registry.rs are a hand transcription of the registries the crate cites at its snapshot dates (trusted base; no network to re-fetch)"],
        exhaustive_domains: &[
            "from_i64/to_i64/is_private over the whole scan window and the 64-bit extremes, per registry; name sets compared exactly",
            "label decoding classification over [-70000, 70000] per registry (both label types)",
            "typed positions over [-70000, 70000]",
        ],
        case,
        exh_count,
        exh_case: exh_case_tier,
        bytes_case: None,
        quick_cases: 200_000,
        thorough_cases: 2_000_000,
        max_tape: 256,
    }
}

//! C05 — AEAD additional data is exactly RFC 8152 Enc_structure.

use crate::cbor::hex_trunc;
use crate::cbor::{diag, StyleOpts};
use crate::gen::{gen_msg, Faults};
use crate::model::{m_msg, Kind, MCtx, MMsg};
use crate::props::common::styled;
use crate::props::structs::*;
use crate::run::{hash_bytes, no_exh_case, no_exh_count, CaseResult, Ctx, Property};
use crate::tape::Gen;
use coset::{
    enc_structure_data, CborSerializable, CoseEncrypt, CoseEncrypt0, CoseEncrypt0Builder, CoseEncryptBuilder, CoseRecipient, CoseRecipientBuilder,
    EncryptionContext, Header,
};
use std::cell::RefCell;

const CTXS: [EncryptionContext; 5] = [
    EncryptionContext::CoseEncrypt,
    EncryptionContext::CoseEncrypt0,
    EncryptionContext::EncRecipient,
    EncryptionContext::MacRecipient,
    EncryptionContext::RecRecipient,
];

fn expect_eq(what: &str, got: &[u8], want: &[u8]) -> CaseResult {
    ensure!(got == want, "{}: additional data differs from the deterministic encoding of Enc_structure\n  got:  {}\n  want: {}", what, hex_trunc(got, 200), hex_trunc(want, 200));
    Ok(())
}

/// Recipients decoded as part of a whole carrier: the additional data of each uses the bytes its
/// own protected header arrived in.
fn check_wire_recipients(rs: &[CoseRecipient], ms: &[MMsg], aad: &[u8], g: &mut Gen, path: &str) -> CaseResult {
    ensure!(rs.len() == ms.len(), "{}: {} recipients decoded, {} on the wire", path, rs.len(), ms.len());
    for (i, (r, m)) in rs.iter().zip(ms.iter()).enumerate() {
        let c = 2 + g.below(3);
        let w = m.protected.wire.clone().unwrap_or_default();
        let want = ref_enc_structure(ENC_CONTEXTS[c], &w, aad);
        expect_eq(&format!("{}/recipient {}: enc_structure_data", path, i), &enc_structure_data(CTXS[c], r.protected.clone(), aad), &want)?;
        if r.ciphertext.is_some() {
            let mut seen = (vec![], vec![]);
            let _: Result<Vec<u8>, u8> = r.decrypt(CTXS[c], aad, |ct, a| {
                seen = (ct.to_vec(), a.to_vec());
                Ok(vec![])
            });
            ensure!(Some(&seen.0) == m.content.as_ref(), "{}/recipient {}: decrypt handed over a ciphertext other than the received one", path, i);
            expect_eq(&format!("{}/recipient {}: decrypt", path, i), &seen.1, &want)?;
        }
        check_wire_recipients(&r.recipients, &m.nested, aad, g, &format!("{}/recipient {}", path, i))?;
    }
    Ok(())
}

/// A whole carrier decoded from styled wire bytes (any unprotected header, any nesting), then decrypted.
fn wire_carrier_case(g: &mut Gen, ctx: &mut Ctx) -> CaseResult {
    let kind = *g.pick(&[Kind::Encrypt, Kind::Encrypt0, Kind::Recipient]);
    let depth = g.below(3);
    let item = gen_msg(g, kind, &mut Faults::none(), depth);
    let (bytes, enc) = styled(&item, g, StyleOpts::ALL);
    let mut mc = MCtx::default();
    let m = match m_msg(kind, &enc, &mut mc) {
        Ok(m) => m,
        Err(_) => return Ok(()),
    };
    let aad = gen_class_bytes(g);
    ctx.classf(format!("wire-carrier:{}", kind.name()));
    ctx.nontrivial(hash_bytes(&[&b"w"[..], &bytes, &aad].concat()));
    ctx.sample_with(|| format!("whole {} decoded from {} then decrypted, aad {}B", kind.name(), hex_trunc(&bytes, 48), aad.len()));
    let w = m.protected.wire.clone().unwrap_or_default();
    let rejected = |e: coset::CoseError| if mc.unspecified { String::new() } else { format!("valid {} rejected: {:?} ({})", kind.name(), e, diag(&item)) };
    match kind {
        Kind::Encrypt => {
            let v = match CoseEncrypt::from_slice(&bytes) { Ok(v) => v, Err(e) => { let r = rejected(e); return if r.is_empty() { Ok(()) } else { Err(r) } } };
            let want = ref_enc_structure("Encrypt", &w, &aad);
            if v.ciphertext.is_some() {
                let mut seen = vec![];
                let _: Result<Vec<u8>, u8> = v.decrypt(&aad, |_, a| { seen = a.to_vec(); Ok(vec![]) });
                expect_eq("whole COSE_Encrypt: decrypt", &seen, &want)?;
            }
            check_wire_recipients(&v.recipients, &m.nested, &aad, g, "COSE_Encrypt")
        }
        Kind::Encrypt0 => {
            let v = CoseEncrypt0::from_slice(&bytes).map_err(|e| format!("valid COSE_Encrypt0 rejected: {:?}", e))?;
            if v.ciphertext.is_some() {
                let mut seen = vec![];
                let _: Result<Vec<u8>, u8> = v.decrypt(&aad, |_, a| { seen = a.to_vec(); Ok(vec![]) });
                expect_eq("whole COSE_Encrypt0: decrypt", &seen, &ref_enc_structure("Encrypt0", &w, &aad))?;
            }
            Ok(())
        }
        _ => {
            let v = match CoseRecipient::from_slice(&bytes) { Ok(v) => v, Err(e) => { let r = rejected(e); return if r.is_empty() { Ok(()) } else { Err(r) } } };
            check_wire_recipients(std::slice::from_ref(&v), std::slice::from_ref(&m), &aad, g, "COSE_recipient")
        }
    }
}

/// Whatever the decoder accepts (messages with one planted fault, most of which it must reject),
/// the additional data carries the *received* protected bytes, read off the wire with the
/// harness' own reader.
fn accepted_any_case(g: &mut Gen, ctx: &mut Ctx) -> CaseResult {
    let kind = *g.pick(&[Kind::Encrypt, Kind::Encrypt0, Kind::Recipient]);
    let item = gen_msg(g, kind, &mut Faults::one(), 1);
    let o = if g.bool() { StyleOpts::NONE } else { StyleOpts::ALL };
    let (bytes, _) = styled(&item, g, o);
    let slots = match wire_slots(&bytes) {
        Some(s) => s,
        None => return Ok(()),
    };
    let (w, ct) = match (slot_bytes(&slots, 0), slot_bytes(&slots, 2)) {
        (Some(w), Some(c)) => (w, c),
        _ => return Ok(()),
    };
    let aad = g.small_bytes();
    let mut seen = None;
    let f = |c: &[u8], a: &[u8]| -> Result<Vec<u8>, u8> {
        seen = Some((c.to_vec(), a.to_vec()));
        Ok(vec![])
    };
    let cname = match kind {
        Kind::Encrypt => match CoseEncrypt::from_slice(&bytes) {
            Ok(v) => {
                let _ = v.decrypt(&aad, f);
                "Encrypt"
            }
            Err(_) => return Ok(()),
        },
        Kind::Encrypt0 => match CoseEncrypt0::from_slice(&bytes) {
            Ok(v) => {
                let _ = v.decrypt(&aad, f);
                "Encrypt0"
            }
            Err(_) => return Ok(()),
        },
        _ => match CoseRecipient::from_slice(&bytes) {
            Ok(v) => {
                let _ = v.decrypt(EncryptionContext::EncRecipient, &aad, f);
                "Enc_Recipient"
            }
            Err(_) => return Ok(()),
        },
    };
    ctx.classf(format!("accepted-any:{}", kind.name()));
    ctx.nontrivial(hash_bytes(&[&b"a"[..], &bytes, &aad].concat()));
    let (c, a) = seen.ok_or("decrypt did not call the cipher")?;
    ensure!(c == ct, "accepted {}: decrypt handed over a ciphertext other than the received one", kind.name());
    expect_eq(&format!("accepted {} ({}): decrypt", kind.name(), hex_trunc(&bytes, 60)), &a, &ref_enc_structure(cname, &w, &aad))
}

/// A built protected header that has no encoding is refused: no additional data is produced for
/// it, in particular not that of a different header.
fn unencodable_case(g: &mut Gen, ctx: &mut Ctx) -> CaseResult {
    let (bad, sibling) = gen_unencodable_header(g, ctx);
    let aad = g.small_bytes();
    ctx.nontrivial(hash_bytes(format!("u|{:?}|{:?}", bad, aad).as_bytes()));
    ctx.sample_with(|| format!("built protected header without an encoding: {:?}", bad));
    let pb = coset::ProtectedHeader { original_data: None, header: bad.clone() };
    let ps = coset::ProtectedHeader { original_data: None, header: sibling.clone() };
    let c = CTXS[g.below(5)];
    if let Ok(b) = crate::run::catch(|| enc_structure_data(c, pb.clone(), &aad)) {
        ensure!(Some(&b) != crate::run::catch(|| enc_structure_data(c, ps.clone(), &aad)).as_ref().ok(), "enc_structure_data: a protected header that cannot be encoded shares additional data with a different header\n  header:  {:?}\n  sibling: {:?}", bad, sibling);
        fail!("enc_structure_data produced {} for a protected header that has no encoding: {:?}", hex_trunc(&b, 80), bad);
    }
    let called = RefCell::new(0u32);
    let r = crate::run::catch(|| {
        CoseEncrypt0Builder::new().protected(bad.clone()).create_ciphertext(b"pt", &aad, |_, _| {
            *called.borrow_mut() += 1;
            vec![1u8]
        }).build().ciphertext
    });
    ensure!(r.is_err() && *called.borrow() == 0, "create_ciphertext encrypted something for a protected header that has no encoding: {:?}", bad);
    let m = CoseEncrypt0 { protected: pb, unprotected: Header::default(), ciphertext: Some(vec![1]) };
    let called = RefCell::new(0u32);
    let r = crate::run::catch(|| m.decrypt(&aad, |_, _| -> Result<Vec<u8>, u8> { *called.borrow_mut() += 1; Ok(vec![]) }));
    ensure!(r.is_err() && *called.borrow() == 0, "decrypt handed the cipher something for a protected header that has no encoding: {:?}", bad);
    Ok(())
}

fn case(g: &mut Gen, ctx: &mut Ctx) -> CaseResult {
    if g.ratio(1, 4) {
        return wire_carrier_case(g, ctx);
    }
    if g.ratio(1, 16) {
        return unencodable_case(g, ctx);
    }
    if g.ratio(1, 6) {
        return accepted_any_case(g, ctx);
    }
    let prot = gen_prot(g, ctx)?;
    let aad = gen_aad(g, &prot.p);
    let plaintext = g.small_bytes();
    let ciphertext = g.small_bytes();
    let carrier = g.below(3); // 0 Encrypt, 1 Encrypt0, 2 Recipient
    let ci = match carrier {
        0 => 0,
        1 => 1,
        _ => g.below(5), // recipient: any of the five (non-recipient ones must be refused)
    };
    let cname = ENC_CONTEXTS[ci];
    let has_ct = !g.ratio(1, 6);
    ctx.classf(format!("carrier:{}", ["COSE_Encrypt", "COSE_Encrypt0", "COSE_recipient"][carrier]));
    ctx.classf(format!("context:{}", cname));
    ctx.classf(format!("aad-len:{}", len_class(aad.len())));
    ctx.nontrivial(hash_bytes(&[&b"e"[..], &prot.p, &aad, &[carrier as u8, ci as u8, has_ct as u8]].concat()));
    ctx.sample_with(|| format!("{} context {} protected[{}]={} aad={}B ciphertext {}", ["COSE_Encrypt", "COSE_Encrypt0", "COSE_recipient"][carrier], cname, prot.flavour, hex_trunc(&prot.p, 24), aad.len(), if has_ct { "present" } else { "absent" }));

    // general function: all five contexts, pairwise different
    let mut outs = vec![];
    for (j, c) in CTXS.iter().enumerate() {
        let o = enc_structure_data(*c, prot.value.clone(), &aad);
        expect_eq(&format!("enc_structure_data({})", ENC_CONTEXTS[j]), &o, &ref_enc_structure(ENC_CONTEXTS[j], &prot.p, &aad))?;
        outs.push(o);
    }
    for i in 0..5 {
        for j in 0..i {
            ensure!(outs[i] != outs[j], "contexts {} and {} share additional-data bytes", ENC_CONTEXTS[i], ENC_CONTEXTS[j]);
        }
    }
    let want = ref_enc_structure(cname, &prot.p, &aad);
    let recipient_ctx_ok = ci >= 2;

    // decrypt
    let calls = RefCell::new(vec![]);
    let cipher = |c: &[u8], a: &[u8]| -> Result<Vec<u8>, u8> {
        calls.borrow_mut().push((c.to_vec(), a.to_vec()));
        Ok(vec![0x99])
    };
    let ct = if has_ct { Some(ciphertext.clone()) } else { None };
    // (the unprotected header — algorithm, key id, IVs — takes no part in the structure or the refusals)
    let unprot = gen_unprotected(g);
    let res = match carrier {
        0 => {
            let m = CoseEncrypt { protected: prot.value.clone(), unprotected: unprot.clone(), ciphertext: ct.clone(), recipients: vec![] };
            crate::run::catch(|| m.decrypt(&aad, cipher))
        }
        1 => {
            let m = CoseEncrypt0 { protected: prot.value.clone(), unprotected: unprot.clone(), ciphertext: ct.clone() };
            crate::run::catch(|| m.decrypt(&aad, cipher))
        }
        _ => {
            let m = CoseRecipient { protected: prot.value.clone(), unprotected: unprot.clone(), ciphertext: ct.clone(), recipients: vec![] };
            crate::run::catch(|| m.decrypt(CTXS[ci], &aad, cipher))
        }
    };
    let calls_v = calls.into_inner();
    let should_refuse = !has_ct || (carrier == 2 && !recipient_ctx_ok);
    if should_refuse {
        ensure!(res.is_err(), "decrypt did not refuse ({})", if !has_ct { "no ciphertext" } else { "non-recipient context" });
        ensure!(calls_v.is_empty(), "decrypt refused but still called the cipher function");
        ctx.class("decrypt:refused");
    } else {
        let r = res.map_err(|e| format!("decrypt panicked: {}", e))?;
        ensure!(r == Ok(vec![0x99]), "decrypt altered the cipher function's result");
        ensure!(calls_v.len() == 1, "cipher function called {} times", calls_v.len());
        ensure!(calls_v[0].0 == ciphertext, "decrypt handed over a different ciphertext");
        expect_eq("decrypt", &calls_v[0].1, &want)?;
    }

    // builder create_ciphertext / try_create_ciphertext
    if let Some(h) = &prot.built {
        let calls = RefCell::new(vec![]);
        let enc = |p: &[u8], a: &[u8]| {
            calls.borrow_mut().push((p.to_vec(), a.to_vec()));
            vec![0x42, 0x43]
        };
        let fallible = g.bool();
        let out: Result<Option<Vec<u8>>, String> = match carrier {
            0 => {
                let b = crate::builder_with_headers!(CoseEncryptBuilder, g, h);
                crate::run::catch(|| if fallible { b.try_create_ciphertext(&plaintext, &aad, |p, a| -> Result<Vec<u8>, ()> { Ok(enc(p, a)) }).ok().and_then(|b| b.build().ciphertext) } else { b.create_ciphertext(&plaintext, &aad, enc).build().ciphertext })
            }
            1 => {
                let b = crate::builder_with_headers!(CoseEncrypt0Builder, g, h);
                crate::run::catch(|| if fallible { b.try_create_ciphertext(&plaintext, &aad, |p, a| -> Result<Vec<u8>, ()> { Ok(enc(p, a)) }).ok().and_then(|b| b.build().ciphertext) } else { b.create_ciphertext(&plaintext, &aad, enc).build().ciphertext })
            }
            _ => {
                let b = crate::builder_with_headers!(CoseRecipientBuilder, g, h);
                crate::run::catch(|| if fallible { b.try_create_ciphertext(CTXS[ci], &plaintext, &aad, |p, a| -> Result<Vec<u8>, ()> { Ok(enc(p, a)) }).ok().and_then(|b| b.build().ciphertext) } else { b.create_ciphertext(CTXS[ci], &plaintext, &aad, enc).build().ciphertext })
            }
        };
        let calls_v = calls.into_inner();
        if carrier == 2 && !recipient_ctx_ok {
            ensure!(out.is_err(), "recipient create_ciphertext did not refuse the non-recipient context {}", cname);
            ensure!(calls_v.is_empty(), "recipient create_ciphertext refused but still called the cipher function");
            ctx.class("create:refused");
        } else {
            let ctv = out.map_err(|e| format!("create_ciphertext panicked: {}", e))?;
            ensure!(ctv == Some(vec![0x42, 0x43]), "builder did not store the cipher function's output as the ciphertext");
            ensure!(calls_v.len() == 1, "cipher function called {} times", calls_v.len());
            ensure!(calls_v[0].0 == plaintext, "create_ciphertext handed over a different plaintext");
            expect_eq("create_ciphertext", &calls_v[0].1, &want)?;
        }
        ctx.class("builder-helper");
        // the built message, its protected header edited through the public fields afterwards: the
        // cipher gets the additional data of the edited header
        if (carrier != 2 || recipient_ctx_ok) && h.rest.iter().all(|(l, _)| !matches!(l, coset::Label::Int(i) if (77_000..77_100).contains(i))) {
            let mut seen2: Vec<u8> = vec![];
            let p2 = match carrier {
                0 => {
                    let mut m = CoseEncryptBuilder::new().protected(h.clone()).create_ciphertext(&plaintext, &aad, |_, _| vec![1]).build();
                    let p2 = edit_built_protected(g, &mut m.protected)?;
                    let _: Result<Vec<u8>, ()> = m.decrypt(&aad, |_, a| {
                        seen2 = a.to_vec();
                        Ok(vec![])
                    });
                    p2
                }
                1 => {
                    let mut m = CoseEncrypt0Builder::new().protected(h.clone()).create_ciphertext(&plaintext, &aad, |_, _| vec![1]).build();
                    let p2 = edit_built_protected(g, &mut m.protected)?;
                    let _: Result<Vec<u8>, ()> = m.decrypt(&aad, |_, a| {
                        seen2 = a.to_vec();
                        Ok(vec![])
                    });
                    p2
                }
                _ => {
                    let mut m = CoseRecipientBuilder::new().protected(h.clone()).create_ciphertext(CTXS[ci], &plaintext, &aad, |_, _| vec![1]).build();
                    let p2 = edit_built_protected(g, &mut m.protected)?;
                    let _: Result<Vec<u8>, ()> = m.decrypt(CTXS[ci], &aad, |_, a| {
                        seen2 = a.to_vec();
                        Ok(vec![])
                    });
                    p2
                }
            };
            expect_eq("message built through the builder, protected header edited afterwards: decrypt", &seen2, &ref_enc_structure(cname, &p2, &aad))?;
            ctx.class("built-then-edited");
        }
    }
    // injectivity
    let mut aad2 = aad.clone();
    aad2.push(0);
    ensure!(enc_structure_data(CTXS[ci], prot.value.clone(), &aad2) != outs[ci], "different AAD, same additional data");
    Ok(())
}

pub fn property() -> Property {
    Property {
        id: "C05",
        title: "AEAD additional data is exactly RFC 8152 Enc_structure",
        rule: "five contexts x three carriers (COSE_Encrypt, COSE_Encrypt0, COSE_recipient with every context incl. the non-recipient ones) x protected header [decoded from styled wire bytes | built empty | built non-empty] x external AAD on the length-class lattice (rarely 2^20..2^25 bytes; one in ten shaped like an Enc_/MAC_/Sig_structure naming a context and the same protected bytes); whole carriers decoded from styled wire bytes, and messages with one planted fault that the decoder nevertheless accepts; \
               reached through enc_structure_data and the closures of create_ciphertext / try_create_ciphertext / decrypt; byte equality with an independent deterministic encoder; pairwise separation of the five contexts; \
               refusals (non-recipient context, missing ciphertext) must panic without calling the cipher; plaintext in, ciphertext stored; every case is non-trivial; distinct by tuple",
        assumptions: &["reference: own deterministic encoder of the RFC 8152 §5.3 array with the five context strings written in the harness"],
        exhaustive_domains: &[],
        case,
        exh_count: no_exh_count,
        exh_case: no_exh_case,
        bytes_case: None,
        quick_cases: 200_000,
        thorough_cases: 1_500_000,
        max_tape: 4096,
    }
}

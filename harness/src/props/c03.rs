//! C03 — to-be-signed bytes are exactly RFC 8152 Sig_structure.

use crate::cbor::hex_trunc;
use crate::cbor::StyleOpts;
use crate::gen::{gen_msg, Faults};
use crate::model::{m_msg, Kind, MCtx};
use crate::props::common::styled;
use crate::props::structs::*;
use crate::run::{hash_bytes, no_exh_case, no_exh_count, CaseResult, Ctx, Property};
use crate::tape::Gen;
use coset::{
    sig_structure_data, CborSerializable, CoseSign, CoseSign1, CoseSign1Builder, CoseSignBuilder, CoseSignature, Header, SignatureContext,
};
use std::cell::RefCell;

fn expect_eq(what: &str, got: &[u8], want: &[u8]) -> CaseResult {
    ensure!(got == want, "{}: to-be-signed bytes differ from the deterministic encoding of Sig_structure\n  got:  {}\n  want: {}", what, hex_trunc(got, 200), hex_trunc(want, 200));
    Ok(())
}

fn sign1_case(g: &mut Gen, ctx: &mut Ctx) -> CaseResult {
    let prot = gen_prot(g, ctx)?;
    let aad = gen_aad(g, &prot.p);
    let payload = gen_class_bytes(g);
    let mode = g.below(3); // 0 embedded, 1 detached, 2 absent (no payload at all)
    ctx.classf(format!("sign1:{}", ["embedded", "detached", "absent"][mode]));
    ctx.classf(format!("aad-len:{}", len_class(aad.len())));
    ctx.classf(format!("payload-len:{}", len_class(payload.len())));
    let nontrivial = !prot.p.is_empty() || mode == 1 || [23, 24, 255, 256, 65535, 65536].contains(&aad.len()) || [23, 24, 255, 256, 65535, 65536].contains(&payload.len());
    if nontrivial {
        ctx.nontrivial(hash_bytes(&[&b"s1"[..], &prot.p, &aad, &payload, &[mode as u8]].concat()));
        ctx.sample_with(|| format!("COSE_Sign1 protected[{}]={} aad={}B payload={}B {}", prot.flavour, hex_trunc(&prot.p, 24), aad.len(), payload.len(), ["embedded", "detached", "absent"][mode]));
    }
    let sig = g.small_bytes();
    let msg = CoseSign1 {
        protected: prot.value.clone(),
        unprotected: Header::default(),
        payload: if mode == 0 { Some(payload.clone()) } else { None },
        signature: sig.clone(),
    };
    let eff_payload: &[u8] = if mode == 2 { &[] } else { &payload };
    let want = ref_sig_structure("Signature1", &prot.p, None, &aad, eff_payload);
    match mode {
        0 | 2 => {
            expect_eq("CoseSign1::tbs_data", &msg.tbs_data(&aad), &want)?;
            let seen = RefCell::new(None);
            let r: Result<(), u8> = msg.verify_signature(&aad, |s, d| {
                *seen.borrow_mut() = Some((s.to_vec(), d.to_vec()));
                Ok(())
            });
            ensure!(r.is_ok(), "verify_signature altered the closure's result");
            let (s, d) = seen.into_inner().ok_or("verify_signature did not call the verifier")?;
            ensure!(s == sig, "verify_signature handed over a different signature");
            expect_eq("CoseSign1::verify_signature", &d, &want)?;
            if mode == 0 {
                // detached helpers refuse while a payload is embedded
                ensure!(panics(|| msg.tbs_detached_data(&payload, &aad)), "tbs_detached_data did not refuse a message with an embedded payload");
            }
        }
        _ => {
            expect_eq("CoseSign1::tbs_detached_data", &msg.tbs_detached_data(&payload, &aad), &want)?;
            // same bytes as the message with the payload embedded
            let emb = CoseSign1 { payload: Some(payload.clone()), ..msg.clone() };
            expect_eq("CoseSign1::tbs_data (embedded twin)", &emb.tbs_data(&aad), &want)?;
            let seen = RefCell::new(None);
            let _: Result<(), u8> = msg.verify_detached_signature(&payload, &aad, |s, d| {
                *seen.borrow_mut() = Some((s.to_vec(), d.to_vec()));
                Ok(())
            });
            let (s, d) = seen.into_inner().ok_or("verify_detached_signature did not call the verifier")?;
            ensure!(s == sig, "verify_detached_signature handed over a different signature");
            expect_eq("CoseSign1::verify_detached_signature", &d, &want)?;
        }
    }
    // builder helpers (need a built header)
    if let Some(h) = &prot.built {
        let seen = RefCell::new(vec![]);
        let mut b = crate::builder_with_headers!(CoseSign1Builder, g, h);
        match mode {
            0 => {
                b = b.payload(payload.clone());
                if g.bool() {
                    b = b.create_signature(&aad, |d| {
                        seen.borrow_mut().push(d.to_vec());
                        vec![1]
                    });
                } else {
                    b = b
                        .try_create_signature(&aad, |d| -> Result<Vec<u8>, ()> {
                            seen.borrow_mut().push(d.to_vec());
                            Ok(vec![1])
                        })
                        .map_err(|_| "try_create_signature failed")?;
                }
            }
            1 => {
                if g.bool() {
                    b = b.create_detached_signature(&payload, &aad, |d| {
                        seen.borrow_mut().push(d.to_vec());
                        vec![1]
                    });
                } else {
                    b = b
                        .try_create_detached_signature(&payload, &aad, |d| -> Result<Vec<u8>, ()> {
                            seen.borrow_mut().push(d.to_vec());
                            Ok(vec![1])
                        })
                        .map_err(|_| "try_create_detached_signature failed")?;
                }
            }
            _ => {
                b = b.create_signature(&aad, |d| {
                    seen.borrow_mut().push(d.to_vec());
                    vec![1]
                });
            }
        }
        let built = b.build();
        ensure!(built.signature == vec![1], "builder did not store the signer's output");
        let seen = seen.into_inner();
        ensure!(seen.len() == 1, "signer closure called {} times", seen.len());
        expect_eq("CoseSign1Builder create helper", &seen[0], &want)?;
        ctx.class("sign1:builder-helper");
        // the built message, its protected header edited through the public fields afterwards
        if built.payload.is_some() {
            let mut edited = built.clone();
            if edited.protected.header.rest.iter().all(|(l, _)| !matches!(l, coset::Label::Int(i) if (77_000..77_100).contains(i))) {
                let p2 = edit_built_protected(g, &mut edited.protected)?;
                let want2 = ref_sig_structure("Signature1", &p2, None, &aad, edited.payload.as_deref().unwrap_or(&[]));
                expect_eq("CoseSign1 built through the builder, protected header edited afterwards: tbs_data", &edited.tbs_data(&aad), &want2)?;
                ctx.class("sign1:built-then-edited");
            }
        }
    }
    // injectivity: perturb one component
    let which = g.below(3);
    let (aad2, pay2) = match which {
        0 => {
            let mut a = aad.clone();
            a.push(0);
            (a, eff_payload.to_vec())
        }
        1 => {
            let mut p = eff_payload.to_vec();
            p.push(0);
            (aad.clone(), p)
        }
        _ => {
            // move a byte from aad to payload boundary: (aad ++ [x], payload) vs (aad, [x] ++ payload)
            let mut a = aad.clone();
            a.push(7);
            let mut p = vec![];
            p.extend_from_slice(eff_payload);
            (a, p)
        }
    };
    let other = CoseSign1 { protected: prot.value.clone(), unprotected: Header::default(), payload: Some(pay2), signature: vec![] }.tbs_data(&aad2);
    ensure!(other != want, "inputs differing in AAD/payload share to-be-signed bytes");
    Ok(())
}

fn sign_case(g: &mut Gen, ctx: &mut Ctx) -> CaseResult {
    let nsig = 1 + g.below(4);
    let (body, signers): (Prot, Vec<Prot>) = if g.ratio(1, 4) {
        // body and one signer carry the same header content in different bytes
        let (b, s) = gen_prot_pair_same_content(g, ctx)?;
        let mut v: Vec<Prot> = (1..nsig).map(|_| gen_prot(g, ctx)).collect::<Result<_, _>>()?;
        let at = g.below(v.len() + 1);
        v.insert(at, s);
        (b, v)
    } else {
        (gen_prot(g, ctx)?, (0..nsig).map(|_| gen_prot(g, ctx)).collect::<Result<_, _>>()?)
    };
    let aad = gen_aad(g, &body.p);
    let payload = gen_class_bytes(g);
    let mode = g.below(3);
    ctx.classf(format!("sign:{}", ["embedded", "detached", "absent"][mode]));
    ctx.classf(format!("signers:{}", nsig));
    let msg = CoseSign {
        protected: body.value.clone(),
        unprotected: Header::default(),
        payload: if mode == 0 { Some(payload.clone()) } else { None },
        signatures: signers
            .iter()
            .enumerate()
            .map(|(i, s)| CoseSignature { protected: s.value.clone(), unprotected: Header::default(), signature: vec![i as u8, 0xee] })
            .collect(),
    };
    let eff_payload: &[u8] = if mode == 2 { &[] } else { &payload };
    ctx.nontrivial(hash_bytes(&[&b"sN"[..], &body.p, &aad, &payload, &[mode as u8, nsig as u8]].concat()));
    ctx.sample_with(|| format!("COSE_Sign body protected[{}]={} {} signers aad={}B payload={}B {}", body.flavour, hex_trunc(&body.p, 16), nsig, aad.len(), payload.len(), ["embedded", "detached", "absent"][mode]));
    let mut all = vec![];
    for (i, s) in signers.iter().enumerate() {
        let want = ref_sig_structure("Signature", &body.p, Some(&s.p), &aad, eff_payload);
        let sig = &msg.signatures[i];
        if mode == 1 {
            expect_eq(&format!("CoseSign::tbs_detached_data signer {}", i), &msg.tbs_detached_data(&payload, &aad, sig), &want)?;
            let seen = RefCell::new(None);
            let _: Result<(), u8> = msg.verify_detached_signature(i, &payload, &aad, |sg, d| {
                *seen.borrow_mut() = Some((sg.to_vec(), d.to_vec()));
                Ok(())
            });
            let (sg, d) = seen.into_inner().ok_or("verifier not called")?;
            ensure!(sg == sig.signature, "verify_detached_signature({}) handed over another signer's signature", i);
            expect_eq(&format!("CoseSign::verify_detached_signature({})", i), &d, &want)?;
        } else {
            expect_eq(&format!("CoseSign::tbs_data signer {}", i), &msg.tbs_data(&aad, sig), &want)?;
            let seen = RefCell::new(None);
            let _: Result<(), u8> = msg.verify_signature(i, &aad, |sg, d| {
                *seen.borrow_mut() = Some((sg.to_vec(), d.to_vec()));
                Ok(())
            });
            let (sg, d) = seen.into_inner().ok_or("verifier not called")?;
            ensure!(sg == sig.signature, "verify_signature({}) handed over another signer's signature", i);
            expect_eq(&format!("CoseSign::verify_signature({})", i), &d, &want)?;
        }
        all.push(want);
    }
    // out-of-range index is refused
    ensure!(panics(|| msg.verify_signature(nsig, &aad, |_, _| -> Result<(), u8> { Ok(()) })), "verify_signature with an out-of-range index did not panic");
    if mode == 0 {
        ensure!(panics(|| msg.tbs_detached_data(&payload, &aad, &msg.signatures[0])), "tbs_detached_data did not refuse an embedded payload");
    }
    // signers with different protected bytes never share to-be-signed bytes
    for i in 0..nsig {
        for j in 0..i {
            if signers[i].p != signers[j].p {
                ensure!(all[i] != all[j], "signers {} and {} with different protected headers share to-be-signed bytes", j, i);
            }
        }
    }
    // builder: add_created_signature & friends (body must be built)
    if let Some(bh) = &body.built {
        let seen = RefCell::new(vec![]);
        let mut b = crate::builder_with_headers!(CoseSignBuilder, g, bh);
        if mode == 0 {
            b = b.payload(payload.clone());
        }
        // sometimes the body protected header is replaced between two signers: each signer signs the
        // body header in force when its helper is called
        let mut switch: Option<(usize, Prot)> = None;
        if nsig >= 2 && g.ratio(1, 3) {
            let p2 = gen_prot(g, ctx)?;
            if p2.built.is_some() && p2.p != body.p {
                switch = Some((1 + g.below(nsig - 1), p2));
                ctx.class("sign:builder-body-header-replaced-between-signers");
            }
        }
        let mut all = all.clone();
        for (i, s) in signers.iter().enumerate() {
            if let Some((at, p2)) = &switch {
                if i == *at {
                    b = b.protected(p2.built.clone().unwrap());
                }
                if i >= *at {
                    all[i] = ref_sig_structure("Signature", &p2.p, Some(&s.p), &aad, eff_payload);
                }
            }
            let sig = CoseSignature { protected: s.value.clone(), unprotected: Header::default(), signature: vec![] };
            let f = |d: &[u8]| {
                seen.borrow_mut().push(d.to_vec());
                vec![i as u8]
            };
            b = match (mode, g.bool()) {
                (1, true) => b.add_detached_signature(sig, &payload, &aad, f),
                (1, false) => b.try_add_detached_signature(sig, &payload, &aad, |d| -> Result<Vec<u8>, ()> { Ok(f(d)) }).map_err(|_| "try_add_detached_signature failed")?,
                (_, true) => b.add_created_signature(sig, &aad, f),
                (_, false) => b.try_add_created_signature(sig, &aad, |d| -> Result<Vec<u8>, ()> { Ok(f(d)) }).map_err(|_| "try_add_created_signature failed")?,
            };
        }
        let built = b.build();
        let seen = seen.into_inner();
        ensure!(seen.len() == nsig, "signer closure called {} times for {} signers", seen.len(), nsig);
        for i in 0..nsig {
            expect_eq(&format!("CoseSignBuilder add helper, signer {}", i), &seen[i], &all[i])?;
            ensure!(built.signatures[i].signature == vec![i as u8], "builder stored signer {}'s output elsewhere", i);
        }
        ctx.class("sign:builder-helper");
        // the built message, its body protected header edited through the public fields afterwards
        if nsig >= 1 && built.protected.header.rest.iter().all(|(l, _)| !matches!(l, coset::Label::Int(i) if (77_000..77_100).contains(i))) {
            let mut edited = built.clone();
            let p2 = edit_built_protected(g, &mut edited.protected)?;
            let sg = edited.signatures[0].clone();
            let ps = signers[0].p.clone();
            let got = if edited.payload.is_some() { edited.tbs_data(&aad, &sg) } else { edited.tbs_detached_data(&payload, &aad, &sg) };
            let want2 = ref_sig_structure("Signature", &p2, Some(&ps), &aad, if edited.payload.is_some() { edited.payload.as_deref().unwrap_or(&[]) } else { &payload });
            expect_eq("CoseSign built through the builder, body protected header edited afterwards: to-be-signed bytes", &got, &want2)?;
            ctx.class("sign:built-then-edited");
        }
    }
    Ok(())
}

fn general_case(g: &mut Gen, ctx: &mut Ctx) -> CaseResult {
    let (body, sign) = if g.ratio(1, 4) {
        let (b, s) = gen_prot_pair_same_content(g, ctx)?;
        (b, Some(s))
    } else {
        (gen_prot(g, ctx)?, if g.bool() { Some(gen_prot(g, ctx)?) } else { None })
    };
    let aad = gen_aad(g, &body.p);
    let payload = gen_class_bytes(g);
    let ci = g.below(3);
    let c = [SignatureContext::CoseSignature, SignatureContext::CoseSign1, SignatureContext::CounterSignature][ci];
    ctx.classf(format!("general:{}:{}", SIG_CONTEXTS[ci], if sign.is_some() { "with-sign-protected" } else { "without" }));
    ctx.nontrivial(hash_bytes(&[&b"g"[..], &body.p, &aad, &payload, &[ci as u8, sign.is_some() as u8]].concat()));
    ctx.sample_with(|| format!("sig_structure_data({}, body[{}]={}, sign={:?}, aad {}B, payload {}B)", SIG_CONTEXTS[ci], body.flavour, hex_trunc(&body.p, 16), sign.as_ref().map(|s| hex_trunc(&s.p, 16)), aad.len(), payload.len()));
    let got = sig_structure_data(c, body.value.clone(), sign.as_ref().map(|s| s.value.clone()), &aad, &payload);
    let want = ref_sig_structure(SIG_CONTEXTS[ci], &body.p, sign.as_ref().map(|s| &s.p[..]), &aad, &payload);
    expect_eq("sig_structure_data", &got, &want)?;
    // context separation and presence of sign_protected
    for (cj, c2) in [SignatureContext::CoseSignature, SignatureContext::CoseSign1, SignatureContext::CounterSignature].iter().enumerate() {
        if cj != ci {
            let o = sig_structure_data(*c2, body.value.clone(), sign.as_ref().map(|s| s.value.clone()), &aad, &payload);
            ensure!(o != got, "contexts {} and {} share to-be-signed bytes", SIG_CONTEXTS[ci], SIG_CONTEXTS[cj]);
        }
    }
    let flipped = sig_structure_data(c, body.value.clone(), if sign.is_some() { None } else { Some(body.value.clone()) }, &aad, &payload);
    ensure!(flipped != got, "presence/absence of sign_protected does not change the to-be-signed bytes");
    Ok(())
}

/// A whole COSE_Sign1 / COSE_Sign decoded from styled wire bytes (any unprotected headers,
/// counter-signatures, several signers), then every signature verified.
fn wire_carrier_case(g: &mut Gen, ctx: &mut Ctx) -> CaseResult {
    let kind = *g.pick(&[Kind::Sign1, Kind::Sign]);
    let depth = g.below(3);
    let item = gen_msg(g, kind, &mut Faults::none(), depth);
    let (bytes, enc) = styled(&item, g, StyleOpts::ALL);
    let mut mc = MCtx::default();
    let m = match m_msg(kind, &enc, &mut mc) {
        Ok(m) => m,
        Err(_) => return Ok(()),
    };
    let aad = gen_class_bytes(g);
    let detached = gen_class_bytes(g);
    let w = m.protected.wire.clone().unwrap_or_default();
    ctx.classf(format!("wire-carrier:{}", kind.name()));
    ctx.nontrivial(hash_bytes(&[&b"w"[..], &bytes, &aad].concat()));
    ctx.sample_with(|| format!("whole {} decoded from {} then verified, aad {}B", kind.name(), hex_trunc(&bytes, 48), aad.len()));
    let payload: &[u8] = m.content.as_deref().unwrap_or(&detached);
    if kind == Kind::Sign1 {
        let v = CoseSign1::from_slice(&bytes).map_err(|e| format!("valid COSE_Sign1 rejected: {:?}", e))?;
        let mut seen = (vec![], vec![]);
        let f = |s: &[u8], d: &[u8]| -> Result<(), u8> {
            seen = (s.to_vec(), d.to_vec());
            Ok(())
        };
        let _ = if v.payload.is_some() { v.verify_signature(&aad, f) } else { v.verify_detached_signature(&detached, &aad, f) };
        ensure!(seen.0 == m.auth, "whole COSE_Sign1: verifier handed a signature other than the received one");
        expect_eq("whole COSE_Sign1: verify", &seen.1, &ref_sig_structure("Signature1", &w, None, &aad, payload))
    } else {
        let v = match CoseSign::from_slice(&bytes) { Ok(v) => v, Err(e) => { return if mc.unspecified { Ok(()) } else { Err(format!("valid COSE_Sign rejected: {:?}", e)) } } };
        ensure!(v.signatures.len() == m.nested.len(), "signer count differs from the wire");
        for (i, sm) in m.nested.iter().enumerate() {
            let ws = sm.protected.wire.clone().unwrap_or_default();
            let mut seen = (vec![], vec![]);
            let f = |s: &[u8], d: &[u8]| -> Result<(), u8> {
                seen = (s.to_vec(), d.to_vec());
                Ok(())
            };
            let _ = if v.payload.is_some() { v.verify_signature(i, &aad, f) } else { v.verify_detached_signature(i, &detached, &aad, f) };
            ensure!(seen.0 == sm.auth, "whole COSE_Sign: signer {}: verifier handed another signature", i);
            expect_eq(&format!("whole COSE_Sign: verify signer {}", i), &seen.1, &ref_sig_structure("Signature", &w, Some(&ws), &aad, payload))?;
        }
        Ok(())
    }
}

/// Whatever the decoder accepts (messages with one planted fault, most of which it must reject),
/// the to-be-signed bytes carry the *received* protected bytes of body and signer, read off the
/// wire with the harness' own reader.
fn accepted_any_case(g: &mut Gen, ctx: &mut Ctx) -> CaseResult {
    let kind = *g.pick(&[Kind::Sign1, Kind::Sign]);
    let item = gen_msg(g, kind, &mut Faults::one(), 1);
    let o = if g.bool() { StyleOpts::NONE } else { StyleOpts::ALL };
    let (bytes, _) = styled(&item, g, o);
    let slots = match wire_slots(&bytes) {
        Some(s) => s,
        None => return Ok(()),
    };
    let (w, payload) = match (slot_bytes(&slots, 0), slot_bytes(&slots, 2)) {
        (Some(w), Some(p)) => (w, p),
        _ => return Ok(()),
    };
    let aad = g.small_bytes();
    if kind == Kind::Sign1 {
        let sig = match slot_bytes(&slots, 3) {
            Some(s) => s,
            None => return Ok(()),
        };
        let v = match CoseSign1::from_slice(&bytes) {
            Ok(v) => v,
            Err(_) => return Ok(()),
        };
        ctx.class("accepted-any:COSE_Sign1");
        ctx.nontrivial(hash_bytes(&[&b"a"[..], &bytes, &aad].concat()));
        let mut seen = None;
        let _ = v.verify_signature(&aad, |s: &[u8], d: &[u8]| -> Result<(), u8> {
            seen = Some((s.to_vec(), d.to_vec()));
            Ok(())
        });
        let (s, d) = seen.ok_or("verify_signature did not call the verifier")?;
        ensure!(s == sig, "accepted COSE_Sign1: verifier handed a signature other than the received one");
        return expect_eq(&format!("accepted COSE_Sign1 ({}): verify_signature", hex_trunc(&bytes, 60)), &d, &ref_sig_structure("Signature1", &w, None, &aad, &payload));
    }
    let signers = match slots.get(3) {
        Some(crate::cbor::Item::Array(a)) => a.clone(),
        _ => return Ok(()),
    };
    let v = match CoseSign::from_slice(&bytes) {
        Ok(v) => v,
        Err(_) => return Ok(()),
    };
    ctx.class("accepted-any:COSE_Sign");
    ctx.nontrivial(hash_bytes(&[&b"a"[..], &bytes, &aad].concat()));
    ensure!(v.signatures.len() == signers.len(), "accepted COSE_Sign: {} signers decoded from {} on the wire", v.signatures.len(), signers.len());
    for (i, sg) in signers.iter().enumerate() {
        let ss = match sg {
            crate::cbor::Item::Array(a) => a,
            _ => return Ok(()),
        };
        let (ws, sig) = match (slot_bytes(ss, 0), slot_bytes(ss, 2)) {
            (Some(w), Some(s)) => (w, s),
            _ => return Ok(()),
        };
        let mut seen = None;
        let _ = v.verify_signature(i, &aad, |s: &[u8], d: &[u8]| -> Result<(), u8> {
            seen = Some((s.to_vec(), d.to_vec()));
            Ok(())
        });
        let (s, d) = seen.ok_or("verify_signature did not call the verifier")?;
        ensure!(s == sig, "accepted COSE_Sign: signer {}: verifier handed another signature", i);
        expect_eq(&format!("accepted COSE_Sign ({}): verify_signature({})", hex_trunc(&bytes, 60), i), &d, &ref_sig_structure("Signature", &w, Some(&ws), &aad, &payload))?;
    }
    Ok(())
}

/// A built protected header (body or signer) that has no encoding is refused: nothing is signed
/// for it, in particular not the bytes of a different header.
fn unencodable_case(g: &mut Gen, ctx: &mut Ctx) -> CaseResult {
    let (bad, sibling) = gen_unencodable_header(g, ctx);
    let aad = g.small_bytes();
    let payload = g.small_bytes();
    ctx.nontrivial(hash_bytes(format!("u|{:?}|{:?}", bad, aad).as_bytes()));
    ctx.sample_with(|| format!("built protected header without an encoding: {:?}", bad));
    let pb = coset::ProtectedHeader { original_data: None, header: bad.clone() };
    let ps = coset::ProtectedHeader { original_data: None, header: sibling.clone() };
    let as_signer = g.bool();
    let c = if as_signer { SignatureContext::CoseSignature } else { SignatureContext::CoseSign1 };
    let run = |p: coset::ProtectedHeader| {
        crate::run::catch(|| if as_signer { sig_structure_data(c, coset::ProtectedHeader::default(), Some(p), &aad, &payload) } else { sig_structure_data(c, p, None, &aad, &payload) })
    };
    if let Ok(b) = run(pb.clone()) {
        ensure!(Some(&b) != run(ps).as_ref().ok(), "sig_structure_data: a protected header that cannot be encoded shares to-be-signed bytes with a different header\n  header:  {:?}\n  sibling: {:?}", bad, sibling);
        fail!("sig_structure_data produced {} for a protected header that has no encoding: {:?}", hex_trunc(&b, 80), bad);
    }
    let called = RefCell::new(0u32);
    let r = crate::run::catch(|| {
        CoseSign1Builder::new().protected(bad.clone()).payload(payload.clone()).create_signature(&aad, |_| {
            *called.borrow_mut() += 1;
            vec![1u8]
        }).build().signature
    });
    ensure!(r.is_err() && *called.borrow() == 0, "create_signature signed something for a protected header that has no encoding: {:?}", bad);
    let m = CoseSign1 { protected: pb, unprotected: Header::default(), payload: Some(payload.clone()), signature: vec![1] };
    let called = RefCell::new(0u32);
    let r = crate::run::catch(|| m.verify_signature(&aad, |_, _| -> Result<(), u8> { *called.borrow_mut() += 1; Ok(()) }));
    ensure!(r.is_err() && *called.borrow() == 0, "verify_signature handed the verifier something for a protected header that has no encoding: {:?}", bad);
    Ok(())
}

fn case(g: &mut Gen, ctx: &mut Ctx) -> CaseResult {
    if g.ratio(1, 16) {
        return unencodable_case(g, ctx);
    }
    match g.weighted(&[4, 4, 3, 3, 2]) {
        0 => sign1_case(g, ctx),
        1 => sign_case(g, ctx),
        2 => general_case(g, ctx),
        3 => wire_carrier_case(g, ctx),
        _ => accepted_any_case(g, ctx),
    }
}

pub fn property() -> Property {
    Property {
        id: "C03",
        title: "To-be-signed bytes are exactly RFC 8152 Sig_structure",
        rule: "(context, body protected [decoded from styled wire bytes | built empty | built non-empty], signer protected, external AAD, payload [embedded | detached | absent]) tuples with lengths on the CBOR length-class lattice \
               (0, 1, 23/24, 255/256, 65535/65536, 70000) and random, one string in a thousand of 2^20 / 2^24-1 / 2^24 / 2^24+5 / 2^25 bytes, one AAD in ten shaped like a Sig_/MAC_/Enc_structure naming a context and the same protected bytes; messages with one planted fault that the decoder nevertheless accepts (slots read off the wire by the harness' reader); COSE_Sign with 1-4 signers, every index; reached through tbs_data, tbs_detached_data, sig_structure_data (3 contexts x signer present/absent) and the closures of \
               create_signature / add_created_signature / verify_signature and their detached / try_ forms; byte equality with an independent deterministic encoder; perturbed tuples must give different bytes; documented panics must occur; \
               non-trivial = non-empty protected header, a boundary length, detached form, or a multi-signer / general-function case; distinct by tuple",
        assumptions: &["reference: own deterministic encoder (harness/src/cbor.rs) of the RFC 8152 §4.4 array with the three context strings written in the harness", "a built non-empty protected header contributes the bstr the message's own encoding emits, verified to wrap exactly the header's map"],
        exhaustive_domains: &[],
        case,
        exh_count: no_exh_count,
        exh_case: no_exh_case,
        bytes_case: None,
        quick_cases: 200_000,
        thorough_cases: 1_500_000,
        max_tape: 4096,
    }
}

//! C11 — encoding emits exactly the modelled content in the documented CBOR shape.

use crate::cbor::{diag, hex_trunc, read_strict, Item};
use crate::gen::*;
use crate::model::*;
use crate::props::common::*;
use crate::run::{hash_str, no_exh_case, no_exh_count, CaseResult, Ctx, Property};
use crate::tape::Gen;
use coset::iana::{self, EnumI64};
use coset::{CborSerializable, CoseKey, CoseKeySet, Header, HeaderBuilder, Label, TaggedCborSerializable};

/// Reference shape of a header map: (typed pairs, extra pairs in order).
pub fn ref_header_pairs(m: &MHeader) -> (Vec<(Item, Item)>, Vec<(Item, Item)>) {
    let mut typed = vec![];
    if let Some(a) = &m.alg {
        typed.push((Item::Int(1), a.to_item()));
    }
    if !m.crit.is_empty() {
        typed.push((Item::Int(2), Item::Array(m.crit.iter().map(|l| l.to_item()).collect())));
    }
    if let Some(c) = &m.content_type {
        typed.push((Item::Int(3), c.to_item()));
    }
    if !m.key_id.is_empty() {
        typed.push((Item::Int(4), Item::Bytes(m.key_id.clone())));
    }
    if !m.iv.is_empty() {
        typed.push((Item::Int(5), Item::Bytes(m.iv.clone())));
    }
    if !m.partial_iv.is_empty() {
        typed.push((Item::Int(6), Item::Bytes(m.partial_iv.clone())));
    }
    let rest = m.rest.iter().map(|(l, v)| (l.to_item(), v.clone())).collect();
    (typed, rest)
}

/// Check an emitted header map against the model value (counter-signatures recursively).
pub fn check_header_shape(actual: &Item, m: &MHeader) -> Result<(), String> {
    let am = actual.as_map().ok_or_else(|| format!("header emitted as {}", actual.kind()))?;
    let (typed, rest) = ref_header_pairs(m);
    // counter-signatures are compared structurally, so take label 7 out first
    let cs: Vec<&(Item, Item)> = am.iter().filter(|(k, _)| k == &Item::Int(7)).collect();
    let others: Vec<(Item, Item)> = am.iter().filter(|(k, _)| k != &Item::Int(7)).cloned().collect();
    map_matches(&others, &typed, &rest)?;
    match (m.counter_signatures.len(), cs.len()) {
        (0, 0) => {}
        (0, _) => return Err("counter signature emitted for a header without one".into()),
        (_, 0) => return Err("counter signature(s) missing from the emitted map".into()),
        (_, n) if n > 1 => return Err("label 7 emitted more than once".into()),
        (1, _) => check_msg_shape(Kind::Signature, &cs[0].1, &m.counter_signatures[0]).map_err(|e| format!("single counter signature must be inlined: {}", e))?,
        (n, _) => {
            let a = cs[0].1.as_array().ok_or("several counter signatures must be emitted as an array")?;
            if a.len() != n {
                return Err(format!("{} counter signatures emitted for {}", a.len(), n));
            }
            for (x, s) in a.iter().zip(m.counter_signatures.iter()) {
                check_msg_shape(Kind::Signature, x, s)?;
            }
        }
    }
    Ok(())
}

/// Check an emitted protected slot: h'' for an empty built header, the retained bytes for a
/// decoded one, otherwise a bstr wrapping an encoding of the header's map.
pub fn check_protected_shape(actual: &Item, p: &MProtected) -> Result<(), String> {
    let b = actual.as_bytes().ok_or_else(|| format!("protected slot emitted as {}", actual.kind()))?;
    if let Some(w) = &p.wire {
        if b != w {
            return Err(format!("protected slot {} differs from the retained bytes {}", hex_trunc(b, 40), hex_trunc(w, 40)));
        }
        return Ok(());
    }
    if p.header.is_empty() {
        if !b.is_empty() {
            return Err(format!("empty protected header emitted as {} instead of a zero-length byte string", hex_trunc(b, 40)));
        }
        return Ok(());
    }
    let inner = read_strict(b).map_err(|e| format!("protected header content is not strict CBOR ({:?}): {}", e, hex_trunc(b, 80)))?;
    check_header_shape(&inner, &p.header).map_err(|e| format!("inside the protected bstr: {}", e))
}

fn check_opt_bytes(actual: &Item, want: &Option<Vec<u8>>, what: &str) -> Result<(), String> {
    match (actual, want) {
        (Item::Null, None) => Ok(()),
        (Item::Bytes(b), Some(w)) if b == w => Ok(()),
        _ => Err(format!("{} slot is {} for value {:?}", what, diag(actual), want.as_ref().map(|b| hex_trunc(b, 20)))),
    }
}

pub fn check_msg_shape(kind: Kind, actual: &Item, m: &MMsg) -> Result<(), String> {
    let a = actual.as_array().ok_or_else(|| format!("{} emitted as {}", kind.name(), actual.kind()))?;
    let want_len = match kind {
        Kind::Signature | Kind::Encrypt0 => 3,
        Kind::Sign1 | Kind::Sign | Kind::Mac0 | Kind::Encrypt => 4,
        Kind::Mac => 5,
        Kind::Recipient => {
            if m.nested.is_empty() {
                3
            } else {
                4
            }
        }
    };
    if a.len() != want_len {
        return Err(format!("{} emitted with {} slots, expected {}", kind.name(), a.len(), want_len));
    }
    check_protected_shape(&a[0], &m.protected)?;
    check_header_shape(&a[1], &m.unprotected).map_err(|e| format!("unprotected header: {}", e))?;
    let nested = |x: &Item, k: Kind| -> Result<(), String> {
        let l = x.as_array().ok_or("nested list not an array")?;
        if l.len() != m.nested.len() {
            return Err(format!("{} nested structures emitted for {}", l.len(), m.nested.len()));
        }
        for (y, n) in l.iter().zip(m.nested.iter()) {
            check_msg_shape(k, y, n)?;
        }
        Ok(())
    };
    let bytes_eq = |x: &Item, w: &Vec<u8>, what: &str| -> Result<(), String> {
        if x.as_bytes() == Some(w) {
            Ok(())
        } else {
            Err(format!("{} slot is {}", what, diag(x)))
        }
    };
    match kind {
        Kind::Signature => bytes_eq(&a[2], &m.auth, "signature"),
        Kind::Sign1 | Kind::Mac0 => {
            check_opt_bytes(&a[2], &m.content, "payload")?;
            bytes_eq(&a[3], &m.auth, "signature/tag")
        }
        Kind::Sign => {
            check_opt_bytes(&a[2], &m.content, "payload")?;
            nested(&a[3], Kind::Signature)
        }
        Kind::Mac => {
            check_opt_bytes(&a[2], &m.content, "payload")?;
            bytes_eq(&a[3], &m.auth, "tag")?;
            nested(&a[4], Kind::Recipient)
        }
        Kind::Encrypt => {
            check_opt_bytes(&a[2], &m.content, "ciphertext")?;
            nested(&a[3], Kind::Recipient)
        }
        Kind::Encrypt0 => check_opt_bytes(&a[2], &m.content, "ciphertext"),
        Kind::Recipient => {
            check_opt_bytes(&a[2], &m.content, "ciphertext")?;
            if a.len() == 4 {
                nested(&a[3], Kind::Recipient)
            } else {
                Ok(())
            }
        }
    }
}

pub fn check_key_shape(actual: &Item, k: &MKey) -> Result<(), String> {
    let am = actual.as_map().ok_or_else(|| format!("key emitted as {}", actual.kind()))?;
    let mut typed = vec![(Item::Int(1), k.kty.to_item())];
    if !k.key_id.is_empty() {
        typed.push((Item::Int(2), Item::Bytes(k.key_id.clone())));
    }
    if let Some(a) = &k.alg {
        typed.push((Item::Int(3), a.to_item()));
    }
    if !k.base_iv.is_empty() {
        typed.push((Item::Int(5), Item::Bytes(k.base_iv.clone())));
    }
    // key_ops: a set — compare as sets
    let ops: Vec<&(Item, Item)> = am.iter().filter(|(key, _)| key == &Item::Int(4)).collect();
    let others: Vec<(Item, Item)> = am.iter().filter(|(key, _)| key != &Item::Int(4)).cloned().collect();
    let rest: Vec<(Item, Item)> = k.params.iter().map(|(l, v)| (l.to_item(), v.clone())).collect();
    map_matches(&others, &typed, &rest)?;
    match (k.key_ops.is_empty(), ops.len()) {
        (true, 0) => {}
        (true, _) => return Err("key_ops emitted for an empty operation set".into()),
        (false, 1) => {
            let a = ops[0].1.as_array().ok_or("key_ops not an array")?;
            let mut got: Vec<L> = vec![];
            for x in a {
                let l = m_label(x).map_err(|_| "key_ops entry is not a label".to_string())?;
                if got.contains(&l) {
                    return Err("key_ops emitted with a repeated entry".into());
                }
                got.push(l);
            }
            got.sort();
            if got != k.key_ops {
                return Err(format!("key_ops emitted as {:?}, value holds {:?}", got, k.key_ops));
            }
        }
        (false, n) => return Err(format!("key_ops emitted {} times", n)),
    }
    Ok(())
}

/// Build the header through `HeaderBuilder` when every field is reachable through it.
fn header_via_builder(m: &MHeader) -> Option<Header> {
    let mut b = HeaderBuilder::new();
    if let Some(a) = &m.alg {
        match a {
            L::Int(i) => b = b.algorithm(iana::Algorithm::from_i64(*i)?),
            L::Text(_) => return None,
        }
    }
    for c in &m.crit {
        b = b.add_critical_label(l_to_reg(c)?);
    }
    match &m.content_type {
        Some(L::Int(i)) => b = b.content_format(iana::CoapContentFormat::from_i64(*i)?),
        Some(L::Text(t)) => b = b.content_type(t.clone()),
        None => {}
    }
    if !m.key_id.is_empty() {
        b = b.key_id(m.key_id.clone());
    }
    if !m.iv.is_empty() {
        b = b.iv(m.iv.clone());
    }
    if !m.partial_iv.is_empty() {
        b = b.partial_iv(m.partial_iv.clone());
    }
    for s in &m.counter_signatures {
        b = b.add_counter_signature(model_to_signature(s)?);
    }
    for (l, v) in &m.rest {
        let v = crate::conv::item_to_value(v)?;
        match l {
            L::Int(i) => b = b.value(*i, v),
            L::Text(t) => b = b.text_value(t.clone(), v),
        }
    }
    Some(b.build())
}

macro_rules! encode_and_check {
    ($ctx:expr, $name:expr, $value:expr, $decode:expr, $to_model:expr, $shape:expr, $model:expr) => {{
        let v = $value;
        let out = v.clone().to_vec().map_err(|e| format!("{}: well-formed value failed to encode: {:?}\n  value: {}", $name, e, short(&v, 600)))?;
        let read = read_strict(&out).map_err(|e| format!("{}: output is not well-formed definite-length shortest-form CBOR ({:?}): {}", $name, e, hex_trunc(&out, 300)))?;
        $shape(&read).map_err(|e| format!("{}: {}\n  value:  {}\n  output: {}", $name, e, short(&v, 800), diag(&read)))?;
        let back = $decode(&out).map_err(|e| format!("{}: own output rejected by the decoder: {:?}\n  output: {}", $name, e, hex_trunc(&out, 300)))?;
        let mut mb = $to_model(&back)?;
        let mut mv: _ = $model.clone();
        strip(&mut mb);
        strip(&mut mv);
        ensure!(mb == mv, "{}: decoding the output does not return the value\n  value:   {}\n  decoded: {}", $name, short(&mv, 800), short(&mb, 800));
        (out, read, back)
    }};
}

trait Strip {
    fn strip_it(&mut self);
}
impl Strip for MMsg {
    fn strip_it(&mut self) {
        strip_wire_msg(self)
    }
}
impl Strip for MHeader {
    fn strip_it(&mut self) {
        strip_wire_header(self)
    }
}
impl Strip for MKey {
    fn strip_it(&mut self) {}
}
impl Strip for Vec<MKey> {
    fn strip_it(&mut self) {}
}
fn strip<T: Strip>(x: &mut T) {
    x.strip_it()
}

/// A built header whose counter-signature chain (1-8 levels) ends in a *built* protected header
/// holding a value nested almost to the CBOR parser's limit: it encodes, and decoding the output
/// returns it (each protected byte string is a CBOR item of its own).
fn deep_nested_case(g: &mut Gen, ctx: &mut Ctx) -> CaseResult {
    use coset::cbor::value::Value;
    use coset::{CoseSignature, Label, ProtectedHeader};
    let d = match g.below(3) {
        0 => 100 + g.below(100),
        1 => 200 + g.below(45),
        _ => 245 + g.below(10),
    };
    let mut v = Value::from(1);
    let kind = g.below(2);
    for _ in 0..d {
        v = if kind == 0 { Value::Array(vec![v]) } else { Value::Map(vec![(Value::from(0), v)]) };
    }
    let level = 1 + g.below(8);
    let inner = Header { rest: vec![(Label::Int(1000), v)], ..Default::default() };
    // is the content itself within the parser's reach?  (as a message's own protected header)
    let flat = coset::CoseSign1 { protected: ProtectedHeader { original_data: None, header: inner.clone() }, ..Default::default() };
    let flat_bytes = flat.clone().to_vec().map_err(|e| format!("COSE_Sign1 with a deep protected value fails to encode: {:?}", e))?;
    let flat_ok = coset::CoseSign1::from_slice(&flat_bytes).is_ok();
    let mut sig = CoseSignature { protected: ProtectedHeader { original_data: None, header: inner }, unprotected: Header::default(), signature: vec![1] };
    for n in 1..level {
        let hdr = Header { counter_signatures: vec![sig], ..Default::default() };
        sig = if g.bool() {
            CoseSignature { protected: ProtectedHeader { original_data: None, header: hdr }, unprotected: Header::default(), signature: vec![n as u8] }
        } else {
            CoseSignature { protected: ProtectedHeader::default(), unprotected: hdr, signature: vec![n as u8] }
        };
    }
    let h = Header { counter_signatures: vec![sig], ..Default::default() };
    ctx.classf(format!("deep-nested:level-{}:{}", level, match d { 0..=199 => "deep", 200..=244 => "deeper", _ => "at-limit" }));
    ctx.nontrivial(hash_str(&format!("dn|{}|{}|{}", level, d, kind)));
    ctx.sample_with(|| format!("built header: {} nested counter-signature(s), innermost protected header holds a value nested {} deep", level, d));
    let out = h.clone().to_vec().map_err(|e| format!("well-formed built header ({} counter-signature level(s), value nested {} deep) failed to encode: {:?}", level, d, e))?;
    match Header::from_slice(&out) {
        Ok(back) => {
            // (decoded protected headers retain bytes: compare the views)
            fn strip(h: &mut Header) {
                for cs in h.counter_signatures.iter_mut() {
                    cs.protected.original_data = None;
                    strip(&mut cs.protected.header);
                    strip(&mut cs.unprotected);
                }
            }
            let mut b = back;
            strip(&mut b);
            ensure!(same(&b, &h), "decoding the output does not return the built header ({} level(s), value nested {} deep)", level, d);
        }
        Err(e) => {
            ensure!(!flat_ok, "own output rejected by the decoder ({:?}): built header with {} counter-signature level(s) whose innermost protected header holds a value nested {} deep — the same protected header decodes fine as a message's own", e, level, d);
        }
    }
    Ok(())
}

/// `ProtectedHeader` values obtained by decoding a carrier (they retain wire bytes — zero-length,
/// wrapped empty map, non-canonical …) encoded on their own: `to_vec` / `to_cbor_value` emit the
/// header map of the parsed view, well-formed, and decoding it returns the same header.
fn decoded_protected_case(g: &mut Gen, ctx: &mut Ctx) -> CaseResult {
    use coset::AsCborValue;
    let item = gen_msg(g, Kind::Sign1, &mut Faults::none(), 1);
    let (bytes, enc) = crate::props::common::styled(&item, g, crate::cbor::StyleOpts::ALL);
    if m_msg(Kind::Sign1, &enc, &mut MCtx::default()).is_err() {
        return Ok(());
    }
    let v = coset::CoseSign1::from_slice(&bytes).map_err(|e| format!("valid COSE_Sign1 rejected: {:?}", e))?;
    let mut ps = vec![v.protected.clone()];
    for h in [&v.unprotected, &v.protected.header] {
        for cs in &h.counter_signatures {
            ps.push(cs.protected.clone());
        }
    }
    ctx.class("type:ProtectedHeader(decoded)");
    for p in ps {
        let retained = p.original_data.clone().unwrap_or_default();
        ctx.nontrivial(hash_str(&format!("dp|{}|{:?}", crate::cbor::hex_trunc(&retained, 200), p.header)));
        ctx.sample_with(|| format!("decoded ProtectedHeader retaining {} encoded on its own", crate::cbor::hex_trunc(&retained, 32)));
        let out = p.clone().to_vec().map_err(|e| format!("decoded ProtectedHeader (retaining {}) fails to encode: {:?}", crate::cbor::hex_trunc(&retained, 40), e))?;
        let want = p.header.clone().to_vec().map_err(|e| format!("parsed view fails to encode: {:?}", e))?;
        ensure!(out == want, "decoded ProtectedHeader (retaining {}): to_vec gives {} but its header map is {}", crate::cbor::hex_trunc(&retained, 40), crate::cbor::hex_trunc(&out, 60), crate::cbor::hex_trunc(&want, 60));
        crate::cbor::read_strict(&out).map_err(|e| format!("ProtectedHeader::to_vec output is not well-formed deterministic CBOR ({:?}): {}", e, crate::cbor::hex_trunc(&out, 60)))?;
        let val = p.clone().to_cbor_value().map_err(|e| format!("decoded ProtectedHeader (retaining {}) fails to convert: {:?}", crate::cbor::hex_trunc(&retained, 40), e))?;
        let hv = p.header.clone().to_cbor_value().map_err(|e| format!("{:?}", e))?;
        ensure!(same(&val, &hv), "decoded ProtectedHeader: to_cbor_value differs from the header's");
        let back = coset::ProtectedHeader::from_slice(&out).map_err(|e| format!("ProtectedHeader::to_vec output rejected by from_slice: {:?}", e))?;
        ensure!(same(&back.header, &p.header), "decoding ProtectedHeader::to_vec output does not return the header");
    }
    Ok(())
}

/// CWT claims sets assembled in memory (struct literal, or the builder when the value allows it):
/// every populated claim is emitted once under its registered key with its exact value — a
/// fractional-seconds time stamp as a float even when its value is integral, whole seconds as an
/// integer — extras in their given order, and decoding the output returns the value.
fn claims_case(g: &mut Gen, ctx: &mut Ctx) -> CaseResult {
    use coset::cwt::{ClaimName, ClaimsSet, Timestamp};
    let mut c = ClaimsSet::default();
    let mut typed: Vec<(Item, Item)> = vec![];
    let text = |g: &mut Gen, k: i128, typed: &mut Vec<(Item, Item)>| -> Option<String> {
        if g.ratio(1, 3) {
            let t = g.text();
            typed.push((Item::Int(k), Item::Text(t.clone())));
            Some(t)
        } else {
            None
        }
    };
    c.issuer = text(g, 1, &mut typed);
    c.subject = text(g, 2, &mut typed);
    c.audience = text(g, 3, &mut typed);
    let time = |g: &mut Gen, k: i128, typed: &mut Vec<(Item, Item)>| -> Option<Timestamp> {
        if !g.ratio(1, 2) {
            return None;
        }
        Some(if g.bool() {
            let v = match g.below(4) {
                0 => 1_700_000_000,
                1 => g.i64(),
                2 => *g.pick(&[0i64, -1, 1, 23, 24, 255, 256, i64::MAX, i64::MIN, 1 << 53, 0xffff_ffff]),
                _ => g.range_i64(-100, 100),
            };
            typed.push((Item::Int(k), Item::Int(v as i128)));
            Timestamp::WholeSeconds(v)
        } else {
            // fractional seconds whose value happens to be integral stay fractional seconds
            let f = match g.below(3) {
                0 => *g.pick(&[0.0f64, -0.0, 1.0, -1.0, 2.0, 1444064944.0, 1_700_000_000.0, 9007199254740992.0, -9007199254740992.0, 9.223372036854775807e18, -9.223372036854775808e18, 1e300, f64::INFINITY, f64::NEG_INFINITY]),
                1 => gen_float(g, false),
                _ => (g.range_i64(-1_000_000, 1_000_000) as f64) + *g.pick(&[0.0, 0.5, 0.25, 0.0]),
            };
            typed.push((Item::Int(k), Item::Float(f)));
            Timestamp::FractionalSeconds(f)
        })
    };
    c.expiration_time = time(g, 4, &mut typed);
    c.not_before = time(g, 5, &mut typed);
    c.issued_at = time(g, 6, &mut typed);
    if g.ratio(1, 3) {
        let b = g.small_bytes();
        typed.push((Item::Int(7), Item::Bytes(b.clone())));
        c.cwt_id = Some(b);
    }
    let mut rest: Vec<(Item, Item)> = vec![];
    for i in 0..g.weighted(&[3, 3, 2, 2, 1]) {
        let (name, key) = match g.below(3) {
            0 => {
                let t = format!("{}{}", g.text(), i);
                (ClaimName::Text(t.clone()), Item::Text(t))
            }
            1 => {
                let n = if g.ratio(1, 3) { *g.pick(&[i64::MIN, i64::MIN + 1, -65537, -65538, -65537 - 64, -65537 - 128]) } else { -65537 - 7 * i as i64 - g.range_i64(0, 5) };
                (ClaimName::PrivateUse(n), Item::Int(n as i128))
            }
            _ => {
                let (cn, n) = *g.pick(&[(iana::CwtClaimName::Cnf, 8i128), (iana::CwtClaimName::Scope, 9), (iana::CwtClaimName::CNonce, 39)]);
                (ClaimName::Assigned(cn), Item::Int(n))
            }
        };
        if rest.iter().any(|(k, _)| k == &key) {
            continue;
        }
        let v = gen_value(g, 2, false);
        let v = crate::conv::as_read_by_ciborium(&v);
        if let Some(val) = crate::conv::item_to_value(&v) {
            c.rest.push((name, val));
            rest.push((key, v));
        }
    }
    ctx.class("type:ClaimsSet");
    if typed.len() + rest.len() >= 2 {
        ctx.nontrivial(hash_str(&format!("{:?}", c)));
        ctx.sample_with(|| format!("ClaimsSet {}", short(&c, 300)));
    }
    let out = c.clone().to_vec().map_err(|e| format!("ClaimsSet: well-formed value failed to encode: {:?} ({})", e, short(&c, 300)))?;
    let read = read_strict(&out).map_err(|e| format!("ClaimsSet: output is not definite-length shortest-form CBOR ({:?}): {}", e, hex_trunc(&out, 200)))?;
    let m = read.as_map().ok_or("ClaimsSet: output is not a map")?;
    map_matches(m, &typed, &rest).map_err(|e| format!("ClaimsSet {} encodes to {}: {}", short(&c, 300), diag(&read), e))?;
    let back = ClaimsSet::from_slice(&out).map_err(|e| format!("ClaimsSet: own output {} rejected: {:?}", hex_trunc(&out, 200), e))?;
    ensure!(same(&back, &c), "ClaimsSet: decoding the output does not return the value\n  value:   {}\n  decoded: {}", short(&c, 400), short(&back, 400));
    Ok(())
}

/// Supplementary public information (alone and inside a KDF context) carrying a protected header *as
/// received*: the byte string goes out exactly as it came in — also when it is one of the other
/// spellings of "no parameters" (`a0`, `bf ff`) — beside the key length and the optional `other`.
fn supp_received_case(g: &mut Gen, ctx: &mut Ctx) -> CaseResult {
    use coset::cbor::value::Value;
    use coset::{CoseKdfContext, CoseKdfContextBuilder, ProtectedHeader, SuppPubInfo};
    const RECEIVED: &[&[u8]] = &[&[], &[0xa0], &[0xbf, 0xff], &[0xb8, 0x00], &[0xa1, 0x04, 0x41, 0x01], &[0xa1, 0x18, 0x04, 0x41, 0x01], &[0xbf, 0x04, 0x41, 0x01, 0xff], &[0xa2, 0x04, 0x41, 0x01, 0x01, 0x26]];
    let wire: Vec<u8> = g.pick(RECEIVED).to_vec();
    let protected = ProtectedHeader::from_cbor_bstr(Value::Bytes(wire.clone())).map_err(|e| format!("protected header {} rejected: {:?}", hex_trunc(&wire, 20), e))?;
    let len = *g.pick(&[0u64, 128, 256, u64::MAX]);
    let other = if g.bool() { Some(g.small_bytes()) } else { None };
    let s = SuppPubInfo { key_data_length: len, protected, other: other.clone() };
    ctx.class("type:SuppPubInfo-with-received-protected");
    ctx.nontrivial(hash_str(&format!("{:?}", s)));
    ctx.sample_with(|| format!("SuppPubInfo {}", short(&s, 200)));
    let mut want = vec![Item::Int(len as i128), Item::Bytes(wire.clone())];
    if let Some(o) = &other {
        want.push(Item::Bytes(o.clone()));
    }
    let want = Item::Array(want);
    let out = s.clone().to_vec().map_err(|e| format!("SuppPubInfo failed to encode: {:?}", e))?;
    let read = read_strict(&out).map_err(|e| format!("SuppPubInfo output not strict CBOR: {:?}", e))?;
    ensure!(read == want, "SuppPubInfo {} encodes to {} instead of {}", short(&s, 200), diag(&read), diag(&want));
    let back = SuppPubInfo::from_slice(&out).map_err(|e| format!("SuppPubInfo: own output rejected: {:?}", e))?;
    ensure!(back == s, "SuppPubInfo: decoding the output does not return the value: {} vs {}", short(&back, 200), short(&s, 200));
    let k = CoseKdfContextBuilder::new().supp_pub_info(s.clone()).build();
    let out = k.clone().to_vec().map_err(|e| format!("KDF context failed to encode: {:?}", e))?;
    let read = read_strict(&out).map_err(|e| format!("KDF context output not strict CBOR: {:?}", e))?;
    let slot = read.as_array().and_then(|a| a.get(3)).cloned().ok_or("KDF context without SuppPubInfo slot")?;
    ensure!(slot == want, "KDF context carries SuppPubInfo {} instead of {}", diag(&slot), diag(&want));
    let back = CoseKdfContext::from_slice(&out).map_err(|e| format!("KDF context: own output rejected: {:?}", e))?;
    ensure!(back == k, "KDF context: decoding the output does not return the value");
    Ok(())
}

fn case(g: &mut Gen, ctx: &mut Ctx) -> CaseResult {
    if g.ratio(1, 40) {
        return supp_received_case(g, ctx);
    }
    if g.ratio(1, 60) {
        // the tagged encoding the crate provides to every implementor of its serialisation traits: a type
        // of the harness' own with tag numbers of every head width (shared with C13)
        return crate::props::c13::check_foreign_tags(g, ctx);
    }
    if g.ratio(1, 12) {
        return claims_case(g, ctx);
    }
    if g.ratio(1, 25) {
        return deep_nested_case(g, ctx);
    }
    if g.ratio(1, 16) {
        return decoded_protected_case(g, ctx);
    }
    match g.weighted(&[3, 6, 2, 1]) {
        0 => {
            // Header / ProtectedHeader
            let item = gen_header(g, &mut Faults::none(), 2);
            let mut m = match m_header(&item, &mut MCtx::default()) {
                Ok(m) => m,
                Err(_) => return Ok(()),
            };
            strip_wire_header(&mut m); // built in memory: no retained bytes anywhere
            let h = match model_to_header(&m) {
                Some(h) => h,
                None => return Ok(()),
            };
            ctx.class("type:Header");
            let fields = item.as_map().map(|x| x.len()).unwrap_or(0);
            if fields >= 2 || !m.counter_signatures.is_empty() {
                ctx.nontrivial(hash_str(&format!("{:?}", m)));
                ctx.sample_with(|| format!("Header {}", short(&h, 300)));
            }
            if let Some(hb) = header_via_builder(&m) {
                ensure!(same(&hb, &h), "HeaderBuilder result differs from the struct literal with the same fields\n  builder: {}\n  literal: {}", short(&hb, 600), short(&h, 600));
                ctx.class("header:also-via-builder");
            }
            let (out, _, _) = encode_and_check!(ctx, "Header", h.clone(), Header::from_slice, header_to_model, |r: &Item| check_header_shape(r, &m), m);
            // the same header as a built protected header inside ProtectedHeader::to_vec (bare map)
            let ph = coset::ProtectedHeader { original_data: None, header: h.clone() };
            let out2 = ph.to_vec().map_err(|e| format!("ProtectedHeader failed to encode: {:?}", e))?;
            ensure!(out2 == out, "ProtectedHeader::to_vec differs from Header::to_vec for the same header");
            Ok(())
        }
        1 => {
            let kind = *g.pick(&KINDS);
            let depth = g.weighted(&[3, 3, 2, 1]);
            let item = gen_msg(g, kind, &mut Faults::none(), depth);
            let mut mc = MCtx::default();
            let mut m = match m_msg(kind, &item, &mut mc) {
                Ok(m) => m,
                Err(_) => return Ok(()),
            };
            strip_wire_msg(&mut m);
            ctx.classf(format!("type:{}", kind.name()));
            ctx.nontrivial(hash_str(&format!("{:?}{:?}", kind, m)));
            ctx.sample_with(|| format!("{} {}", kind.name(), short(&m, 300)));
            if m.protected.header.is_empty() {
                ctx.class("protected:empty");
            } else {
                ctx.class("protected:non-empty");
            }
            ctx.classf(format!("nested:{}", m.nested.len().min(3)));
            macro_rules! go {
                ($build:ident, $ty:ty, $to_model:ident) => {{
                    let v = match $build(&m) {
                        Some(v) => v,
                        None => return Ok(()),
                    };
                    let (out, _read, back) = encode_and_check!(ctx, kind.name(), v.clone(), <$ty>::from_slice, $to_model, |r: &Item| check_msg_shape(kind, r, &m), m);
                    // the decoded value's protected header now carries the bytes encoding assigned
                    let slot0 = read_strict(&out).ok().and_then(|r| r.as_array().map(|a| a[0].clone()));
                    ensure!(back.protected.original_data.as_ref() == slot0.as_ref().and_then(|s| s.as_bytes()), "{}: decoded protected header does not carry the emitted protected bytes", kind.name());
                    (v, out)
                }};
            }
            match kind {
                Kind::Signature => {
                    go!(model_to_signature, coset::CoseSignature, signature_to_model);
                }
                Kind::Recipient => {
                    go!(model_to_recipient, coset::CoseRecipient, recipient_to_model);
                }
                Kind::Sign1 => {
                    let (v, out) = go!(model_to_sign1, coset::CoseSign1, sign1_to_model);
                    check_tagged(kind, v.to_tagged_vec(), &out)?;
                }
                Kind::Sign => {
                    let (v, out) = go!(model_to_sign, coset::CoseSign, sign_to_model);
                    check_tagged(kind, v.to_tagged_vec(), &out)?;
                }
                Kind::Mac => {
                    let (v, out) = go!(model_to_mac, coset::CoseMac, mac_to_model);
                    check_tagged(kind, v.to_tagged_vec(), &out)?;
                }
                Kind::Mac0 => {
                    let (v, out) = go!(model_to_mac0, coset::CoseMac0, mac0_to_model);
                    check_tagged(kind, v.to_tagged_vec(), &out)?;
                }
                Kind::Encrypt => {
                    let (v, out) = go!(model_to_encrypt, coset::CoseEncrypt, encrypt_to_model);
                    check_tagged(kind, v.to_tagged_vec(), &out)?;
                }
                Kind::Encrypt0 => {
                    let (v, out) = go!(model_to_encrypt0, coset::CoseEncrypt0, encrypt0_to_model);
                    check_tagged(kind, v.to_tagged_vec(), &out)?;
                }
            }
            Ok(())
        }
        2 => {
            let set = g.ratio(1, 3);
            if set {
                let item = gen_keyset(g, &mut Faults::none());
                let ms = match m_keyset(&item) {
                    Ok(m) => m,
                    Err(_) => return Ok(()),
                };
                let ks: Option<Vec<CoseKey>> = ms.iter().map(model_to_key).collect();
                let ks = match ks {
                    Some(k) => CoseKeySet(k),
                    None => return Ok(()),
                };
                ctx.class("type:CoseKeySet");
                ctx.nontrivial(hash_str(&format!("{:?}", ms)));
                ctx.sample_with(|| format!("CoseKeySet {}", short(&ms, 300)));
                encode_and_check!(ctx, "CoseKeySet", ks.clone(), CoseKeySet::from_slice, keyset_to_model, |r: &Item| {
                    let a = r.as_array().ok_or("key set not an array")?;
                    if a.len() != ms.len() {
                        return Err(format!("{} keys emitted for {}", a.len(), ms.len()));
                    }
                    for (x, k) in a.iter().zip(ms.iter()) {
                        check_key_shape(x, k)?;
                    }
                    Ok(())
                }, ms);
            } else {
                let item = gen_key(g, &mut Faults::none());
                let m = match m_key(&item) {
                    Ok(m) => m,
                    Err(_) => return Ok(()),
                };
                let k = match model_to_key(&m) {
                    Some(k) => k,
                    None => return Ok(()),
                };
                ctx.class("type:CoseKey");
                if item.as_map().map(|x| x.len()).unwrap_or(0) >= 2 {
                    ctx.nontrivial(hash_str(&format!("{:?}", m)));
                    ctx.sample_with(|| format!("CoseKey {}", short(&m, 300)));
                }
                encode_and_check!(ctx, "CoseKey", k.clone(), CoseKey::from_slice, key_to_model, |r: &Item| check_key_shape(r, &m), m);
            }
            Ok(())
        }
        _ => {
            // labels of every class
            let l = match g.below(3) {
                0 => L::Int(g.i64()),
                1 => L::Text(g.text()),
                _ => L::Int(*g.pick(&[0i64, 23, 24, -1, -24, -25, 255, 256, -256, -257, 65535, 65536, i64::MAX, i64::MIN])),
            };
            ctx.class("type:Label");
            ctx.nontrivial(hash_str(&format!("{:?}", l)));
            ctx.sample_with(|| format!("Label {}", l.short()));
            let out = l.to_label().to_vec().map_err(|e| format!("Label failed to encode: {:?}", e))?;
            ensure!(out == l.enc(), "Label {} encodes to {} instead of {}", l.short(), hex_trunc(&out, 40), hex_trunc(&l.enc(), 40));
            ensure!(Label::from_slice(&out).ok() == Some(l.to_label()), "Label {} does not decode back", l.short());
            Ok(())
        }
    }
}

fn check_tagged(kind: Kind, tagged: Result<Vec<u8>, coset::CoseError>, untagged: &[u8]) -> CaseResult {
    let t = tagged.map_err(|e| format!("{}: to_tagged_vec failed: {:?}", kind.name(), e))?;
    let mut want = vec![];
    crate::cbor::head(&mut want, 6, kind.tag().unwrap());
    want.extend_from_slice(untagged);
    ensure!(t == want, "{}: to_tagged_vec is not the registered tag applied once to to_vec", kind.name());
    Ok(())
}

pub fn property() -> Property {
    Property {
        id: "C11",
        title: "Encoding emits exactly the modelled content in the documented CBOR shape",
        rule: "well-formed in-memory values (struct literals built from model values; headers also through HeaderBuilder) of headers, all eight message structures with nesting <= 3, keys, key sets and labels, \
               over generated field subsets (every field singly and in combination, empty vs non-empty, 0/1/2+ counter-signatures, nil/empty/non-empty payloads, every label class); \
               to_vec / to_tagged_vec output read by the strict reader and compared with the reference shape, then decoded and compared with the value; claims sets also directly (struct literals, all claims, whole / fractional time stamps); KDF contexts, party and supplementary info are covered by C18's encode direction; \
               non-trivial = >= 2 populated fields or any nested structure; distinct by model value",
        assumptions: &["well-formed value = accepted by the reference model of its type; built protected headers carry no retained bytes", "maps compared modulo order of typed entries; extras in their given relative order"],
        exhaustive_domains: &[],
        case,
        exh_count: no_exh_count,
        exh_case: no_exh_case,
        bytes_case: None,
        quick_cases: 300_000,
        thorough_cases: 2_000_000,
        max_tape: 4096,
    }
}

//! C14 — tagged forms carry exactly the structure's registered CBOR tag.

use crate::cbor::{diag, encode, head, head_w, hex_trunc, min_width, Item, StyleOpts};
use crate::gen::{gen_msg, Faults};
use crate::model::{Kind, KINDS};
use crate::props::common::*;
use crate::props::segment;
use crate::run::{hash_bytes, CaseResult, Ctx, Property, Tier};
use crate::tape::Gen;
use coset::{
    CborSerializable, CoseEncrypt, CoseEncrypt0, CoseError, CoseMac, CoseMac0, CoseSign, CoseSign1, TaggedCborSerializable,
};
use std::sync::OnceLock;

struct Ty {
    kind: Kind,
    /// the registered tag, from RFC 8152 table 1 (harness/src/registry.rs)
    tag: u64,
    untagged: fn(&[u8]) -> Result<String, CoseError>,
    tagged: fn(&[u8]) -> Result<String, CoseError>,
    /// decode untagged, then (to_vec, to_tagged_vec)
    both: fn(&[u8]) -> Option<(Result<Vec<u8>, CoseError>, Result<Vec<u8>, CoseError>)>,
}

macro_rules! ty {
    ($t:ty, $k:expr, $tag:expr) => {
        Ty {
            kind: $k,
            tag: $tag,
            untagged: |b| <$t>::from_slice(b).map(|v| format!("{:?}", v)),
            tagged: |b| <$t>::from_tagged_slice(b).map(|v| format!("{:?}", v)),
            both: |b| <$t>::from_slice(b).ok().map(|v| (v.clone().to_vec(), v.to_tagged_vec())),
        }
    };
}

fn types() -> &'static Vec<Ty> {
    static T: OnceLock<Vec<Ty>> = OnceLock::new();
    T.get_or_init(|| {
        use crate::registry::*;
        vec![
            ty!(CoseSign, Kind::Sign, TAG_SIGN),
            ty!(CoseSign1, Kind::Sign1, TAG_SIGN1),
            ty!(CoseEncrypt, Kind::Encrypt, TAG_ENCRYPT),
            ty!(CoseEncrypt0, Kind::Encrypt0, TAG_ENCRYPT0),
            ty!(CoseMac, Kind::Mac, TAG_MAC),
            ty!(CoseMac0, Kind::Mac0, TAG_MAC0),
        ]
    })
}

const TAGS: &[u64] = &[16, 17, 18, 96, 97, 98, 15, 19, 95, 99, 0, 1, 24, 61, 255, 256, 55799, 1 << 32, u64::MAX];

/// The base palette plus, for each registered tag t, the numbers that alias t when a tag number is
/// truncated to 8, 16, 32 or 63 bits (t + 2^8, t + 2^16, t + 2^32, t + 2^63) or byte-swapped.
fn tags_all() -> &'static Vec<u64> {
    static T: OnceLock<Vec<u64>> = OnceLock::new();
    T.get_or_init(|| {
        let mut v = TAGS.to_vec();
        for t in [16u64, 17, 18, 96, 97, 98] {
            for a in [t + (1 << 8), t + (1 << 16), t + (1 << 32), t + (1 << 63), t << 8, t << 56, t + (1 << 31), t + 0xffff_ff00] {
                if !v.contains(&a) {
                    v.push(a);
                }
            }
        }
        v
    })
}
const WIDTHS: [u8; 5] = [0, 1, 2, 4, 8];

/// Body palette: a valid body of every kind (so every type sees bodies valid for itself, valid
/// for a shape-sharing type, and invalid), plus invalid items.
pub(crate) fn palette() -> &'static Vec<Vec<u8>> {
    static P: OnceLock<Vec<Vec<u8>>> = OnceLock::new();
    P.get_or_init(|| {
        let mut v = vec![];
        for k in KINDS {
            let prot = crate::cbor::Wrapped::new(Item::Map(vec![(Item::Int(1), Item::Int(-7))]));
            v.push(encode(&carrier(k, prot, Item::Map(vec![(Item::Int(4), Item::Bytes(vec![0x31]))]))));
            v.push(encode(&carrier(k, Item::Bytes(vec![]), Item::Map(vec![]))));
        }
        // integers in the bignum spellings the CBOR library does not fold (tag 2 / 3 over an indefinite-length
        // byte string, over a zero-padded 17-byte string) as an opaque header value, as a header label and as the
        // algorithm, in the unprotected header and in the protected one: whatever the untagged decoder makes of
        // them, the tagged decoder makes the same of them
        const PH: i128 = 0x5a5a_a5a5_1234_5678;
        let ph = encode(&Item::Int(PH));
        let spellings: [&[u8]; 4] = [&[0xc2, 0x5f, 0x41, 0x01, 0xff], &[0xc3, 0x5f, 0x41, 0x06, 0xff], &[0xc2, 0x51, 0, 0, 0, 0, 0, 0, 0, 0, 0, 0, 0, 0, 0, 0, 0, 0, 0x01], &[0xc2, 0x5f, 0x41, 0x01, 0x40, 0xff]];
        for k in [Kind::Sign1, Kind::Mac] {
            for (pos, hdr) in [
                Item::Map(vec![(Item::Int(100), Item::Int(PH))]),
                Item::Map(vec![(Item::Int(PH), Item::Null)]),
                Item::Map(vec![(Item::Int(1), Item::Int(PH))]),
                Item::Map(vec![(Item::Int(100), Item::Array(vec![Item::Map(vec![(Item::Int(PH), Item::Int(PH))])]))]),
            ]
            .into_iter()
            .enumerate()
            {
                for sp in spellings {
                    for protected in [false, true] {
                        if protected && pos != 0 {
                            continue;
                        }
                        let body = if protected { carrier(k, crate::cbor::Wrapped::new(hdr.clone()), Item::Map(vec![])) } else { carrier(k, Item::Bytes(vec![]), hdr.clone()) };
                        let mut b = encode(&body);
                        // splice the spelling over every placeholder (lengths of enclosing byte strings are
                        // short-form here, so a protected wrapper's length byte is fixed up by hand)
                        let mut out = vec![];
                        let mut i = 0;
                        let mut n = 0;
                        while i < b.len() {
                            if b[i..].starts_with(&ph) {
                                out.extend_from_slice(sp);
                                i += ph.len();
                                n += 1;
                            } else {
                                out.push(b[i]);
                                i += 1;
                            }
                        }
                        if protected {
                            // [0] array head, [1] bstr head (short form: content < 24 bytes either way)
                            let delta = n * sp.len() as isize - n * ph.len() as isize;
                            let new_len = (b[1] & 0x1f) as isize + delta;
                            if !(0..24).contains(&new_len) {
                                continue;
                            }
                            out[1] = 0x40 | new_len as u8;
                        }
                        b = out;
                        v.push(b);
                    }
                }
            }
        }
        v.push(encode(&Item::Int(0)));
        v.push(encode(&Item::Array(vec![])));
        v.push(encode(&Item::Map(vec![])));
        v.push(encode(&Item::Bytes(vec![0x84, 0x40, 0xa0, 0xf6, 0x40])));
        v
    })
}

fn tag_bytes(n: u64, w: u8, body: &[u8]) -> Option<Vec<u8>> {
    if w < min_width(n) {
        return None;
    }
    let mut out = vec![];
    head_w(&mut out, 6, n, w);
    out.extend_from_slice(body);
    Some(out)
}

/// Split a leading tag head off `b`: (tag number, head width, rest).
fn peel_tag(b: &[u8]) -> Option<(u64, u8, &[u8])> {
    let first = *b.first()?;
    if first >> 5 != 6 {
        return None;
    }
    let w: u8 = match first & 31 {
        0..=23 => 0,
        24 => 1,
        25 => 2,
        26 => 4,
        27 => 8,
        _ => return None,
    };
    let arg = b.get(1..1 + w as usize)?;
    let n = if w == 0 { (first & 31) as u64 } else { arg.iter().fold(0u64, |a, x| (a << 8) | *x as u64) };
    Some((n, w, &b[1 + w as usize..]))
}

/// All claims of the statement for one (type, outer tag layers, body).
fn check(t: &Ty, tags: &[(u64, u8)], body: &[u8], ctx: &mut Ctx) -> CaseResult {
    // a generated body may itself start with tag heads (the generators' "tagged where untagged is
    // expected" fault): they belong to the tag layers, not to the body
    let mut tags = tags.to_vec();
    let mut body = body;
    while let Some((n, w, rest)) = peel_tag(body) {
        tags.push((n, w));
        body = rest;
    }
    let tags = &tags[..];
    // x = tags applied outermost-first to body
    let mut x = body.to_vec();
    for (n, w) in tags.iter().rev() {
        x = match tag_bytes(*n, *w, &x) {
            Some(b) => b,
            None => {
                ctx.evals = 0;
                return Ok(());
            }
        };
    }
    let body_ok = (t.untagged)(body);
    let name = t.kind.name();
    let descr = || format!("{} with tags {:?} over body {}", name, tags, hex_trunc(body, 40));
    // tagged decoding
    let got = (t.tagged)(&x);
    let should = tags.len() == 1 && tags[0].0 == t.tag && body_ok.is_ok();
    match (&got, should) {
        (Ok(v), true) => ensure!(Some(v) == body_ok.as_ref().ok(), "tagged decoding yields a different value from untagged decoding of the body: {}", descr()),
        (Ok(_), false) => fail!("from_tagged_slice accepted input that is not the registered tag {} applied once to an acceptable body: {}", t.tag, descr()),
        (Err(e), true) => fail!("from_tagged_slice rejected ({:?}) the registered tag applied once to an acceptable body: {}", e, descr()),
        (Err(_), false) => {}
    }
    // untagged decoding rejects every tagged item
    if !tags.is_empty() {
        if let Ok(_) = (t.untagged)(&x) {
            fail!("from_slice accepted a tagged item: {}", descr());
        }
    }
    // tagged encoding = minimal tag head || untagged encoding
    if tags.is_empty() {
        if let Some((plain, tagged)) = (t.both)(body) {
            let plain = plain.map_err(|e| format!("{}: decoded value failed to encode: {:?}", name, e))?;
            let tagged = tagged.map_err(|e| format!("{}: decoded value failed to encode tagged: {:?}", name, e))?;
            let mut want = vec![];
            head(&mut want, 6, t.tag);
            want.extend_from_slice(&plain);
            ensure!(tagged == want, "{}: to_tagged_vec = {} but tag {} applied once to to_vec is {}", name, hex_trunc(&tagged, 60), t.tag, hex_trunc(&want, 60));
            // and it round-trips through the tagged decoder, not through any other type's
            ensure!((t.tagged)(&tagged).is_ok(), "{}: from_tagged_slice rejects to_tagged_vec output", name);
            for o in types() {
                if o.kind != t.kind {
                    ensure!((o.tagged)(&tagged).is_err(), "bytes tagged for {} accepted as {}", name, o.kind.name());
                }
            }
        }
    }
    if body_ok.is_ok() {
        ctx.nontrivial(hash_bytes(&[name.as_bytes(), &x[..]].concat()));
        ctx.sample_with(|| format!("{} <- {}", name, descr()));
    }
    Ok(())
}

/// Total encoded lengths of the untagged body around which the tagged / untagged correspondence is
/// probed (a size limit applied to one form and not, or differently, to the other shows only there).
const LENGTHS: [usize; 4] = [1 << 8, 1 << 16, 1 << 20, 1 << 24];
const DELTAS: [i64; 7] = [-3, -2, -1, 0, 1, 2, 3];

/// A valid body of `kind` whose untagged encoding is exactly `total` bytes long (the payload /
/// ciphertext byte string takes up the slack).
fn body_of_length(kind: Kind, total: usize) -> Option<Vec<u8>> {
    let make = |p: usize| -> Vec<u8> {
        let content = Item::Bytes(vec![0x5a; p]);
        let prot = crate::cbor::Wrapped::new(Item::Map(vec![(Item::Int(1), Item::Int(-7))]));
        let mut v = vec![prot, Item::Map(vec![(Item::Int(4), Item::Bytes(vec![0x31]))]), content];
        match kind {
            Kind::Sign1 | Kind::Mac0 => v.push(Item::Bytes(vec![0x51])),
            Kind::Sign => v.push(Item::Array(vec![Item::Array(vec![Item::Bytes(vec![]), Item::Map(vec![]), Item::Bytes(vec![0x52])])])),
            Kind::Mac => {
                v.push(Item::Bytes(vec![0x51]));
                v.push(Item::Array(vec![Item::Array(vec![Item::Bytes(vec![]), Item::Map(vec![]), Item::Null])]));
            }
            Kind::Encrypt => v.push(Item::Array(vec![Item::Array(vec![Item::Bytes(vec![]), Item::Map(vec![]), Item::Null])])),
            _ => {}
        }
        encode(&Item::Array(v))
    };
    let base = make(0).len();
    let mut p = total.checked_sub(base)?;
    for _ in 0..4 {
        let len = make(p).len();
        if len == total {
            return Some(make(p));
        }
        p = (p + total).checked_sub(len)?;
    }
    None
}

fn exh_sizes() -> [u64; 4] {
    let nt = types().len() as u64;
    let np = palette().len() as u64;
    let ntag = TAGS.len() as u64;
    let nall = tags_all().len() as u64;
    let nw = WIDTHS.len() as u64;
    [nt * np * nall * nw, nt * np * ntag * ntag, nt * np, nt * (LENGTHS.len() * DELTAS.len()) as u64]
}

fn exh_count(_t: Tier) -> u64 {
    exh_sizes().iter().sum()
}

fn exh_case(idx: u64, ctx: &mut Ctx) -> CaseResult {
    let (seg, mut i) = segment(idx, &exh_sizes()).ok_or("index out of range")?;
    let nt = types().len() as u64;
    if seg == 3 {
        let t = &types()[(i % nt) as usize];
        i /= nt;
        let total = (LENGTHS[(i as usize) / DELTAS.len()] as i64 + DELTAS[(i as usize) % DELTAS.len()]) as usize;
        let body = match body_of_length(t.kind, total) {
            Some(b) => b,
            None => return Ok(()),
        };
        ctx.classf(format!("exh:total-length:2^{}", (total + 4).ilog2()));
        for w in [min_width(t.tag), 2, 8] {
            check(t, &[(t.tag, w)], &body, ctx)?;
        }
        check(t, &[(if t.tag == 18 { 17 } else { 18 }, 0)], &body, ctx)?;
        return check(t, &[], &body, ctx);
    }
    let np = palette().len() as u64;
    let ntag = TAGS.len() as u64;
    let nw = WIDTHS.len() as u64;
    let t = &types()[(i % nt) as usize];
    i /= nt;
    let body = &palette()[(i % np) as usize];
    i /= np;
    match seg {
        0 => {
            let nall = tags_all().len() as u64;
            let n = tags_all()[(i % nall) as usize];
            let w = WIDTHS[((i / nall) % nw) as usize];
            ctx.class("exh:single-tag");
            check(t, &[(n, w)], body, ctx)
        }
        1 => {
            let n1 = TAGS[(i % ntag) as usize];
            let n2 = TAGS[((i / ntag) % ntag) as usize];
            ctx.class("exh:double-tag");
            check(t, &[(n1, 0), (n2, 0)], body, ctx)
        }
        _ => {
            ctx.class("exh:untagged");
            check(t, &[], body, ctx)
        }
    }
}

/// Bodies nested right at the CBOR parser's recursion limit, behind the registered tag, a wrong
/// tag, no tag, or a *non-tag* head whose argument equals the tag number (array / map / string /
/// integer head): only the registered tag makes a tagged form.
fn limit_case(g: &mut Gen, ctx: &mut Ctx) -> CaseResult {
    let t = &types()[g.below(types().len())];
    let d = 246 + g.below(14);
    let body_at = |d: usize| -> Vec<u8> {
        let mut hdr = vec![0xa1, 0x18, 0x63];
        hdr.extend(std::iter::repeat(0x81u8).take(d));
        hdr.push(0x00);
        let mut b: Vec<u8> = match t.kind {
            Kind::Mac => vec![0x85, 0x40],
            Kind::Encrypt0 => vec![0x83, 0x40],
            _ => vec![0x84, 0x40],
        };
        b.extend_from_slice(&hdr);
        match t.kind {
            Kind::Sign1 | Kind::Mac0 => b.extend_from_slice(&[0xf6, 0x40]),
            Kind::Encrypt0 => b.push(0xf6),
            Kind::Sign => b.extend_from_slice(&[0xf6, 0x81, 0x83, 0x40, 0xa0, 0x40]),
            Kind::Mac => b.extend_from_slice(&[0xf6, 0x40, 0x81, 0x83, 0x40, 0xa0, 0xf6]),
            _ => b.extend_from_slice(&[0xf6, 0x81, 0x83, 0x40, 0xa0, 0xf6]),
        }
        b
    };
    let body = body_at(d);
    let ok_untagged = (t.untagged)(&body).is_ok();
    let with_head = |major: u8, n: u64| -> Vec<u8> {
        let mut x = vec![];
        head(&mut x, major, n);
        x.extend_from_slice(&body);
        x
    };
    ctx.classf(format!("limit:{}:{}", d, if ok_untagged { "accepted-untagged" } else { "rejected-untagged" }));
    ctx.nontrivial(hash_bytes(&[t.kind.name().as_bytes(), &[d as u8]].concat()));
    ctx.sample_with(|| format!("{} body nested {} deep ({} untagged)", t.kind.name(), d, if ok_untagged { "accepted" } else { "rejected" }));
    // encode direction at the limit: whatever value the untagged decoder hands out, its tagged
    // encoding is the registered tag applied once to its untagged encoding
    if let Some((plain, tagged)) = (t.both)(&body) {
        let mut want = vec![];
        head(&mut want, 6, t.tag);
        match (plain, tagged) {
            (Ok(p), Ok(tg)) => {
                want.extend_from_slice(&p);
                ensure!(tg == want, "{}: to_tagged_vec of a decoded value nested {} deep is not the tag applied to to_vec: {} vs {}", t.kind.name(), d, hex_trunc(&tg, 16), hex_trunc(&want, 16));
            }
            (Ok(_), Err(e)) => fail!("{}: to_vec of a decoded value nested {} deep succeeds but to_tagged_vec fails ({:?}): the tagged encoding is not the tag applied to the untagged encoding", t.kind.name(), d, e),
            (Err(e), Ok(_)) => fail!("{}: to_tagged_vec of a decoded value nested {} deep succeeds but to_vec fails ({:?})", t.kind.name(), d, e),
            (Err(_), Err(_)) => {}
        }
    }
    // no tag, a wrong tag, non-tag heads carrying the tag number
    ensure!((t.tagged)(&body).is_err(), "from_tagged_slice accepted an untagged body nested {} deep", d);
    for (what, x) in [
        ("a wrong tag", with_head(6, if t.tag == 18 { 17 } else { 18 })),
        ("an array head whose length is the tag number", with_head(4, t.tag)),
        ("a map head whose size is the tag number", with_head(5, t.tag)),
        ("a byte-string head whose length is the tag number", with_head(2, t.tag)),
        ("the tag number as an integer", with_head(0, t.tag)),
    ] {
        if let Ok(v) = (t.tagged)(&x) {
            fail!("from_tagged_slice accepted {} followed by a {} body nested {} deep: {} -> {}", what, t.kind.name(), d, hex_trunc(&x, 12), short(&v, 80));
        }
        ensure!((t.untagged)(&x).is_err(), "from_slice accepted {} followed by a body nested {} deep", what, d);
    }
    // the registered tag (minimal and wide head)
    for w in [min_width(t.tag), 2, 8] {
        let x = match tag_bytes(t.tag, w, &body) {
            Some(x) => x,
            None => continue,
        };
        match ((t.tagged)(&x), ok_untagged) {
            (Ok(_), true) | (Err(_), false) => {}
            (Ok(_), false) => fail!("from_tagged_slice accepted the tag applied to a body (nested {} deep) that from_slice rejects", d),
            (Err(e), true) => {
                // the tag itself takes one level of the parser's recursion budget: a body nested to the
                // very limit is accepted untagged and refused tagged
                let msg = format!("from_tagged_slice rejects ({:?}) the registered tag applied once to a body nested {} deep that from_slice accepts", e, d);
                // (input shape of the known finding: tag + array + header map + 254 arrays = 257 levels)
                if d == 254 {
                    ctx.known("tagged-decode:body-nested-to-the-parser-recursion-limit", "tagged form of a body nested to the CBOR parser's recursion limit is refused").map_err(|_| msg)?;
                } else {
                    return Err(msg);
                }
            }
        }
    }
    Ok(())
}

/// Ill-formed "tag heads" (the reserved additional-information values 28-30 and 31 of major type
/// 6, with every plausible argument width, the argument ending in the registered tag number) in
/// front of a valid body: not CBOR, hence not a tagged form.
fn malformed_head_case(g: &mut Gen, ctx: &mut Ctx) -> CaseResult {
    let t = &types()[g.below(types().len())];
    let body = &palette()[(t.kind as usize * 2 + g.below(2)) % palette().len()];
    let first = *g.pick(&[0xdcu8, 0xdd, 0xde, 0xdf]);
    let width = *g.pick(&[0usize, 1, 2, 4, 8, 16, 32, 64]);
    let mut arg = g.bytes(width);
    let tb = t.tag.to_be_bytes();
    // the argument ends in the tag number (as many of its low-order bytes as fit)
    let k = width.min(8);
    let alen = arg.len();
    arg[alen - k..].copy_from_slice(&tb[8 - k..]);
    let mut x = vec![first];
    x.extend_from_slice(&arg);
    x.extend_from_slice(body);
    ctx.class("malformed-tag-head");
    ctx.nontrivial(hash_bytes(&[t.kind.name().as_bytes(), &x].concat()));
    ctx.sample_with(|| format!("{} <- ill-formed head {}", t.kind.name(), hex_trunc(&x, 24)));
    if let Ok(v) = (t.tagged)(&x) {
        fail!("from_tagged_slice accepted input that is not well-formed CBOR (reserved tag head {:02x} with a {}-byte argument): {} -> {}", first, width, hex_trunc(&x, 40), short(&v, 80));
    }
    ensure!((t.untagged)(&x).is_err(), "from_slice accepted input that is not well-formed CBOR: {}", hex_trunc(&x, 40));
    Ok(())
}

fn case(g: &mut Gen, ctx: &mut Ctx) -> CaseResult {
    if g.ratio(1, 20) {
        return limit_case(g, ctx);
    }
    if g.ratio(1, 20) {
        return malformed_head_case(g, ctx);
    }
    let t = &types()[g.below(types().len())];
    let ntags = g.weighted(&[2, 6, 2, 1]);
    let mut tags = vec![];
    for _ in 0..ntags {
        let n = match g.weighted(&[4, 3, 2]) {
            0 => t.tag,
            1 => *g.pick(tags_all()),
            _ => {
                // random, often an alias of the registered tag under truncation
                if g.bool() {
                    t.tag.wrapping_add(g.u64() << *g.pick(&[8u32, 16, 32, 48]))
                } else {
                    g.u64()
                }
            }
        };
        if n == 2 || n == 3 {
            continue;
        }
        let legal: Vec<u8> = WIDTHS.iter().copied().filter(|w| *w >= min_width(n)).collect();
        tags.push((n, *g.pick(&legal)));
    }
    // body: generated as this type's kind (mostly), as another kind, or faulty
    let kind = if g.ratio(2, 3) { t.kind } else { *g.pick(&KINDS) };
    let mut f = if g.ratio(1, 4) { Faults::one() } else { Faults::none() };
    let mut item = gen_msg(g, kind, &mut f, 1);
    if g.ratio(1, 10) {
        // an extra parameter whose (uninterpreted) value is not something a typed decoder would take: a
        // map repeating a key, possibly inside an array or under a tag — tagged and untagged decoding
        // must treat the body alike
        if let Item::Array(slots) = &mut item {
            if let Some(Item::Map(m)) = slots.get_mut(1) {
                let k = Item::Int(g.range_i64(-3, 3) as i128);
                let dup = Item::Map(vec![(k.clone(), Item::Int(2)), (Item::Text("x".into()), Item::Null), (k, Item::Int(3))]);
                let v = match g.below(3) {
                    0 => dup,
                    1 => Item::Array(vec![Item::Int(0), dup]),
                    _ => Item::Tag(1000, Box::new(dup)),
                };
                let mut l = 1000;
                while m.iter().any(|(x, _)| x == &Item::Int(l)) {
                    l += 1;
                }
                m.push((Item::Int(l), v));
                ctx.class("gen:opaque-value-with-repeated-key");
            }
        }
    }
    let o = if g.bool() { StyleOpts::NONE } else { StyleOpts::ALL };
    let (body, _) = styled(&item, g, o);
    ctx.classf(format!("gen:tags:{}", tags.len()));
    let _ = diag;
    check(t, &tags, &body, ctx)
}

pub fn property() -> Property {
    Property {
        id: "C14",
        title: "Tagged forms carry exactly the structure's registered CBOR tag",
        rule: "6 taggable types x tag numbers {the six registered, neighbours 15/19/95/99, 0, 1, 24, 61, 255, 256, 55799, 2^32, 2^64-1, and every alias of a registered tag under truncation to 8/16/31/32/63 bits or byte shifts} x every legal tag-head width x a body palette \
               (valid body of each of the 8 structures in two variants, invalid items), all double-tag combinations, and generated bodies/tags; \
               non-trivial = the body is accepted untagged by the type; distinct by (type, full input bytes)",
        assumptions: &["tag table transcribed from RFC 8152 table 1 (98/18/96/16/97/17); tag numbers 2 and 3 are not used (ciborium reads them as bignums)"],
        exhaustive_domains: &["types x palette x tags x head widths (single tag)", "types x palette x tags x tags (double tag)", "types x palette untagged: to_tagged_vec == tag head || to_vec, cross-type rejection"],
        case,
        exh_count,
        exh_case,
        bytes_case: None,
        quick_cases: 200_000,
        thorough_cases: 2_000_000,
        max_tape: 2048,
    }
}

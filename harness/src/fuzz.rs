//! Entry points used by the libFuzzer targets (harness/fuzz): the property's oracle runs
//! in-target; a failure aborts the process so that libFuzzer saves the input.  Known findings are
//! tolerated in-target exactly as in the stable harness.

use crate::run::{catch, install_quiet_panic_hook, Ctx, Property};
use crate::tape::Gen;
use std::sync::OnceLock;

fn prop() -> &'static Property {
    static P: OnceLock<Property> = OnceLock::new();
    P.get_or_init(|| {
        // libfuzzer-sys installs a panic hook that aborts; the oracles rely on catching documented
        // panics, so replace it with the harness' quiet recording hook
        install_quiet_panic_hook();
        let id = std::env::var("VERIF_PROP").unwrap_or_else(|_| "C01".to_string());
        crate::props::find(&id).unwrap_or_else(|| {
            eprintln!("unknown VERIF_PROP {}", id);
            std::process::abort()
        })
    })
}

fn report(kind: &str, msg: &str) -> ! {
    eprintln!("FUZZ-FAILURE property={} kind={} {}", prop().id, kind, msg);
    std::process::abort()
}

pub fn run_bytes(data: &[u8]) {
    let p = prop();
    let f = match p.bytes_case {
        Some(f) => f,
        None => return,
    };
    let mut ctx = Ctx::new(false);
    ctx.quiet = true;
    match catch(|| f(data, &mut ctx)) {
        Ok(Ok(())) => {}
        Ok(Err(m)) => report("bytes", &m),
        Err(p) => report("bytes", &format!("unexpected panic: {}", p)),
    }
}

pub fn run_tape(data: &[u8]) {
    let p = prop();
    if data.len() > p.max_tape {
        return;
    }
    let mut ctx = Ctx::new(false);
    ctx.quiet = true;
    let mut g = Gen::new(data);
    match catch(|| (p.case)(&mut g, &mut ctx)) {
        Ok(Ok(())) => {}
        Ok(Err(m)) => report("tape", &m),
        Err(pn) => report("tape", &format!("unexpected panic: {}", pn)),
    }
}

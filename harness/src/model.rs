//! Reference acceptance models, written from the property statements and RFC 8152 CDDL (not from
//! the code): abstract `Item` -> model value | reject | unknown, plus conversions from coset's
//! public types into the same model values for field-by-field comparison.

use crate::cbor::{head, Item};
use crate::conv::value_to_item;
use crate::registry::{self as reg, Table};
use coset::cwt::{ClaimName, ClaimsSet, Timestamp};
use coset::iana::{EnumI64, WithPrivateRange};
use coset::{
    Algorithm, CoseEncrypt, CoseEncrypt0, CoseKey, CoseKeySet, CoseMac, CoseMac0, CoseRecipient, CoseSign, CoseSign1,
    CoseSignature, Header, Label, Nonce, PartyInfo, ProtectedHeader, RegisteredLabel, RegisteredLabelWithPrivate,
    SuppPubInfo,
};

/// Abstract label.
#[derive(Clone, Debug, PartialEq, Eq, Hash, PartialOrd, Ord)]
pub enum L {
    Int(i64),
    Text(String),
}

impl L {
    /// Own deterministic encoding (RFC 8949 §4.2.1).
    pub fn enc(&self) -> Vec<u8> {
        let mut out = Vec::new();
        match self {
            L::Int(i) => {
                if *i >= 0 {
                    head(&mut out, 0, *i as u64)
                } else {
                    head(&mut out, 1, (-1 - (*i as i128)) as u64)
                }
            }
            L::Text(t) => {
                head(&mut out, 3, t.len() as u64);
                out.extend_from_slice(t.as_bytes());
            }
        }
        out
    }
    pub fn to_label(&self) -> Label {
        match self {
            L::Int(i) => Label::Int(*i),
            L::Text(t) => Label::Text(t.clone()),
        }
    }
    pub fn to_item(&self) -> Item {
        match self {
            L::Int(i) => Item::Int(*i as i128),
            L::Text(t) => Item::Text(t.clone()),
        }
    }
    pub fn short(&self) -> String {
        match self {
            L::Int(i) => format!("{}", i),
            L::Text(t) if t.len() <= 12 => format!("{:?}", t),
            L::Text(t) => {
                let first: String = t.chars().take(3).collect();
                let last: String = t.chars().rev().take(2).collect::<Vec<_>>().into_iter().rev().collect();
                format!("text[{}B {:?}…{:?}]", t.len(), first, last)
            }
        }
    }
    pub fn from_label(l: &Label) -> L {
        match l {
            Label::Int(i) => L::Int(*i),
            Label::Text(t) => L::Text(t.clone()),
        }
    }
}

/// Why a model does not accept.
#[derive(Clone, Debug, PartialEq, Eq)]
pub enum Rej {
    /// the statement requires rejection
    Reject(String),
    /// the statement (or the data-model boundary) leaves the outcome open
    Unknown(String),
}

pub type M<T> = Result<T, Rej>;

fn rej<T>(s: impl Into<String>) -> M<T> {
    Err(Rej::Reject(s.into()))
}

/// Flags accumulated while modelling.
#[derive(Default, Debug, Clone)]
pub struct MCtx {
    /// an empty nested signature/recipient array was seen (C09 leaves acceptance unspecified)
    pub unspecified: bool,
}

// ---------------------------------------------------------------------------------------------
// labels
// ---------------------------------------------------------------------------------------------

/// int (64-bit signed) / tstr
pub fn m_label(i: &Item) -> M<L> {
    match i {
        Item::Int(x) => match i64::try_from(*x) {
            Ok(v) => Ok(L::Int(v)),
            Err(_) => rej("label integer out of 64-bit signed range"),
        },
        Item::Text(t) => Ok(L::Text(t.clone())),
        o => rej(format!("label of kind {}", o.kind())),
    }
}

/// registered int / tstr
pub fn m_reg_label(t: Table, i: &Item) -> M<L> {
    match m_label(i)? {
        L::Int(v) if reg::registered(t, v) => Ok(L::Int(v)),
        L::Int(v) => rej(format!("unregistered value {}", v)),
        l => Ok(l),
    }
}

/// registered or private-use int / tstr
pub fn m_reg_label_private(t: Table, i: &Item) -> M<L> {
    match m_label(i)? {
        L::Int(v) if reg::registered(t, v) || reg::is_private(v) => Ok(L::Int(v)),
        L::Int(v) => rej(format!("unregistered non-private value {}", v)),
        l => Ok(l),
    }
}

fn m_bytes(i: &Item) -> M<Vec<u8>> {
    match i {
        Item::Bytes(b) => Ok(b.clone()),
        Item::Wrapped(w) => Ok(w.content()),
        o => rej(format!("expected bstr, got {}", o.kind())),
    }
}

fn m_nonempty_bytes(i: &Item) -> M<Vec<u8>> {
    let b = m_bytes(i)?;
    if b.is_empty() {
        return rej("empty bstr");
    }
    Ok(b)
}

fn m_bytes_or_nil(i: &Item) -> M<Option<Vec<u8>>> {
    match i {
        Item::Null => Ok(None),
        o => Ok(Some(m_bytes(o)?)),
    }
}

/// Unicode White_Space (the statement says "no leading or trailing whitespace").
pub fn is_white_space(c: char) -> bool {
    matches!(c as u32,
        0x09..=0x0d | 0x20 | 0x85 | 0xa0 | 0x1680 | 0x2000..=0x200a | 0x2028 | 0x2029 | 0x202f | 0x205f | 0x3000)
}

// ---------------------------------------------------------------------------------------------
// headers
// ---------------------------------------------------------------------------------------------

#[derive(Clone, Debug, Default, PartialEq)]
pub struct MHeader {
    pub alg: Option<L>,
    pub crit: Vec<L>,
    pub content_type: Option<L>,
    pub key_id: Vec<u8>,
    pub iv: Vec<u8>,
    pub partial_iv: Vec<u8>,
    pub counter_signatures: Vec<MMsg>,
    pub rest: Vec<(L, Item)>,
}

impl MHeader {
    pub fn is_empty(&self) -> bool {
        *self == MHeader::default()
    }
}

#[derive(Clone, Debug, Default, PartialEq)]
pub struct MProtected {
    /// retained wire bytes (None for a header built in memory)
    pub wire: Option<Vec<u8>>,
    pub header: MHeader,
}

/// One shape for all eight message structures; unused fields stay at their defaults.
#[derive(Clone, Debug, Default, PartialEq)]
pub struct MMsg {
    pub protected: MProtected,
    pub unprotected: MHeader,
    /// payload or ciphertext
    pub content: Option<Vec<u8>>,
    /// signature or tag
    pub auth: Vec<u8>,
    /// nested signatures or recipients
    pub nested: Vec<MMsg>,
}

pub fn m_header(i: &Item, mc: &mut MCtx) -> M<MHeader> {
    let m = match i {
        Item::Map(m) => m,
        o => return rej(format!("header is {} not map", o.kind())),
    };
    let mut h = MHeader::default();
    let mut seen: Vec<L> = vec![];
    // labels first: any non-label key or duplicate rejects the map whatever else it holds
    for (k, _) in m {
        let l = m_label(k)?;
        if seen.contains(&l) {
            return rej(format!("duplicate label {}", l.short()));
        }
        seen.push(l);
    }
    let mut errs: Vec<Rej> = vec![];
    for (k, v) in m {
        let l = m_label(k)?;
        if let Err(e) = header_entry(&mut h, l, v, mc) {
            errs.push(e);
        }
    }
    // a definite rejection anywhere wins over an unknown
    if let Some(r) = errs.iter().find(|r| matches!(r, Rej::Reject(_))) {
        return Err(r.clone());
    }
    if !h.iv.is_empty() && !h.partial_iv.is_empty() {
        return rej("both IV and Partial IV");
    }
    if let Some(r) = errs.into_iter().next() {
        return Err(r);
    }
    Ok(h)
}

fn header_entry(h: &mut MHeader, l: L, v: &Item, mc: &mut MCtx) -> M<()> {
    match l {
        L::Int(1) => h.alg = Some(m_reg_label_private(reg::ALGORITHM, v)?),
        L::Int(2) => match v {
            Item::Array(a) if !a.is_empty() => {
                for e in a {
                    h.crit.push(m_reg_label(reg::HEADER_PARAMETER, e)?);
                }
            }
            Item::Array(_) => return rej("empty crit"),
            o => return rej(format!("crit is {}", o.kind())),
        },
        L::Int(3) => {
            let ct = m_reg_label(reg::COAP_CONTENT_FORMAT, v)?;
            if let L::Text(t) = &ct {
                if t.is_empty() {
                    return rej("empty content type");
                }
                if t.matches('/').count() != 1 {
                    return rej("content type without exactly one '/'");
                }
                let first = t.chars().next().unwrap();
                let last = t.chars().last().unwrap();
                if is_white_space(first) || is_white_space(last) {
                    return rej("content type with leading/trailing whitespace");
                }
            }
            h.content_type = Some(ct);
        }
        L::Int(4) => h.key_id = m_nonempty_bytes(v)?,
        L::Int(5) => h.iv = m_nonempty_bytes(v)?,
        L::Int(6) => h.partial_iv = m_nonempty_bytes(v)?,
        L::Int(7) => match v {
            Item::Array(a) if !a.is_empty() => match &a[0] {
                Item::Bytes(_) | Item::Wrapped(_) => h.counter_signatures.push(m_msg(Kind::Signature, v, mc)?),
                Item::Array(_) => {
                    for s in a {
                        h.counter_signatures.push(m_msg(Kind::Signature, s, mc)?);
                    }
                }
                o => return rej(format!("counter signature array starts with {}", o.kind())),
            },
            Item::Array(_) => return rej("empty counter signature array"),
            o => return rej(format!("counter signature is {}", o.kind())),
        },
        other => h.rest.push((other, crate::conv::as_read_by_ciborium(v))),
    }
    Ok(())
}

/// A protected-header slot: a byte string that is empty or exactly one encoded header map.
pub fn m_protected(i: &Item, mc: &mut MCtx) -> M<MProtected> {
    match i {
        Item::Bytes(b) if b.is_empty() => Ok(MProtected { wire: Some(vec![]), header: MHeader::default() }),
        // raw bytes: a header is a map, so content whose first byte is not of major type 5 can
        // never be one (it is another item, or malformed); anything else is left open
        Item::Bytes(b) if b[0] >> 5 != 5 => rej("protected header bytes do not start a map"),
        Item::Bytes(_) => Err(Rej::Unknown("raw non-empty protected bytes are not modelled".into())),
        Item::Wrapped(w) => {
            if w.cut > 0 {
                return rej("protected header bytes are a truncated item");
            }
            if !w.junk.is_empty() {
                return rej("protected header bytes have trailing data");
            }
            let content = w.content();
            if content.is_empty() {
                return Ok(MProtected { wire: Some(vec![]), header: MHeader::default() });
            }
            let h = m_header(&w.inner, mc)?;
            Ok(MProtected { wire: Some(content), header: h })
        }
        o => rej(format!("protected slot is {}", o.kind())),
    }
}

#[derive(Clone, Copy, Debug, PartialEq, Eq, Hash)]
pub enum Kind {
    Signature,
    Sign1,
    Sign,
    Mac,
    Mac0,
    Encrypt,
    Encrypt0,
    Recipient,
}

pub const KINDS: [Kind; 8] =
    [Kind::Signature, Kind::Sign1, Kind::Sign, Kind::Mac, Kind::Mac0, Kind::Encrypt, Kind::Encrypt0, Kind::Recipient];

impl Kind {
    pub fn name(&self) -> &'static str {
        match self {
            Kind::Signature => "COSE_Signature",
            Kind::Sign1 => "COSE_Sign1",
            Kind::Sign => "COSE_Sign",
            Kind::Mac => "COSE_Mac",
            Kind::Mac0 => "COSE_Mac0",
            Kind::Encrypt => "COSE_Encrypt",
            Kind::Encrypt0 => "COSE_Encrypt0",
            Kind::Recipient => "COSE_recipient",
        }
    }
    /// Admissible arities.
    pub fn arities(&self) -> &'static [usize] {
        match self {
            Kind::Signature | Kind::Encrypt0 => &[3],
            Kind::Sign1 | Kind::Sign | Kind::Mac0 | Kind::Encrypt => &[4],
            Kind::Mac => &[5],
            Kind::Recipient => &[3, 4],
        }
    }
    /// The registered CBOR tag (RFC 8152 table 1), for taggable kinds.
    pub fn tag(&self) -> Option<u64> {
        match self {
            Kind::Sign => Some(98),
            Kind::Sign1 => Some(18),
            Kind::Encrypt => Some(96),
            Kind::Encrypt0 => Some(16),
            Kind::Mac => Some(97),
            Kind::Mac0 => Some(17),
            _ => None,
        }
    }
}

fn m_nested(kind: Kind, i: &Item, mc: &mut MCtx) -> M<Vec<MMsg>> {
    match i {
        Item::Array(a) => {
            if a.is_empty() {
                mc.unspecified = true;
            }
            let mut v = vec![];
            for e in a {
                v.push(m_msg(kind, e, mc)?);
            }
            Ok(v)
        }
        o => rej(format!("nested list is {}", o.kind())),
    }
}

/// CDDL of the eight message structures (RFC 8152 §2–§6).
pub fn m_msg(kind: Kind, i: &Item, mc: &mut MCtx) -> M<MMsg> {
    let a = match i {
        Item::Array(a) => a,
        o => return rej(format!("{} is {} not array", kind.name(), o.kind())),
    };
    if !kind.arities().contains(&a.len()) {
        return rej(format!("{} with arity {}", kind.name(), a.len()));
    }
    // Evaluate every slot so that an Unknown in one slot does not hide a definite rejection in
    // another: collect, then report Reject before Unknown.
    let mut msg = MMsg::default();
    let mut results: Vec<Rej> = vec![];
    match m_protected(&a[0], mc) {
        Ok(p) => msg.protected = p,
        Err(e) => results.push(e),
    }
    match m_header(&a[1], mc) {
        Ok(h) => msg.unprotected = h,
        Err(e) => results.push(e),
    }
    let mut slot = |r: M<()>| {
        if let Err(e) = r {
            results.push(e)
        }
    };
    match kind {
        Kind::Signature => slot(m_bytes(&a[2]).map(|b| msg.auth = b)),
        Kind::Sign1 | Kind::Mac0 => {
            slot(m_bytes_or_nil(&a[2]).map(|b| msg.content = b));
            slot(m_bytes(&a[3]).map(|b| msg.auth = b));
        }
        Kind::Sign => {
            slot(m_bytes_or_nil(&a[2]).map(|b| msg.content = b));
            slot(m_nested(Kind::Signature, &a[3], mc).map(|n| msg.nested = n));
        }
        Kind::Mac => {
            slot(m_bytes_or_nil(&a[2]).map(|b| msg.content = b));
            slot(m_bytes(&a[3]).map(|b| msg.auth = b));
            slot(m_nested(Kind::Recipient, &a[4], mc).map(|n| msg.nested = n));
        }
        Kind::Encrypt => {
            slot(m_bytes_or_nil(&a[2]).map(|b| msg.content = b));
            slot(m_nested(Kind::Recipient, &a[3], mc).map(|n| msg.nested = n));
        }
        Kind::Encrypt0 => slot(m_bytes_or_nil(&a[2]).map(|b| msg.content = b)),
        Kind::Recipient => {
            slot(m_bytes_or_nil(&a[2]).map(|b| msg.content = b));
            if a.len() == 4 {
                slot(m_nested(Kind::Recipient, &a[3], mc).map(|n| msg.nested = n));
            }
        }
    }
    if let Some(r) = results.iter().find(|r| matches!(r, Rej::Reject(_))) {
        return Err(r.clone());
    }
    if let Some(r) = results.into_iter().next() {
        return Err(r);
    }
    Ok(msg)
}

// ---------------------------------------------------------------------------------------------
// keys
// ---------------------------------------------------------------------------------------------

#[derive(Clone, Debug, PartialEq)]
pub struct MKey {
    pub kty: L,
    pub key_id: Vec<u8>,
    pub alg: Option<L>,
    /// as a set: sorted, distinct
    pub key_ops: Vec<L>,
    pub base_iv: Vec<u8>,
    pub params: Vec<(L, Item)>,
}

pub fn m_key(i: &Item) -> M<MKey> {
    let m = match i {
        Item::Map(m) => m,
        o => return rej(format!("key is {} not map", o.kind())),
    };
    let mut seen: Vec<L> = vec![];
    for (k, _) in m {
        let l = m_label(k)?;
        if seen.contains(&l) {
            return rej(format!("duplicate label {}", l.short()));
        }
        seen.push(l);
    }
    let mut kty = None;
    let mut key = MKey { kty: L::Int(0), key_id: vec![], alg: None, key_ops: vec![], base_iv: vec![], params: vec![] };
    for (k, v) in m {
        match m_label(k)? {
            L::Int(1) => {
                let t = m_reg_label(reg::KEY_TYPE, v)?;
                if t == L::Int(0) {
                    return rej("reserved key type");
                }
                kty = Some(t);
            }
            L::Int(2) => key.key_id = m_nonempty_bytes(v)?,
            L::Int(3) => key.alg = Some(m_reg_label_private(reg::ALGORITHM, v)?),
            L::Int(4) => match v {
                Item::Array(a) if !a.is_empty() => {
                    for e in a {
                        let op = m_reg_label(reg::KEY_OPERATION, e)?;
                        if key.key_ops.contains(&op) {
                            return rej("repeated key operation");
                        }
                        key.key_ops.push(op);
                    }
                    key.key_ops.sort();
                }
                Item::Array(_) => return rej("empty key_ops"),
                o => return rej(format!("key_ops is {}", o.kind())),
            },
            L::Int(5) => key.base_iv = m_nonempty_bytes(v)?,
            other => key.params.push((other, crate::conv::as_read_by_ciborium(v))),
        }
    }
    match kty {
        Some(t) => key.kty = t,
        None => return rej("no key type"),
    }
    Ok(key)
}

pub fn m_keyset(i: &Item) -> M<Vec<MKey>> {
    match i {
        Item::Array(a) => a.iter().map(m_key).collect(),
        o => rej(format!("key set is {}", o.kind())),
    }
}

// ---------------------------------------------------------------------------------------------
// CWT claims
// ---------------------------------------------------------------------------------------------

#[derive(Clone, Debug, PartialEq)]
pub enum MTime {
    Int(i64),
    Float(Item),
}

#[derive(Clone, Debug, Default, PartialEq)]
pub struct MClaims {
    pub issuer: Option<String>,
    pub subject: Option<String>,
    pub audience: Option<String>,
    pub expiration_time: Option<MTime>,
    pub not_before: Option<MTime>,
    pub issued_at: Option<MTime>,
    pub cwt_id: Option<Vec<u8>>,
    pub rest: Vec<(L, Item)>,
}

fn m_text(i: &Item) -> M<String> {
    match i {
        Item::Text(t) => Ok(t.clone()),
        o => rej(format!("expected tstr, got {}", o.kind())),
    }
}

fn m_time(i: &Item) -> M<MTime> {
    match i {
        Item::Int(x) => match i64::try_from(*x) {
            Ok(v) => Ok(MTime::Int(v)),
            Err(_) => rej("timestamp out of range"),
        },
        Item::Float(f) => Ok(MTime::Float(Item::Float(*f))),
        o => rej(format!("timestamp is {}", o.kind())),
    }
}

pub fn m_claims(i: &Item) -> M<MClaims> {
    let m = match i {
        Item::Map(m) => m,
        o => return rej(format!("claims set is {} not map", o.kind())),
    };
    let mut seen: Vec<L> = vec![];
    for (k, _) in m {
        let l = m_reg_label_private(reg::CWT_CLAIM_NAME, k)?;
        if seen.contains(&l) {
            return rej(format!("duplicate claim {}", l.short()));
        }
        seen.push(l);
    }
    let mut c = MClaims::default();
    for (k, v) in m {
        match m_reg_label_private(reg::CWT_CLAIM_NAME, k)? {
            L::Int(1) => c.issuer = Some(m_text(v)?),
            L::Int(2) => c.subject = Some(m_text(v)?),
            L::Int(3) => c.audience = Some(m_text(v)?),
            L::Int(4) => c.expiration_time = Some(m_time(v)?),
            L::Int(5) => c.not_before = Some(m_time(v)?),
            L::Int(6) => c.issued_at = Some(m_time(v)?),
            L::Int(7) => c.cwt_id = Some(m_bytes(v)?),
            other => c.rest.push((other, crate::conv::as_read_by_ciborium(v))),
        }
    }
    Ok(c)
}

// ---------------------------------------------------------------------------------------------
// KDF context
// ---------------------------------------------------------------------------------------------

#[derive(Clone, Debug, PartialEq)]
pub enum MNonce {
    Bytes(Vec<u8>),
    Int(i64),
}

#[derive(Clone, Debug, Default, PartialEq)]
pub struct MParty {
    pub identity: Option<Vec<u8>>,
    pub nonce: Option<MNonce>,
    pub other: Option<Vec<u8>>,
}

#[derive(Clone, Debug, Default, PartialEq)]
pub struct MSupp {
    pub key_data_length: u64,
    pub protected: MProtected,
    pub other: Option<Vec<u8>>,
}

#[derive(Clone, Debug, PartialEq)]
pub struct MKdf {
    pub alg: L,
    pub u: MParty,
    pub v: MParty,
    pub supp: MSupp,
    pub priv_info: Vec<Vec<u8>>,
}

pub fn m_party(i: &Item) -> M<MParty> {
    let a = match i {
        Item::Array(a) => a,
        o => return rej(format!("party info is {}", o.kind())),
    };
    if a.len() != 3 {
        return rej(format!("party info arity {}", a.len()));
    }
    let identity = m_bytes_or_nil(&a[0])?;
    let nonce = match &a[1] {
        Item::Null => None,
        Item::Int(x) => match i64::try_from(*x) {
            Ok(v) => Some(MNonce::Int(v)),
            Err(_) => return rej("nonce out of range"),
        },
        o => Some(MNonce::Bytes(m_bytes(o)?)),
    };
    let other = m_bytes_or_nil(&a[2])?;
    Ok(MParty { identity, nonce, other })
}

pub fn m_supp(i: &Item, mc: &mut MCtx) -> M<MSupp> {
    let a = match i {
        Item::Array(a) => a,
        o => return rej(format!("supp pub info is {}", o.kind())),
    };
    if a.len() != 2 && a.len() != 3 {
        return rej(format!("supp pub info arity {}", a.len()));
    }
    let kdl = match &a[0] {
        Item::Int(x) => match u64::try_from(*x) {
            Ok(v) => v,
            Err(_) => return rej("key data length not an unsigned 64-bit integer"),
        },
        o => return rej(format!("key data length is {}", o.kind())),
    };
    // evaluate all slots: Reject wins over Unknown
    let p = m_protected(&a[1], mc);
    let other = if a.len() == 3 { Some(m_bytes(&a[2])) } else { None };
    if let Some(Err(e)) = &other {
        return Err(e.clone());
    }
    let protected = p?;
    Ok(MSupp { key_data_length: kdl, protected, other: other.map(|o| o.unwrap()) })
}

pub fn m_kdf(i: &Item, mc: &mut MCtx) -> M<MKdf> {
    let a = match i {
        Item::Array(a) => a,
        o => return rej(format!("KDF context is {}", o.kind())),
    };
    if a.len() < 4 {
        return rej(format!("KDF context arity {}", a.len()));
    }
    let mut priv_info = vec![];
    let mut first_err: Option<Rej> = None;
    for e in &a[4..] {
        match m_bytes(e) {
            Ok(b) => priv_info.push(b),
            Err(e) => first_err = first_err.or(Some(e)),
        }
    }
    let alg = m_reg_label_private(reg::ALGORITHM, &a[0]);
    let u = m_party(&a[1]);
    let v = m_party(&a[2]);
    let supp = m_supp(&a[3], mc);
    for r in [alg.as_ref().err(), u.as_ref().err(), v.as_ref().err(), supp.as_ref().err(), first_err.as_ref()] {
        if let Some(Rej::Reject(s)) = r {
            return rej(s.clone());
        }
    }
    Ok(MKdf { alg: alg?, u: u?, v: v?, supp: supp?, priv_info })
}

// ---------------------------------------------------------------------------------------------
// coset values -> model values (through public fields only)
// ---------------------------------------------------------------------------------------------

pub fn reg_label_to_l<T: EnumI64>(t: Table, l: &RegisteredLabel<T>) -> Result<L, String> {
    match l {
        RegisteredLabel::Assigned(a) => {
            let v = a.to_i64();
            if !reg::registered(t, v) {
                return Err(format!("Assigned variant with value {} that the registry table does not list", v));
            }
            Ok(L::Int(v))
        }
        RegisteredLabel::Text(s) => Ok(L::Text(s.clone())),
    }
}

pub fn reg_label_private_to_l<T: EnumI64 + WithPrivateRange>(
    t: Table,
    l: &RegisteredLabelWithPrivate<T>,
) -> Result<L, String> {
    match l {
        RegisteredLabelWithPrivate::Assigned(a) => {
            let v = a.to_i64();
            if !reg::registered(t, v) {
                return Err(format!("Assigned variant with value {} that the registry table does not list", v));
            }
            Ok(L::Int(v))
        }
        RegisteredLabelWithPrivate::PrivateUse(v) => {
            if reg::registered(t, *v) {
                return Err(format!("registered value {} classified as PrivateUse", v));
            }
            if !reg::is_private(*v) {
                return Err(format!("value {} outside the private-use range classified as PrivateUse", v));
            }
            Ok(L::Int(*v))
        }
        RegisteredLabelWithPrivate::Text(s) => Ok(L::Text(s.clone())),
    }
}

pub fn alg_to_l(a: &Algorithm) -> Result<L, String> {
    reg_label_private_to_l(reg::ALGORITHM, a)
}

pub fn header_to_model(h: &Header) -> Result<MHeader, String> {
    Ok(MHeader {
        alg: match &h.alg {
            Some(a) => Some(alg_to_l(a)?),
            None => None,
        },
        crit: h.crit.iter().map(|c| reg_label_to_l(reg::HEADER_PARAMETER, c)).collect::<Result<_, _>>()?,
        content_type: match &h.content_type {
            Some(c) => Some(reg_label_to_l(reg::COAP_CONTENT_FORMAT, c)?),
            None => None,
        },
        key_id: h.key_id.clone(),
        iv: h.iv.clone(),
        partial_iv: h.partial_iv.clone(),
        counter_signatures: h.counter_signatures.iter().map(signature_to_model).collect::<Result<_, _>>()?,
        rest: h.rest.iter().map(|(l, v)| (L::from_label(l), value_to_item(v))).collect(),
    })
}

pub fn protected_to_model(p: &ProtectedHeader) -> Result<MProtected, String> {
    Ok(MProtected { wire: p.original_data.clone(), header: header_to_model(&p.header)? })
}

pub fn signature_to_model(s: &CoseSignature) -> Result<MMsg, String> {
    Ok(MMsg {
        protected: protected_to_model(&s.protected)?,
        unprotected: header_to_model(&s.unprotected)?,
        content: None,
        auth: s.signature.clone(),
        nested: vec![],
    })
}

pub fn sign1_to_model(s: &CoseSign1) -> Result<MMsg, String> {
    Ok(MMsg {
        protected: protected_to_model(&s.protected)?,
        unprotected: header_to_model(&s.unprotected)?,
        content: s.payload.clone(),
        auth: s.signature.clone(),
        nested: vec![],
    })
}

pub fn sign_to_model(s: &CoseSign) -> Result<MMsg, String> {
    Ok(MMsg {
        protected: protected_to_model(&s.protected)?,
        unprotected: header_to_model(&s.unprotected)?,
        content: s.payload.clone(),
        auth: vec![],
        nested: s.signatures.iter().map(signature_to_model).collect::<Result<_, _>>()?,
    })
}

pub fn recipient_to_model(s: &CoseRecipient) -> Result<MMsg, String> {
    Ok(MMsg {
        protected: protected_to_model(&s.protected)?,
        unprotected: header_to_model(&s.unprotected)?,
        content: s.ciphertext.clone(),
        auth: vec![],
        nested: s.recipients.iter().map(recipient_to_model).collect::<Result<_, _>>()?,
    })
}

pub fn mac_to_model(s: &CoseMac) -> Result<MMsg, String> {
    Ok(MMsg {
        protected: protected_to_model(&s.protected)?,
        unprotected: header_to_model(&s.unprotected)?,
        content: s.payload.clone(),
        auth: s.tag.clone(),
        nested: s.recipients.iter().map(recipient_to_model).collect::<Result<_, _>>()?,
    })
}

pub fn mac0_to_model(s: &CoseMac0) -> Result<MMsg, String> {
    Ok(MMsg {
        protected: protected_to_model(&s.protected)?,
        unprotected: header_to_model(&s.unprotected)?,
        content: s.payload.clone(),
        auth: s.tag.clone(),
        nested: vec![],
    })
}

pub fn encrypt_to_model(s: &CoseEncrypt) -> Result<MMsg, String> {
    Ok(MMsg {
        protected: protected_to_model(&s.protected)?,
        unprotected: header_to_model(&s.unprotected)?,
        content: s.ciphertext.clone(),
        auth: vec![],
        nested: s.recipients.iter().map(recipient_to_model).collect::<Result<_, _>>()?,
    })
}

pub fn encrypt0_to_model(s: &CoseEncrypt0) -> Result<MMsg, String> {
    Ok(MMsg {
        protected: protected_to_model(&s.protected)?,
        unprotected: header_to_model(&s.unprotected)?,
        content: s.ciphertext.clone(),
        auth: vec![],
        nested: vec![],
    })
}

pub fn key_to_model(k: &CoseKey) -> Result<MKey, String> {
    let mut ops: Vec<L> = k.key_ops.iter().map(|o| reg_label_to_l(reg::KEY_OPERATION, o)).collect::<Result<_, _>>()?;
    ops.sort();
    Ok(MKey {
        kty: reg_label_to_l(reg::KEY_TYPE, &k.kty)?,
        key_id: k.key_id.clone(),
        alg: match &k.alg {
            Some(a) => Some(alg_to_l(a)?),
            None => None,
        },
        key_ops: ops,
        base_iv: k.base_iv.clone(),
        params: k.params.iter().map(|(l, v)| (L::from_label(l), value_to_item(v))).collect(),
    })
}

pub fn keyset_to_model(k: &CoseKeySet) -> Result<Vec<MKey>, String> {
    k.0.iter().map(key_to_model).collect()
}

fn time_to_model(t: &Timestamp) -> MTime {
    match t {
        Timestamp::WholeSeconds(i) => MTime::Int(*i),
        Timestamp::FractionalSeconds(f) => MTime::Float(Item::Float(*f)),
    }
}

pub fn claim_name_to_l(n: &ClaimName) -> Result<L, String> {
    reg_label_private_to_l(reg::CWT_CLAIM_NAME, n)
}

pub fn claims_to_model(c: &ClaimsSet) -> Result<MClaims, String> {
    Ok(MClaims {
        issuer: c.issuer.clone(),
        subject: c.subject.clone(),
        audience: c.audience.clone(),
        expiration_time: c.expiration_time.as_ref().map(time_to_model),
        not_before: c.not_before.as_ref().map(time_to_model),
        issued_at: c.issued_at.as_ref().map(time_to_model),
        cwt_id: c.cwt_id.clone(),
        rest: c
            .rest
            .iter()
            .map(|(n, v)| Ok((claim_name_to_l(n)?, value_to_item(v))))
            .collect::<Result<_, String>>()?,
    })
}

pub fn party_to_model(p: &PartyInfo) -> MParty {
    MParty {
        identity: p.identity.clone(),
        nonce: p.nonce.as_ref().map(|n| match n {
            Nonce::Bytes(b) => MNonce::Bytes(b.clone()),
            Nonce::Integer(i) => MNonce::Int(*i),
        }),
        other: p.other.clone(),
    }
}

pub fn supp_to_model(s: &SuppPubInfo) -> Result<MSupp, String> {
    Ok(MSupp { key_data_length: s.key_data_length, protected: protected_to_model(&s.protected)?, other: s.other.clone() })
}

// ---------------------------------------------------------------------------------------------
// model values -> coset values (struct literals only; used to build in-memory values)
// ---------------------------------------------------------------------------------------------

pub fn l_to_reg<T: EnumI64>(l: &L) -> Option<RegisteredLabel<T>> {
    match l {
        L::Int(i) => T::from_i64(*i).map(RegisteredLabel::Assigned),
        L::Text(t) => Some(RegisteredLabel::Text(t.clone())),
    }
}

pub fn l_to_reg_private<T: EnumI64 + WithPrivateRange>(l: &L) -> Option<RegisteredLabelWithPrivate<T>> {
    match l {
        L::Int(i) => match T::from_i64(*i) {
            Some(a) => Some(RegisteredLabelWithPrivate::Assigned(a)),
            None if reg::is_private(*i) => Some(RegisteredLabelWithPrivate::PrivateUse(*i)),
            None => None,
        },
        L::Text(t) => Some(RegisteredLabelWithPrivate::Text(t.clone())),
    }
}

/// Build the in-memory `Header` denoted by a model header.  None if the model value has no
/// in-memory counterpart (a registered value the crate's enum lacks — itself a C17 matter).
pub fn model_to_header(m: &MHeader) -> Option<Header> {
    Some(Header {
        alg: match &m.alg {
            Some(a) => Some(l_to_reg_private(a)?),
            None => None,
        },
        crit: m.crit.iter().map(l_to_reg).collect::<Option<_>>()?,
        content_type: match &m.content_type {
            Some(c) => Some(l_to_reg(c)?),
            None => None,
        },
        key_id: m.key_id.clone(),
        iv: m.iv.clone(),
        partial_iv: m.partial_iv.clone(),
        counter_signatures: m.counter_signatures.iter().map(model_to_signature).collect::<Option<_>>()?,
        rest: m.rest.iter().map(|(l, v)| Some((l.to_label(), crate::conv::item_to_value(v)?))).collect::<Option<_>>()?,
    })
}

pub fn model_to_protected(m: &MProtected) -> Option<ProtectedHeader> {
    Some(ProtectedHeader { original_data: m.wire.clone(), header: model_to_header(&m.header)? })
}

pub fn model_to_signature(m: &MMsg) -> Option<CoseSignature> {
    Some(CoseSignature {
        protected: model_to_protected(&m.protected)?,
        unprotected: model_to_header(&m.unprotected)?,
        signature: m.auth.clone(),
    })
}

pub fn model_to_sign1(m: &MMsg) -> Option<CoseSign1> {
    Some(CoseSign1 {
        protected: model_to_protected(&m.protected)?,
        unprotected: model_to_header(&m.unprotected)?,
        payload: m.content.clone(),
        signature: m.auth.clone(),
    })
}

pub fn model_to_sign(m: &MMsg) -> Option<CoseSign> {
    Some(CoseSign {
        protected: model_to_protected(&m.protected)?,
        unprotected: model_to_header(&m.unprotected)?,
        payload: m.content.clone(),
        signatures: m.nested.iter().map(model_to_signature).collect::<Option<_>>()?,
    })
}

pub fn model_to_recipient(m: &MMsg) -> Option<CoseRecipient> {
    Some(CoseRecipient {
        protected: model_to_protected(&m.protected)?,
        unprotected: model_to_header(&m.unprotected)?,
        ciphertext: m.content.clone(),
        recipients: m.nested.iter().map(model_to_recipient).collect::<Option<_>>()?,
    })
}

pub fn model_to_mac(m: &MMsg) -> Option<CoseMac> {
    Some(CoseMac {
        protected: model_to_protected(&m.protected)?,
        unprotected: model_to_header(&m.unprotected)?,
        payload: m.content.clone(),
        tag: m.auth.clone(),
        recipients: m.nested.iter().map(model_to_recipient).collect::<Option<_>>()?,
    })
}

pub fn model_to_mac0(m: &MMsg) -> Option<CoseMac0> {
    Some(CoseMac0 {
        protected: model_to_protected(&m.protected)?,
        unprotected: model_to_header(&m.unprotected)?,
        payload: m.content.clone(),
        tag: m.auth.clone(),
    })
}

pub fn model_to_encrypt(m: &MMsg) -> Option<CoseEncrypt> {
    Some(CoseEncrypt {
        protected: model_to_protected(&m.protected)?,
        unprotected: model_to_header(&m.unprotected)?,
        ciphertext: m.content.clone(),
        recipients: m.nested.iter().map(model_to_recipient).collect::<Option<_>>()?,
    })
}

pub fn model_to_encrypt0(m: &MMsg) -> Option<CoseEncrypt0> {
    Some(CoseEncrypt0 {
        protected: model_to_protected(&m.protected)?,
        unprotected: model_to_header(&m.unprotected)?,
        ciphertext: m.content.clone(),
    })
}

pub fn model_to_key(m: &MKey) -> Option<CoseKey> {
    Some(CoseKey {
        kty: l_to_reg(&m.kty)?,
        key_id: m.key_id.clone(),
        alg: match &m.alg {
            Some(a) => Some(l_to_reg_private(a)?),
            None => None,
        },
        key_ops: m.key_ops.iter().map(l_to_reg).collect::<Option<_>>()?,
        base_iv: m.base_iv.clone(),
        params: m.params.iter().map(|(l, v)| Some((l.to_label(), crate::conv::item_to_value(v)?))).collect::<Option<_>>()?,
    })
}

fn model_to_time(t: &MTime) -> Timestamp {
    match t {
        MTime::Int(i) => Timestamp::WholeSeconds(*i),
        MTime::Float(Item::Float(f)) => Timestamp::FractionalSeconds(*f),
        MTime::Float(_) => Timestamp::FractionalSeconds(0.0),
    }
}

pub fn model_to_claims(m: &MClaims) -> Option<ClaimsSet> {
    Some(ClaimsSet {
        issuer: m.issuer.clone(),
        subject: m.subject.clone(),
        audience: m.audience.clone(),
        expiration_time: m.expiration_time.as_ref().map(model_to_time),
        not_before: m.not_before.as_ref().map(model_to_time),
        issued_at: m.issued_at.as_ref().map(model_to_time),
        cwt_id: m.cwt_id.clone(),
        rest: m
            .rest
            .iter()
            .map(|(l, v)| Some((l_to_reg_private(l)?, crate::conv::item_to_value(v)?)))
            .collect::<Option<_>>()?,
    })
}

pub fn model_to_party(m: &MParty) -> PartyInfo {
    PartyInfo {
        identity: m.identity.clone(),
        nonce: m.nonce.as_ref().map(|n| match n {
            MNonce::Bytes(b) => Nonce::Bytes(b.clone()),
            MNonce::Int(i) => Nonce::Integer(*i),
        }),
        other: m.other.clone(),
    }
}

pub fn model_to_supp(m: &MSupp) -> Option<SuppPubInfo> {
    Some(SuppPubInfo {
        key_data_length: m.key_data_length,
        protected: model_to_protected(&m.protected)?,
        other: m.other.clone(),
    })
}

use coset_verif::props;
use coset_verif::run::{self, Tier, WorkerArgs};
use std::path::PathBuf;

fn usage() -> ! {
    eprintln!("usage: harness run <ID> quick|thorough | replay <ID> <file> | one <ID> <kind> <payload> | worker … | list");
    std::process::exit(2)
}

fn main() {
    let args: Vec<String> = std::env::args().collect();
    if args.len() < 2 {
        usage();
    }
    let find = |id: &str| match props::find(id) {
        Some(p) => p,
        None => {
            eprintln!("unknown property {}", id);
            std::process::exit(2)
        }
    };
    let code = match args[1].as_str() {
        "list" => {
            for p in props::all() {
                println!("{} {}", p.id, p.title);
            }
            0
        }
        "run" if args.len() >= 4 => {
            let p = find(&args[2]);
            let tier = Tier::parse(&args[3]).unwrap_or_else(|| usage());
            run::supervisor_main(&p, tier, None)
        }
        "replay" if args.len() >= 4 => {
            let p = find(&args[2]);
            run::replay_main(&p, &PathBuf::from(&args[3]))
        }
        "one" if args.len() >= 5 => {
            let p = find(&args[2]);
            run::one_main(&p, &args[3], &args[4])
        }
        "confirm" if args.len() >= 5 => {
            let p = find(&args[2]);
            run::confirm_main(&p, &args[3], &PathBuf::from(&args[4]))
        }
        "dump-corpus" if args.len() >= 4 => {
            let p = find(&args[2]);
            coset_verif::props::dump_corpus(&p, &PathBuf::from(&args[3]));
            0
        }
        "worker" if args.len() >= 9 => {
            let p = find(&args[2]);
            let tier = Tier::parse(&args[3]).unwrap_or_else(|| usage());
            let journal = if args.len() >= 11 && args[9] == "--journal" { Some(PathBuf::from(&args[10])) } else { None };
            let a = WorkerArgs {
                tier,
                widx: args[4].parse().unwrap(),
                nworkers: args[5].parse().unwrap(),
                seed: args[6].parse().unwrap(),
                out: PathBuf::from(&args[7]),
                cases: args[8].parse().unwrap(),
                journal,
            };
            run::worker_main(&p, &a);
            0
        }
        _ => usage(),
    };
    std::process::exit(code);
}

//! coset-verif: property-based testing / fuzzing harness deciding properties C01–C20 of coset.

#[macro_use]
pub mod run;
pub mod alloc;
pub mod cbor;
pub mod conv;
pub mod registry;
pub mod model;
pub mod gen;
pub mod tape;
pub mod props;
pub mod fuzz;

#[global_allocator]
static GLOBAL: alloc::Counting = alloc::Counting;

//! Counting global allocator: deterministic memory observations without touching /repo.

use std::alloc::{GlobalAlloc, Layout, System};
use std::sync::atomic::{AtomicU64, Ordering::Relaxed};

pub struct Counting;

static LIVE: AtomicU64 = AtomicU64::new(0);
static PEAK: AtomicU64 = AtomicU64::new(0);
static TOTAL: AtomicU64 = AtomicU64::new(0);
static CALLS: AtomicU64 = AtomicU64::new(0);

unsafe impl GlobalAlloc for Counting {
    unsafe fn alloc(&self, l: Layout) -> *mut u8 {
        let p = System.alloc(l);
        if !p.is_null() {
            on_alloc(l.size() as u64);
        }
        p
    }
    unsafe fn dealloc(&self, p: *mut u8, l: Layout) {
        System.dealloc(p, l);
        LIVE.fetch_sub(l.size() as u64, Relaxed);
    }
    unsafe fn realloc(&self, p: *mut u8, l: Layout, new: usize) -> *mut u8 {
        let q = System.realloc(p, l, new);
        if !q.is_null() {
            LIVE.fetch_sub(l.size() as u64, Relaxed);
            on_alloc(new as u64);
        }
        q
    }
}

#[inline]
fn on_alloc(n: u64) {
    let live = LIVE.fetch_add(n, Relaxed) + n;
    TOTAL.fetch_add(n, Relaxed);
    CALLS.fetch_add(1, Relaxed);
    PEAK.fetch_max(live, Relaxed);
}

#[derive(Clone, Copy, Debug)]
pub struct Snapshot {
    pub live: u64,
    pub peak: u64,
    pub total: u64,
    pub calls: u64,
}

/// Start a measurement window: peak is reset to the current live size.
pub fn start() -> Snapshot {
    let live = LIVE.load(Relaxed);
    PEAK.store(live, Relaxed);
    Snapshot { live, peak: live, total: TOTAL.load(Relaxed), calls: CALLS.load(Relaxed) }
}

/// (peak extra live bytes, cumulative bytes allocated, allocation calls) since `s`.
pub fn since(s: &Snapshot) -> (u64, u64, u64) {
    let peak = PEAK.load(Relaxed).saturating_sub(s.live);
    (peak, TOTAL.load(Relaxed) - s.total, CALLS.load(Relaxed) - s.calls)
}

//! Transcription of the IANA registries the crate cites (snapshot dates as in the crate's own
//! documentation: COSE / CBOR tags / CoAP content formats 2021-03-19, CWT claims 2021-10-21) and
//! of RFC 8152 table 4.  Rows are (variant name as exposed by the public enum, integer).  This is
//! part of the trusted base of C14, C15, C17 (no network in the sandbox: it cannot be re-fetched).

use coset::iana::{self, EnumI64, WithPrivateRange};

pub type Table = &'static [(&'static str, i64)];

pub const HEADER_PARAMETER: Table = &[
    ("Reserved", 0),
    ("Alg", 1),
    ("Crit", 2),
    ("ContentType", 3),
    ("Kid", 4),
    ("Iv", 5),
    ("PartialIv", 6),
    ("CounterSignature", 7),
    ("CounterSignature0", 9),
    ("KidContext", 10),
    ("X5Bag", 32),
    ("X5Chain", 33),
    ("X5T", 34),
    ("X5U", 35),
    ("CuphNonce", 256),
    ("CuphOwnerPubKey", 257),
];

pub const HEADER_ALGORITHM_PARAMETER: Table = &[
    ("PartyVOther", -26),
    ("PartyVNonce", -25),
    ("PartyVIdentity", -24),
    ("PartyUOther", -23),
    ("PartyUNonce", -22),
    ("PartyUIdentity", -21),
    ("Salt", -20),
    ("StaticKeyId", -3),
    ("StaticKey", -2),
    ("EphemeralKey", -1),
];

pub const ALGORITHM: Table = &[
    ("RS1", -65535),
    ("WalnutDSA", -260),
    ("RS512", -259),
    ("RS384", -258),
    ("RS256", -257),
    ("ES256K", -47),
    ("HSS_LMS", -46),
    ("SHAKE256", -45),
    ("SHA_512", -44),
    ("SHA_384", -43),
    ("RSAES_OAEP_SHA_512", -42),
    ("RSAES_OAEP_SHA_256", -41),
    ("RSAES_OAEP_RFC_8017_default", -40),
    ("PS512", -39),
    ("PS384", -38),
    ("PS256", -37),
    ("ES512", -36),
    ("ES384", -35),
    ("ECDH_SS_A256KW", -34),
    ("ECDH_SS_A192KW", -33),
    ("ECDH_SS_A128KW", -32),
    ("ECDH_ES_A256KW", -31),
    ("ECDH_ES_A192KW", -30),
    ("ECDH_ES_A128KW", -29),
    ("ECDH_SS_HKDF_512", -28),
    ("ECDH_SS_HKDF_256", -27),
    ("ECDH_ES_HKDF_512", -26),
    ("ECDH_ES_HKDF_256", -25),
    ("SHAKE128", -18),
    ("SHA_512_256", -17),
    ("SHA_256", -16),
    ("SHA_256_64", -15),
    ("SHA_1", -14),
    ("Direct_HKDF_AES_256", -13),
    ("Direct_HKDF_AES_128", -12),
    ("Direct_HKDF_SHA_512", -11),
    ("Direct_HKDF_SHA_256", -10),
    ("EdDSA", -8),
    ("ES256", -7),
    ("Direct", -6),
    ("A256KW", -5),
    ("A192KW", -4),
    ("A128KW", -3),
    ("Reserved", 0),
    ("A128GCM", 1),
    ("A192GCM", 2),
    ("A256GCM", 3),
    ("HMAC_256_64", 4),
    ("HMAC_256_256", 5),
    ("HMAC_384_384", 6),
    ("HMAC_512_512", 7),
    ("AES_CCM_16_64_128", 10),
    ("AES_CCM_16_64_256", 11),
    ("AES_CCM_64_64_128", 12),
    ("AES_CCM_64_64_256", 13),
    ("AES_MAC_128_64", 14),
    ("AES_MAC_256_64", 15),
    ("ChaCha20Poly1305", 24),
    ("AES_MAC_128_128", 25),
    ("AES_MAC_256_128", 26),
    ("AES_CCM_16_128_128", 30),
    ("AES_CCM_16_128_256", 31),
    ("AES_CCM_64_128_128", 32),
    ("AES_CCM_64_128_256", 33),
    ("IV_GENERATION", 34),
];

pub const KEY_PARAMETER: Table =
    &[("Reserved", 0), ("Kty", 1), ("Kid", 2), ("Alg", 3), ("KeyOps", 4), ("BaseIv", 5)];

pub const OKP_KEY_PARAMETER: Table = &[("Crv", -1), ("X", -2), ("D", -4)];
pub const EC2_KEY_PARAMETER: Table = &[("Crv", -1), ("X", -2), ("Y", -3), ("D", -4)];
pub const RSA_KEY_PARAMETER: Table = &[
    ("N", -1),
    ("E", -2),
    ("D", -3),
    ("P", -4),
    ("Q", -5),
    ("DP", -6),
    ("DQ", -7),
    ("QInv", -8),
    ("Other", -9),
    ("RI", -10),
    ("DI", -11),
    ("TI", -12),
];
pub const SYMMETRIC_KEY_PARAMETER: Table = &[("K", -1)];
pub const HSS_LMS_KEY_PARAMETER: Table = &[("Pub", -1)];
pub const WALNUT_DSA_KEY_PARAMETER: Table = &[
    ("N", -1),
    ("Q", -2),
    ("TValues", -3),
    ("Matrix1", -4),
    ("Permutation1", -5),
    ("Matrix2", -6),
];

pub const KEY_TYPE: Table = &[
    ("Reserved", 0),
    ("OKP", 1),
    ("EC2", 2),
    ("RSA", 3),
    ("Symmetric", 4),
    ("HSS_LMS", 5),
    ("WalnutDSA", 6),
];

pub const ELLIPTIC_CURVE: Table = &[
    ("Reserved", 0),
    ("P_256", 1),
    ("P_384", 2),
    ("P_521", 3),
    ("X25519", 4),
    ("X448", 5),
    ("Ed25519", 6),
    ("Ed448", 7),
    ("Secp256k1", 8),
];

pub const KEY_OPERATION: Table = &[
    ("Sign", 1),
    ("Verify", 2),
    ("Encrypt", 3),
    ("Decrypt", 4),
    ("WrapKey", 5),
    ("UnwrapKey", 6),
    ("DeriveKey", 7),
    ("DeriveBits", 8),
    ("MacCreate", 9),
    ("MacVerify", 10),
];

pub const CBOR_TAG: Table = &[
    ("CoseEncrypt0", 16),
    ("CoseMac0", 17),
    ("CoseSign1", 18),
    ("Cwt", 61),
    ("CoseEncrypt", 96),
    ("CoseMac", 97),
    ("CoseSign", 98),
];

pub const COAP_CONTENT_FORMAT: Table = &[
    ("TextPlainUtf8", 0),
    ("CoseEncrypt0", 16),
    ("CoseMac0", 17),
    ("CoseSign1", 18),
    ("LinkFormat", 40),
    ("Xml", 41),
    ("OctetStream", 42),
    ("Exi", 47),
    ("Json", 50),
    ("JsonPatchJson", 51),
    ("MergePatchJson", 52),
    ("Cbor", 60),
    ("Cwt", 61),
    ("MultipartCore", 62),
    ("CborSeq", 63),
    ("CoseEncrypt", 96),
    ("CoseMac", 97),
    ("CoseSign", 98),
    ("CoseKey", 101),
    ("CoseKeySet", 102),
    ("SenmlJson", 110),
    ("SensmlJson", 111),
    ("SenmlCbor", 112),
    ("SensmlCbor", 113),
    ("SenmlExi", 114),
    ("SensmlExi", 115),
    ("CoapGroupJson", 256),
    ("DotsCbor", 271),
    ("Pkcs7MimeSmimeTypeServerGeneratedKey", 280),
    ("Pkcs7MimeSmimeTypeCertsOnly", 281),
    ("Pkcs7MimeSmimeTypeCmcRequest", 282),
    ("Pkcs7MimeSmimeTypeCmcResponse", 283),
    ("Pkcs8", 284),
    ("Csrattrs", 285),
    ("Pkcs10", 286),
    ("PkixCert", 287),
    ("SenmlXml", 310),
    ("SensmlXml", 311),
    ("SenmlEtchJson", 320),
    ("SenmlEtchCbor", 322),
    ("TdJson", 432),
    ("VndOcfCbor", 10000),
    ("Oscore", 10001),
    ("JsonDeflate", 11050),
    ("CborDeflate", 11060),
    ("VndOmaLwm2mTlv", 11542),
    ("VndOmaLwm2mJson", 11543),
    ("VndOmaLwm2mCbor", 11544),
];

pub const CWT_CLAIM_NAME: Table = &[
    ("Hcert", -260),
    ("EuphNonce", -259),
    ("EatMaroePrefix", -258),
    ("EatFido", -257),
    ("Reserved", 0),
    ("Iss", 1),
    ("Sub", 2),
    ("Aud", 3),
    ("Exp", 4),
    ("Nbf", 5),
    ("Iat", 6),
    ("Cti", 7),
    ("Cnf", 8),
    ("Scope", 9),
    ("AceProfile", 38),
    ("CNonce", 39),
    ("Exi", 40),
];

/// Private-use boundary shared by the four registries that have one: values *below* this.
pub const PRIVATE_USE_BELOW: i64 = -65536;

pub fn is_private(i: i64) -> bool {
    i < PRIVATE_USE_BELOW
}

pub fn registered(t: Table, i: i64) -> bool {
    t.iter().any(|(_, v)| *v == i)
}

pub fn name_of(t: Table, i: i64) -> Option<&'static str> {
    t.iter().find(|(_, v)| *v == i).map(|(n, _)| *n)
}

/// The registered CBOR tag of each taggable message type (RFC 8152 table 1).
pub const TAG_SIGN: u64 = 98;
pub const TAG_SIGN1: u64 = 18;
pub const TAG_ENCRYPT: u64 = 96;
pub const TAG_ENCRYPT0: u64 = 16;
pub const TAG_MAC: u64 = 97;
pub const TAG_MAC0: u64 = 17;

/// Dynamic view of one registry enumeration of the crate under test.
pub struct Reg {
    pub name: &'static str,
    pub table: Table,
    pub has_private: bool,
    /// (Debug name, to_i64) of from_i64(i), if any
    pub from_i64: fn(i64) -> Option<(String, i64)>,
    /// from_i64(i).map(|x| from_i64(x.to_i64()) == Some(x))
    pub roundtrip: fn(i64) -> Option<bool>,
    pub is_private: Option<fn(i64) -> bool>,
    /// RegisteredLabel::<T>::from_slice
    pub label: fn(&[u8]) -> Result<LabelClass, coset::CoseError>,
    /// RegisteredLabelWithPrivate::<T>::from_slice (registries with a private-use range)
    pub label_private: Option<fn(&[u8]) -> Result<LabelClass, coset::CoseError>>,
}

/// How a decoded registry label was classified.
#[derive(Debug, Clone, PartialEq, Eq)]
pub enum LabelClass {
    Assigned(String, i64),
    Private(i64),
    Text(String),
}

fn dec_label<T: EnumI64 + std::fmt::Debug>(b: &[u8]) -> Result<LabelClass, coset::CoseError> {
    use coset::CborSerializable;
    Ok(match coset::RegisteredLabel::<T>::from_slice(b)? {
        coset::RegisteredLabel::Assigned(a) => LabelClass::Assigned(format!("{:?}", a), a.to_i64()),
        coset::RegisteredLabel::Text(t) => LabelClass::Text(t),
    })
}

fn dec_label_private<T: EnumI64 + WithPrivateRange + std::fmt::Debug>(b: &[u8]) -> Result<LabelClass, coset::CoseError> {
    use coset::CborSerializable;
    Ok(match coset::RegisteredLabelWithPrivate::<T>::from_slice(b)? {
        coset::RegisteredLabelWithPrivate::Assigned(a) => LabelClass::Assigned(format!("{:?}", a), a.to_i64()),
        coset::RegisteredLabelWithPrivate::PrivateUse(i) => LabelClass::Private(i),
        coset::RegisteredLabelWithPrivate::Text(t) => LabelClass::Text(t),
    })
}

fn probe<T: EnumI64 + std::fmt::Debug>(i: i64) -> Option<(String, i64)> {
    T::from_i64(i).map(|x| (format!("{:?}", x), x.to_i64()))
}
fn rt<T: EnumI64 + std::fmt::Debug>(i: i64) -> Option<bool> {
    T::from_i64(i).map(|x| T::from_i64(x.to_i64()) == Some(x))
}

macro_rules! reg {
    ($t:ty, $table:ident, private) => {
        Reg {
            name: stringify!($t),
            table: $table,
            has_private: true,
            from_i64: probe::<$t>,
            roundtrip: rt::<$t>,
            is_private: Some(<$t as WithPrivateRange>::is_private),
            label: dec_label::<$t>,
            label_private: Some(dec_label_private::<$t>),
        }
    };
    ($t:ty, $table:ident) => {
        Reg { name: stringify!($t), table: $table, has_private: false, from_i64: probe::<$t>, roundtrip: rt::<$t>, is_private: None, label: dec_label::<$t>, label_private: None }
    };
}

pub fn registries() -> Vec<Reg> {
    vec![
        reg!(iana::HeaderParameter, HEADER_PARAMETER, private),
        reg!(iana::HeaderAlgorithmParameter, HEADER_ALGORITHM_PARAMETER),
        reg!(iana::Algorithm, ALGORITHM, private),
        reg!(iana::KeyParameter, KEY_PARAMETER),
        reg!(iana::OkpKeyParameter, OKP_KEY_PARAMETER),
        reg!(iana::Ec2KeyParameter, EC2_KEY_PARAMETER),
        reg!(iana::RsaKeyParameter, RSA_KEY_PARAMETER),
        reg!(iana::SymmetricKeyParameter, SYMMETRIC_KEY_PARAMETER),
        reg!(iana::HssLmsKeyParameter, HSS_LMS_KEY_PARAMETER),
        reg!(iana::WalnutDsaKeyParameter, WALNUT_DSA_KEY_PARAMETER),
        reg!(iana::KeyType, KEY_TYPE),
        reg!(iana::EllipticCurve, ELLIPTIC_CURVE, private),
        reg!(iana::KeyOperation, KEY_OPERATION),
        reg!(iana::CborTag, CBOR_TAG),
        reg!(iana::CoapContentFormat, COAP_CONTENT_FORMAT),
        reg!(iana::CwtClaimName, CWT_CLAIM_NAME, private),
    ]
}

//! Conversions between ciborium's `Value` (coset's data model) and the harness' `Item`.

use crate::cbor::Item;
use coset::cbor::value::{Integer, Value};

/// Structural map Value -> Item (total on the variants ciborium 0.2 has).
pub fn value_to_item(v: &Value) -> Item {
    match v {
        Value::Integer(i) => Item::Int(i128::from(*i)),
        Value::Bytes(b) => Item::Bytes(b.clone()),
        Value::Text(t) => Item::Text(t.clone()),
        Value::Array(a) => Item::Array(a.iter().map(value_to_item).collect()),
        Value::Map(m) => Item::Map(m.iter().map(|(k, v)| (value_to_item(k), value_to_item(v))).collect()),
        Value::Tag(t, x) => Item::Tag(*t, Box::new(value_to_item(x))),
        Value::Bool(b) => Item::Bool(*b),
        Value::Null => Item::Null,
        Value::Float(f) => Item::Float(*f),
        _ => Item::Simple(255),
    }
}

/// Item -> Value, for items inside ciborium's data model (no Undefined/Simple; ints in range).
pub fn item_to_value(i: &Item) -> Option<Value> {
    Some(match i {
        Item::Int(x) => Value::Integer(Integer::try_from(*x).ok()?),
        Item::Bytes(b) => Value::Bytes(b.clone()),
        Item::Text(t) => Value::Text(t.clone()),
        Item::Array(a) => Value::Array(a.iter().map(item_to_value).collect::<Option<Vec<_>>>()?),
        Item::Map(m) => Value::Map(
            m.iter()
                .map(|(k, v)| Some((item_to_value(k)?, item_to_value(v)?)))
                .collect::<Option<Vec<_>>>()?,
        ),
        Item::Tag(t, x) => Value::Tag(*t, Box::new(item_to_value(x)?)),
        Item::Bool(b) => Value::Bool(*b),
        Item::Null => Value::Null,
        Item::Float(f) => Value::Float(*f),
        Item::Wrapped(w) => Value::Bytes(w.content()),
        Item::Undefined | Item::Simple(_) => return None,
    })
}

/// The item ciborium's reader yields for a wire item: `undefined` reads as null.  (Tags 2/3 are
/// only ever produced by the generators as an encoding style of integers, so no mapping is needed
/// for them here.)
pub fn as_read_by_ciborium(i: &Item) -> Item {
    match i {
        Item::Undefined => Item::Null,
        Item::Wrapped(w) => Item::Bytes(w.content()),
        Item::Array(a) => Item::Array(a.iter().map(as_read_by_ciborium).collect()),
        Item::Map(m) => Item::Map(m.iter().map(|(k, v)| (as_read_by_ciborium(k), as_read_by_ciborium(v))).collect()),
        Item::Tag(t, x) => Item::Tag(*t, Box::new(as_read_by_ciborium(x))),
        other => other.clone(),
    }
}

#[cfg(test)]
mod tests {
    use super::*;
    use crate::cbor::{encode, encode_styled, read_lenient, read_strict, StyleOpts};
    use crate::gen::gen_value;
    use crate::tape::Gen;

    /// Tag 2/3 over a byte string of at most 16 bytes is an encoding style of an integer.
    fn fold_bignums(i: &Item) -> Item {
        match i {
            Item::Tag(t, inner) if *t == 2 || *t == 3 => match &**inner {
                Item::Bytes(b) if b.len() <= 16 => {
                    let mut v: i128 = 0;
                    for x in b {
                        v = (v << 8) | *x as i128;
                    }
                    Item::Int(if *t == 2 { v } else { -1 - v })
                }
                other => Item::Tag(*t, Box::new(fold_bignums(other))),
            },
            Item::Tag(t, inner) => Item::Tag(*t, Box::new(fold_bignums(inner))),
            Item::Array(a) => Item::Array(a.iter().map(fold_bignums).collect()),
            Item::Map(m) => Item::Map(m.iter().map(|(k, v)| (fold_bignums(k), fold_bignums(v))).collect()),
            other => other.clone(),
        }
    }

    fn tape(seed: u64, n: usize) -> Vec<u8> {
        let mut x = seed.wrapping_mul(0x9e3779b97f4a7c15) | 1;
        (0..n)
            .map(|_| {
                x ^= x << 13;
                x ^= x >> 7;
                x ^= x << 17;
                (x >> 24) as u8
            })
            .collect()
    }

    /// The harness' codec agrees with ciborium on generated items: styled encodings parse (with
    /// ciborium and with the lenient reader) to the item; the deterministic encoding equals
    /// ciborium's serialisation and is accepted by the strict reader.
    #[test]
    fn codec_agrees_with_ciborium() {
        let mut checked = 0;
        for seed in 0..20000u64 {
            let t = tape(seed, 256);
            let mut g = Gen::new(&t);
            let item = gen_value(&mut g, 3, true);
            let mut it = item.clone();
            let styled = encode_styled(&mut it, &mut g, StyleOpts::ALL);
            let mut s = &styled[..];
            let v: Value = coset::cbor::de::from_reader(&mut s).unwrap_or_else(|e| panic!("ciborium rejects styled encoding {:?} of {:?}: {:?}", crate::cbor::hex(&styled), item, e));
            assert!(s.is_empty());
            assert_eq!(value_to_item(&v), as_read_by_ciborium(&item), "styled {:?}", crate::cbor::hex(&styled));
            // lenient reader: same item except that bignum-styled integers read as tags
            assert_eq!(fold_bignums(&read_lenient(&styled).unwrap()), item);
            let det = encode(&item);
            assert_eq!(read_strict(&det).unwrap(), item);
            let mut out = vec![];
            coset::cbor::ser::into_writer(&item_to_value(&item).unwrap(), &mut out).unwrap();
            // ciborium keeps the width of signalling NaNs; everything else must match byte for byte
            if !item.contains_nan() {
                assert_eq!(out, det, "{:?}", item);
            }
            checked += 1;
        }
        assert_eq!(checked, 20000);
    }
}

//! Conversions between ciborium's `Value` (coset's data model) and the harness' `Item`.

use crate::cbor::Item;
use coset::cbor::value::{Integer, Value};

/// Structural map Value -> Item (total on the variants ciborium 0.2 has).
pub fn value_to_item(v: &Value) -> Item {
    match v {
        Value::Integer(i) => Item::Int(i128::from(*i)),
        Value::Bytes(b) => Item::Bytes(b.clone()),
        Value::Text(t) => Item::Text(t.clone()),
        Value::Array(a) => Item::Array(a.iter().map(value_to_item).collect()),
        Value::Map(m) => Item::Map(m.iter().map(|(k, v)| (value_to_item(k), value_to_item(v))).collect()),
        Value::Tag(t, x) => Item::Tag(*t, Box::new(value_to_item(x))),
        Value::Bool(b) => Item::Bool(*b),
        Value::Null => Item::Null,
        Value::Float(f) => Item::Float(*f),
        _ => Item::Simple(255),
    }
}

/// Item -> Value, for items inside ciborium's data model (no Undefined/Simple; ints in range).
pub fn item_to_value(i: &Item) -> Option<Value> {
    Some(match i {
        Item::Int(x) => Value::Integer(Integer::try_from(*x).ok()?),
        Item::Bytes(b) => Value::Bytes(b.clone()),
        Item::Text(t) => Value::Text(t.clone()),
        Item::Array(a) => Value::Array(a.iter().map(item_to_value).collect::<Option<Vec<_>>>()?),
        Item::Map(m) => Value::Map(
            m.iter()
                .map(|(k, v)| Some((item_to_value(k)?, item_to_value(v)?)))
                .collect::<Option<Vec<_>>>()?,
        ),
        Item::Tag(t, x) => Value::Tag(*t, Box::new(item_to_value(x)?)),
        Item::Bool(b) => Value::Bool(*b),
        Item::Null => Value::Null,
        Item::Float(f) => Value::Float(*f),
        Item::Wrapped(w) => Value::Bytes(w.content()),
        Item::Undefined | Item::Simple(_) => return None,
    })
}

/// The item ciborium's reader yields for a wire item: `undefined` reads as null.  (Tags 2/3 are
/// only ever produced by the generators as an encoding style of integers, so no mapping is needed
/// for them here.)
pub fn as_read_by_ciborium(i: &Item) -> Item {
    match i {
        Item::Undefined => Item::Null,
        Item::Wrapped(w) => Item::Bytes(w.content()),
        Item::Array(a) => Item::Array(a.iter().map(as_read_by_ciborium).collect()),
        Item::Map(m) => Item::Map(m.iter().map(|(k, v)| (as_read_by_ciborium(k), as_read_by_ciborium(v))).collect()),
        Item::Tag(t, x) => Item::Tag(*t, Box::new(as_read_by_ciborium(x))),
        other => other.clone(),
    }
}

//! Supervisor / worker process model, evidence, replay, known-finding matching.

use crate::cbor::{hex, unhex};
use crate::tape::{shrink_with, Gen, TapeStrategy};
use proptest::test_runner::{Config, RngAlgorithm, TestCaseError, TestError, TestRng, TestRunner};
use serde_json::{json, Value as J};
use std::cell::RefCell;
use std::collections::{BTreeMap, BTreeSet, HashSet};
use std::io::Write;
use std::path::{Path, PathBuf};
use std::process::{Command, Stdio};
use std::sync::atomic::{AtomicU64, Ordering};
use std::sync::OnceLock;
use std::time::{Duration, Instant};

pub type CaseResult = Result<(), String>;

#[macro_export]
macro_rules! ensure {
    ($cond:expr, $($arg:tt)+) => {
        if !($cond) {
            return Err(format!($($arg)+));
        }
    };
}

#[macro_export]
macro_rules! fail {
    ($($arg:tt)+) => {
        return Err(format!($($arg)+))
    };
}

/// Per-case observation context.
pub struct Ctx {
    pub classes: BTreeMap<String, u64>,
    pub nontrivial: Vec<u64>,
    /// number of evaluations this case stands for (block-structured enumerations)
    pub evals: u64,
    pub sample: Option<String>,
    pub want_sample: bool,
    pub known_hits: Vec<(String, String)>,
    /// named maxima (merged by max into the evidence; e.g. observed memory per input byte)
    pub maxima: BTreeMap<String, u64>,
    /// replay mode: known findings are still tolerated (they are listed), nothing else changes
    pub replay: bool,
    /// no bookkeeping at all (libFuzzer targets: the histogram code would only add noise to coverage)
    pub quiet: bool,
}

impl Ctx {
    pub fn new(want_sample: bool) -> Self {
        Ctx { classes: BTreeMap::new(), nontrivial: Vec::new(), evals: 1, sample: None, want_sample, known_hits: vec![], maxima: BTreeMap::new(), replay: false, quiet: false }
    }
    pub fn maximum(&mut self, name: &str, v: u64) {
        if self.quiet {
            return;
        }
        let e = self.maxima.entry(name.to_string()).or_insert(0);
        *e = (*e).max(v);
    }
    pub fn class(&mut self, label: &str) {
        if self.quiet {
            return;
        }
        *self.classes.entry(label.to_string()).or_insert(0) += 1;
    }
    pub fn classf(&mut self, label: String) {
        if self.quiet {
            return;
        }
        *self.classes.entry(label).or_insert(0) += 1;
    }
    /// Declare this case non-trivial by the property's rule, with a hash of the abstract case.
    pub fn nontrivial(&mut self, key: u64) {
        if self.quiet {
            return;
        }
        self.nontrivial.push(key);
    }
    pub fn sample_with(&mut self, f: impl FnOnce() -> String) {
        if self.want_sample && self.sample.is_none() {
            self.sample = Some(f());
        }
    }
    /// Report behaviour that matches a known finding signature.  Ok if the signature is listed in
    /// KNOWN_FINDINGS.txt (counted, reported once), Err (a violation) otherwise.
    pub fn known(&mut self, sig: &str, what: &str) -> CaseResult {
        if known_findings().iter().any(|k| k.sig == sig) {
            self.known_hits.push((sig.to_string(), what.to_string()));
            Ok(())
        } else {
            Err(format!("{} [signature {}]", what, sig))
        }
    }
}

pub fn hash_bytes(b: &[u8]) -> u64 {
    // FNV-1a 64, then a finaliser
    let mut h: u64 = 0xcbf29ce484222325;
    for x in b {
        h ^= *x as u64;
        h = h.wrapping_mul(0x100000001b3);
    }
    mix(h)
}
pub fn hash_str(s: &str) -> u64 {
    hash_bytes(s.as_bytes())
}
pub fn mix(mut z: u64) -> u64 {
    z = z.wrapping_add(0x9e3779b97f4a7c15);
    z = (z ^ (z >> 30)).wrapping_mul(0xbf58476d1ce4e5b9);
    z = (z ^ (z >> 27)).wrapping_mul(0x94d049bb133111eb);
    z ^ (z >> 31)
}

#[derive(Clone)]
pub struct Property {
    pub id: &'static str,
    pub title: &'static str,
    /// how cases are generated and what makes one non-trivial / distinct
    pub rule: &'static str,
    pub assumptions: &'static [&'static str],
    /// named exhaustively enumerated sub-domains (documentation for the evidence)
    pub exhaustive_domains: &'static [&'static str],
    pub case: fn(&mut Gen, &mut Ctx) -> CaseResult,
    /// index-addressable exhaustive enumeration
    pub exh_count: fn(tier: Tier) -> u64,
    pub exh_case: fn(u64, &mut Ctx) -> CaseResult,
    /// raw-bytes oracle (corpus files, libFuzzer `bytes` target)
    pub bytes_case: Option<fn(&[u8], &mut Ctx) -> CaseResult>,
    pub quick_cases: u64,
    pub thorough_cases: u64,
    pub max_tape: usize,
}

pub fn no_exh_count(_: Tier) -> u64 {
    0
}
pub fn no_exh_case(_: u64, _: &mut Ctx) -> CaseResult {
    Ok(())
}

#[derive(Clone, Copy, PartialEq, Eq, Debug)]
pub enum Tier {
    Quick,
    Thorough,
}

impl Tier {
    pub fn parse(s: &str) -> Option<Tier> {
        match s {
            "quick" => Some(Tier::Quick),
            "thorough" => Some(Tier::Thorough),
            _ => None,
        }
    }
    pub fn name(&self) -> &'static str {
        match self {
            Tier::Quick => "quick",
            Tier::Thorough => "thorough",
        }
    }
}

pub fn verif_root() -> PathBuf {
    if let Ok(r) = std::env::var("VERIF_ROOT") {
        return PathBuf::from(r);
    }
    PathBuf::from("/verif")
}

// ---------------------------------------------------------------------------------------------
// known findings
// ---------------------------------------------------------------------------------------------

#[derive(Clone, Debug)]
pub struct Known {
    pub property: String,
    pub sig: String,
    pub text: String,
}

static KNOWN: OnceLock<Vec<Known>> = OnceLock::new();

pub fn known_findings() -> &'static Vec<Known> {
    KNOWN.get_or_init(|| {
        let p = verif_root().join("KNOWN_FINDINGS.txt");
        let mut v = vec![];
        if let Ok(s) = std::fs::read_to_string(&p) {
            for line in s.lines() {
                let line = line.trim();
                if let Some(rest) = line.strip_prefix("known:") {
                    let mut property = String::new();
                    let mut sig = String::new();
                    let mut text = vec![];
                    for tok in rest.split_whitespace() {
                        if let Some(x) = tok.strip_prefix("property=") {
                            property = x.to_string();
                        } else if let Some(x) = tok.strip_prefix("sig=") {
                            sig = x.to_string();
                        } else {
                            text.push(tok);
                        }
                    }
                    if !property.is_empty() && !sig.is_empty() {
                        v.push(Known { property, sig, text: text.join(" ") });
                    }
                }
            }
        }
        v
    })
}

// ---------------------------------------------------------------------------------------------
// running one case with panic capture
// ---------------------------------------------------------------------------------------------

thread_local! {
    static LAST_PANIC: RefCell<Option<String>> = RefCell::new(None);
}

pub fn install_quiet_panic_hook() {
    std::panic::set_hook(Box::new(|info| {
        let loc = info.location().map(|l| format!("{}:{}", l.file(), l.line())).unwrap_or_default();
        let msg = if let Some(s) = info.payload().downcast_ref::<&str>() {
            s.to_string()
        } else if let Some(s) = info.payload().downcast_ref::<String>() {
            s.clone()
        } else {
            "panic".to_string()
        };
        LAST_PANIC.with(|p| *p.borrow_mut() = Some(format!("{} at {}", msg, loc)));
    }));
}

pub fn take_last_panic() -> Option<String> {
    LAST_PANIC.with(|p| p.borrow_mut().take())
}

/// Run `f` catching panics; Err(description) on panic.
pub fn catch<T>(f: impl FnOnce() -> T) -> Result<T, String> {
    match std::panic::catch_unwind(std::panic::AssertUnwindSafe(f)) {
        Ok(v) => Ok(v),
        Err(_) => Err(take_last_panic().unwrap_or_else(|| "panic (no message)".to_string())),
    }
}

fn run_case_fn(p: &Property, tape: &[u8], ctx: &mut Ctx) -> CaseResult {
    let mut g = Gen::new(tape);
    match catch(|| (p.case)(&mut g, ctx)) {
        Ok(r) => r,
        Err(panic) => Err(format!("unexpected panic: {}", panic)),
    }
}

fn run_exh_fn(p: &Property, idx: u64, ctx: &mut Ctx) -> CaseResult {
    match catch(|| (p.exh_case)(idx, ctx)) {
        Ok(r) => r,
        Err(panic) => Err(format!("unexpected panic: {}", panic)),
    }
}

fn run_bytes_fn(p: &Property, data: &[u8], ctx: &mut Ctx) -> CaseResult {
    let f = match p.bytes_case {
        Some(f) => f,
        None => return Ok(()),
    };
    match catch(|| f(data, ctx)) {
        Ok(r) => r,
        Err(panic) => Err(format!("unexpected panic: {}", panic)),
    }
}

// ---------------------------------------------------------------------------------------------
// worker
// ---------------------------------------------------------------------------------------------

const CHUNK: u64 = 1000;

#[derive(Default)]
struct Acc {
    evaluations: u64,
    hashes: HashSet<u64>,
    classes: BTreeMap<String, u64>,
    samples: Vec<String>,
    known: BTreeMap<String, (u64, String)>,
    maxima: BTreeMap<String, u64>,
    failures: Vec<J>,
}

impl Acc {
    fn absorb(&mut self, ctx: Ctx) {
        self.evaluations += ctx.evals;
        for h in ctx.nontrivial {
            self.hashes.insert(h);
        }
        for (k, v) in ctx.classes {
            *self.classes.entry(k).or_insert(0) += v;
        }
        if let Some(s) = ctx.sample {
            if self.samples.len() < 12 {
                self.samples.push(s);
            }
        }
        for (k, v) in ctx.maxima {
            let e = self.maxima.entry(k).or_insert(0);
            *e = (*e).max(v);
        }
        for (sig, what) in ctx.known_hits {
            let e = self.known.entry(sig).or_insert((0, what));
            e.0 += 1;
        }
    }
    fn want_sample(&self) -> bool {
        self.samples.len() < 3 || (self.samples.len() < 12 && self.evaluations % 997 == 0)
    }
    fn to_json(&self) -> J {
        json!({
            "evaluations": self.evaluations,
            "hashes": self.hashes.iter().collect::<Vec<_>>(),
            "classes": self.classes,
            "samples": self.samples,
            "maxima": self.maxima,
            "known": self.known.iter().map(|(k,(n,w))| json!({"sig":k,"count":n,"what":w})).collect::<Vec<_>>(),
            "failures": self.failures,
        })
    }
}

pub fn chunk_seed(seed: u64, prop: &str, chunk: u64) -> [u8; 32] {
    let mut out = [0u8; 32];
    let base = mix(seed ^ hash_str(prop)).wrapping_add(mix(chunk.wrapping_mul(0x9e3779b97f4a7c15) ^ 0xabcdef));
    for i in 0..4 {
        let w = mix(base.wrapping_add(i as u64 * 0x1234567));
        out[i * 8..i * 8 + 8].copy_from_slice(&w.to_le_bytes());
    }
    out
}

static CASE_STARTED_MS: AtomicU64 = AtomicU64::new(0);
static T0: OnceLock<Instant> = OnceLock::new();

fn now_ms() -> u64 {
    T0.get_or_init(Instant::now).elapsed().as_millis() as u64 + 1
}

fn mark_case_start() {
    CASE_STARTED_MS.store(now_ms(), Ordering::Relaxed);
}

pub const CASE_WATCHDOG_S: u64 = 120;

fn spawn_watchdog() {
    std::thread::spawn(|| loop {
        std::thread::sleep(Duration::from_millis(500));
        let st = CASE_STARTED_MS.load(Ordering::Relaxed);
        if st != 0 && now_ms() - st > CASE_WATCHDOG_S * 1000 {
            eprintln!("INCONCLUSIVE: a single case exceeded the {} s watchdog", CASE_WATCHDOG_S);
            std::process::exit(3);
        }
    });
}

pub struct WorkerArgs {
    pub tier: Tier,
    pub widx: u64,
    pub nworkers: u64,
    pub seed: u64,
    pub out: PathBuf,
    pub journal: Option<PathBuf>,
    pub cases: u64,
}

fn regress_files(id: &str) -> Vec<PathBuf> {
    let mut v = vec![];
    for sub in ["regress", "corpus"] {
        let d = verif_root().join(sub).join(id);
        if let Ok(rd) = std::fs::read_dir(&d) {
            for e in rd.flatten() {
                if e.path().is_file() {
                    v.push(e.path());
                }
            }
        }
    }
    v.sort();
    v
}

/// What a file under regress/ or corpus/ holds.
pub enum Stored {
    Tape(Vec<u8>),
    Exh(u64),
    Bytes(Vec<u8>),
}

pub fn load_stored(path: &Path) -> Option<Stored> {
    let data = std::fs::read(path).ok()?;
    if path.extension().map(|e| e == "json").unwrap_or(false) {
        let j: J = serde_json::from_slice(&data).ok()?;
        match j.get("kind").and_then(|k| k.as_str()) {
            Some("tape") => Some(Stored::Tape(unhex(j.get("tape_hex")?.as_str()?)?)),
            Some("exh") => Some(Stored::Exh(j.get("index")?.as_u64()?)),
            Some("bytes") => Some(Stored::Bytes(unhex(j.get("bytes_hex")?.as_str()?)?)),
            _ => None,
        }
    } else {
        Some(Stored::Bytes(data))
    }
}

fn run_stored(p: &Property, s: &Stored, ctx: &mut Ctx) -> CaseResult {
    match s {
        Stored::Tape(t) => run_case_fn(p, t, ctx),
        Stored::Exh(i) => run_exh_fn(p, *i, ctx),
        Stored::Bytes(b) => run_bytes_fn(p, b, ctx),
    }
}

fn journal_write(j: &mut Option<std::fs::File>, line: &str) {
    if let Some(f) = j {
        let _ = writeln!(f, "{}", line);
        let _ = f.flush();
    }
}

pub fn worker_main(p: &Property, a: &WorkerArgs) {
    install_quiet_panic_hook();
    spawn_watchdog();
    limit_address_space(12 << 30);
    let p2 = p.clone();
    let a2 = WorkerArgs {
        tier: a.tier,
        widx: a.widx,
        nworkers: a.nworkers,
        seed: a.seed,
        out: a.out.clone(),
        journal: a.journal.clone(),
        cases: a.cases,
    };
    // "ordinary thread stack": the Rust default for spawned threads, 2 MiB
    let h = std::thread::Builder::new()
        .stack_size(2 << 20)
        .name("cases".into())
        .spawn(move || worker_body(&p2, &a2))
        .expect("spawn");
    let acc = h.join().expect("worker thread panicked outside a case");
    std::fs::write(&a.out, serde_json::to_vec(&acc).unwrap()).expect("write worker result");
}

fn limit_address_space(bytes: u64) {
    unsafe {
        let lim = libc::rlimit { rlim_cur: bytes, rlim_max: bytes };
        libc::setrlimit(libc::RLIMIT_AS, &lim);
    }
}

fn worker_body(p: &Property, a: &WorkerArgs) -> J {
    let mut acc = Acc::default();
    let mut journal = a.journal.as_ref().map(|p| std::fs::File::create(p).expect("journal"));

    // Phase A: stored regressions and corpus
    let files = regress_files(p.id);
    for (i, f) in files.iter().enumerate() {
        if (i as u64) % a.nworkers != a.widx {
            continue;
        }
        if let Some(s) = load_stored(f) {
            journal_write(&mut journal, &format!("stored {}", f.display()));
            mark_case_start();
            let mut ctx = Ctx::new(false);
            ctx.class("phase:stored");
            let r = run_stored(p, &s, &mut ctx);
            acc.absorb(ctx);
            if let Err(msg) = r {
                acc.failures.push(json!({"kind":"stored","path":f.display().to_string(),"msg":msg}));
            }
        }
    }

    // Phase B: exhaustive enumerations, indices dealt round-robin to the workers
    let n_exh = (p.exh_count)(a.tier);
    let mut idx = a.widx;
    while idx < n_exh && acc.failures.len() < 3 {
        journal_write(&mut journal, &format!("exh {}", idx));
        mark_case_start();
        let mut ctx = Ctx::new(acc.want_sample());
        ctx.class("phase:exhaustive");
        let r = run_exh_fn(p, idx, &mut ctx);
        acc.absorb(ctx);
        if let Err(msg) = r {
            acc.failures.push(json!({"kind":"exh","index":idx,"msg":msg}));
        }
        idx += a.nworkers;
    }

    // Phase C: proptest-driven tapes, chunked
    let nchunks = (a.cases + CHUNK - 1) / CHUNK;
    let acc_cell = RefCell::new(acc);
    let journal_cell = RefCell::new(journal);
    for chunk in 0..nchunks {
        if chunk % a.nworkers != a.widx {
            continue;
        }
        if acc_cell.borrow().failures.len() >= 3 {
            break;
        }
        let cases = CHUNK.min(a.cases - chunk * CHUNK) as u32;
        let cfg = Config {
            cases,
            failure_persistence: None,
            max_shrink_iters: 20_000,
            // minimisation of a slow failing case (C01's scaling ladders) is cut off after two minutes:
            // this bounds only how small the replay gets, never the verdict
            max_shrink_time: 120_000,
            max_global_rejects: 0,
            verbose: 0,
            ..Config::default()
        };
        let rng = TestRng::from_seed(RngAlgorithm::ChaCha, &chunk_seed(a.seed, p.id, chunk));
        let mut runner = TestRunner::new_with_rng(cfg, rng);
        let strat = TapeStrategy { max_len: p.max_tape };
        let failed = RefCell::new(false);
        let res = runner.run(&strat, |tape| {
            let counting = !*failed.borrow();
            if counting {
                journal_write(&mut journal_cell.borrow_mut(), &format!("tape {} {}", chunk, hex(&tape)));
            }
            mark_case_start();
            let want = counting && acc_cell.borrow().want_sample();
            let mut ctx = Ctx::new(want);
            let r = run_case_fn(p, &tape, &mut ctx);
            if counting {
                ctx.class("phase:generated");
                acc_cell.borrow_mut().absorb(ctx);
            }
            match r {
                Ok(()) => Ok(()),
                Err(m) => {
                    *failed.borrow_mut() = true;
                    Err(TestCaseError::fail(m))
                }
            }
        });
        match res {
            Ok(()) => {}
            Err(TestError::Fail(reason, tape)) => {
                // re-run the minimal tape for a clean message
                let mut ctx = Ctx::new(true);
                let msg = match run_case_fn(p, &tape, &mut ctx) {
                    Err(m) => m,
                    Ok(()) => format!("(not reproduced on re-run) {}", reason),
                };
                acc_cell.borrow_mut().failures.push(json!({
                    "kind":"tape","chunk":chunk,"tape_hex":hex(&tape),"msg":msg,
                    "rendered": ctx.sample.unwrap_or_default()}));
            }
            Err(TestError::Abort(reason)) => {
                acc_cell.borrow_mut().failures.push(json!({"kind":"abort","chunk":chunk,"msg":format!("proptest abort: {}", reason)}));
            }
        }
    }
    CASE_STARTED_MS.store(0, Ordering::Relaxed);
    let acc = acc_cell.into_inner();
    acc.to_json()
}

// ---------------------------------------------------------------------------------------------
// supervisor
// ---------------------------------------------------------------------------------------------

pub fn seed_from_env() -> u64 {
    std::env::var("VERIF_SEED").ok().and_then(|s| s.trim().parse::<i64>().ok()).map(|x| x as u64).unwrap_or(0)
}

fn out_dir() -> PathBuf {
    let d = verif_root().join("out");
    let _ = std::fs::create_dir_all(d.join("replays"));
    let _ = std::fs::create_dir_all(d.join("work"));
    d
}

pub struct RunOutcome {
    pub violations: Vec<PathBuf>,
    pub inconclusive: Option<String>,
}

fn write_replay(p: &Property, seed: u64, body: J) -> PathBuf {
    let dir = out_dir().join("replays");
    let h = hash_str(&body.to_string());
    let path = dir.join(format!("{}-{:016x}.json", p.id, h));
    let mut o = body;
    o["property"] = json!(p.id);
    o["seed"] = json!(seed);
    std::fs::write(&path, serde_json::to_vec_pretty(&o).unwrap()).expect("write replay");
    path
}

/// Run one stored case in a child (crash isolation). Returns Some(true)=fails, Some(false)=passes,
/// None = inconclusive.
fn child_fails(id: &str, kind: &str, payload: &str) -> Option<bool> {
    let exe = std::env::current_exe().ok()?;
    let mut child = Command::new(exe)
        .args(["one", id, kind, payload])
        .stdout(Stdio::null())
        .stderr(Stdio::null())
        .spawn()
        .ok()?;
    let st = child.wait().ok()?;
    match st.code() {
        Some(0) => Some(false),
        Some(1) => Some(true),
        Some(_) => None,
        None => Some(true), // killed by a signal: crash
    }
}

pub fn supervisor_main(p: &Property, tier: Tier, extra: Option<&ExtraEvidence>) -> i32 {
    let t0 = Instant::now();
    let seed = seed_from_env();
    let cases = match tier {
        Tier::Quick => p.quick_cases,
        Tier::Thorough => p.thorough_cases,
    };
    let cases = std::env::var("VERIF_CASES").ok().and_then(|s| s.parse().ok()).unwrap_or(cases);
    let ncpu = std::thread::available_parallelism().map(|n| n.get()).unwrap_or(4) as u64;
    let nworkers = std::env::var("VERIF_WORKERS").ok().and_then(|s| s.parse().ok()).unwrap_or(ncpu.min(16)).max(1);
    let exe = std::env::current_exe().expect("exe");
    let work = out_dir().join("work");
    let tag = format!("{}-{}-{}", p.id, tier.name(), std::process::id());

    let mut children = vec![];
    for w in 0..nworkers {
        let outp = work.join(format!("{}-w{}.json", tag, w));
        let _ = std::fs::remove_file(&outp);
        let child = Command::new(&exe)
            .args([
                "worker",
                p.id,
                tier.name(),
                &w.to_string(),
                &nworkers.to_string(),
                &seed.to_string(),
                outp.to_str().unwrap(),
                &cases.to_string(),
            ])
            .env("VERIF_TIER_INTERNAL", tier.name())
            .stdout(Stdio::null())
            .stderr(Stdio::piped())
            .spawn()
            .expect("spawn worker");
        children.push((w, outp, child));
    }

    let mut total = Acc::default();
    let mut inconclusive: Option<String> = None;
    let mut crashed: Vec<u64> = vec![];
    for (w, outp, child) in children {
        let out = child.wait_with_output().expect("wait");
        let code = out.status.code();
        let stderr = String::from_utf8_lossy(&out.stderr).to_string();
        match code {
            Some(0) => match std::fs::read(&outp).ok().and_then(|d| serde_json::from_slice::<J>(&d).ok()) {
                Some(j) => merge(&mut total, &j),
                None => inconclusive = Some(format!("worker {} produced no result", w)),
            },
            Some(3) => inconclusive = Some(format!("worker {}: watchdog: {}", w, stderr.trim())),
            Some(c) => {
                // abort() from stack overflow / alloc failure shows up as a signal, not a code; any
                // other exit code is an infrastructure problem
                if stderr.contains("stack overflow") || stderr.contains("memory allocation") {
                    crashed.push(w);
                } else {
                    inconclusive = Some(format!("worker {} exited with code {}: {}", w, c, tail(&stderr)));
                }
            }
            None => crashed.push(w),
        }
        let _ = std::fs::remove_file(&outp);
    }

    let mut violations: Vec<(PathBuf, String)> = vec![];

    // crashed workers: locate the case with a journal re-run, then minimise out of process
    let ncrashed = crashed.len();
    for w in crashed.into_iter().take(2) {
        let outp = work.join(format!("{}-w{}-j.json", tag, w));
        let jp = work.join(format!("{}-w{}.journal", tag, w));
        let st = Command::new(&exe)
            .args([
                "worker",
                p.id,
                tier.name(),
                &w.to_string(),
                &nworkers.to_string(),
                &seed.to_string(),
                outp.to_str().unwrap(),
                &cases.to_string(),
                "--journal",
                jp.to_str().unwrap(),
            ])
            .stdout(Stdio::null())
            .stderr(Stdio::piped())
            .output();
        let last = std::fs::read_to_string(&jp).ok().and_then(|s| s.lines().last().map(|l| l.to_string()));
        let sig = st.as_ref().ok().map(|o| format!("{:?} {}", o.status, tail(&String::from_utf8_lossy(&o.stderr)))).unwrap_or_default();
        let _ = std::fs::remove_file(&jp);
        let _ = std::fs::remove_file(&outp);
        match last {
            Some(line) if st.as_ref().map(|o| !o.status.success()).unwrap_or(false) => {
                let mut parts = line.splitn(3, ' ');
                let kind = parts.next().unwrap_or("");
                match kind {
                    "tape" => {
                        let _chunk = parts.next();
                        let tape = unhex(parts.next().unwrap_or("")).unwrap_or_default();
                        let id = p.id;
                        let min = shrink_with(tape, 200, |t| child_fails(id, "tape", &hex(t)) == Some(true));
                        let path = write_replay(p, seed, json!({"kind":"tape","tape_hex":hex(&min),
                            "msg": format!("worker process died while running this case ({})", sig)}));
                        violations.push((path, format!("process crash: {}", sig)));
                    }
                    "exh" => {
                        let idx: u64 = parts.next().and_then(|s| s.parse().ok()).unwrap_or(0);
                        let path = write_replay(p, seed, json!({"kind":"exh","index":idx,
                            "msg": format!("worker process died while running this case ({})", sig)}));
                        violations.push((path, format!("process crash: {}", sig)));
                    }
                    "stored" => {
                        let f = line["stored ".len()..].to_string();
                        violations.push((PathBuf::from(f), format!("process crash on stored input: {}", sig)));
                    }
                    _ => inconclusive = Some(format!("worker {} crashed, journal unreadable", w)),
                }
            }
            _ => inconclusive = Some(format!("worker {} crashed but the crash did not reproduce under journaling", w)),
        }
    }

    if ncrashed > 2 {
        println!("  ({} worker processes died; the first 2 were located and minimised)", ncrashed);
    }
    total.failures.sort_by_key(|f| f["msg"].as_str().map(|m| m.len()).unwrap_or(0));
    // thorough tier: every libFuzzer corpus entry and artefact is re-run through this stable,
    // library-free path; only a failure confirmed here counts
    let mut extra_ev = extra.cloned();
    if let Ok(spec) = std::env::var("VERIF_FUZZ_CONFIRM") {
        let (files, nontriv, bad, inc) = confirm_fuzz_dirs(p, &spec);
        let mut e = extra_ev.take().unwrap_or_default();
        e.fuzz_corpus_replayed = files;
        e.fuzz_execs = std::env::var("VERIF_FUZZ_EXECS").ok().and_then(|s| s.parse().ok()).unwrap_or(0);
        e.notes.push(format!("libFuzzer campaigns: {} (corpus entries and artefacts replayed through the stable harness: {}, non-trivial among them: {})", std::env::var("VERIF_FUZZ_NOTE").unwrap_or_default(), files, nontriv));
        extra_ev = Some(e);
        total.evaluations += files;
        *total.classes.entry("phase:fuzz-corpus-replayed".to_string()).or_insert(0) += files;
        for (path, msg) in bad.into_iter().take(5) {
            // keep a copy of the offending input next to the other replays
            let dest = out_dir().join("replays").join(format!("{}-fuzz-{}", p.id, path.file_name().and_then(|n| n.to_str()).unwrap_or("input")));
            let kind_tape = spec.split(',').any(|part| part.starts_with("tape:") && path.starts_with(part.split_once(':').map(|x| x.1).unwrap_or("")));
            let data = std::fs::read(&path).unwrap_or_default();
            let body = if kind_tape { json!({"kind":"tape","tape_hex":hex(&data),"msg":msg}) } else { json!({"kind":"bytes","bytes_hex":hex(&data),"msg":msg}) };
            let dest = dest.with_extension("json");
            let mut o = body;
            o["property"] = json!(p.id);
            let _ = std::fs::write(&dest, serde_json::to_vec_pretty(&o).unwrap());
            violations.push((dest, msg));
        }
        if let Some(i) = inc {
            inconclusive = Some(i);
        }
    }
    let extra = extra_ev.as_ref();
    {
        let mut seen = HashSet::new();
        total.failures.retain(|f| seen.insert(f["msg"].as_str().unwrap_or("").to_string()));
    }
    let suppressed = total.failures.len().saturating_sub(5);
    total.failures.truncate(5);
    for f in &total.failures {
        let kind = f["kind"].as_str().unwrap_or("");
        let msg = f["msg"].as_str().unwrap_or("").to_string();
        match kind {
            "stored" => violations.push((PathBuf::from(f["path"].as_str().unwrap_or("")), msg)),
            "abort" => inconclusive = Some(msg),
            _ => {
                let path = write_replay(p, seed, f.clone());
                violations.push((path, msg));
            }
        }
    }

    // evidence
    let wall = t0.elapsed().as_secs_f64();
    let mut known_lines = vec![];
    // one line per finding listed for this property (with the number of cases of this run that showed it)
    for k in known_findings().iter().filter(|k| k.property == p.id) {
        let n = total.known.get(&k.sig).map(|x| x.0).unwrap_or(0);
        known_lines.push(format!("KNOWN-FINDING: property={} sig={} cases={} {}", p.id, k.sig, n, truncate(&k.text, 160)));
    }
    write_evidence(p, tier, seed, &total, wall, violations.len(), extra, inconclusive.as_deref());

    for l in &known_lines {
        println!("{}", l);
    }
    for (path, msg) in &violations {
        println!("VIOLATION property={} replay={}", p.id, path.display());
        println!("  detail: {}", truncate(msg, 2000));
    }
    if suppressed > 0 {
        println!("  ({} further failing cases not written out)", suppressed);
    }
    println!(
        "{} {} seed={} evaluations={} distinct_nontrivial={} violations={} wall={:.1}s{}",
        p.id,
        tier.name(),
        seed,
        total.evaluations,
        total.hashes.len(),
        violations.len(),
        wall,
        inconclusive.as_ref().map(|s| format!(" INCONCLUSIVE: {}", s)).unwrap_or_default()
    );
    if !violations.is_empty() {
        1
    } else if inconclusive.is_some() {
        2
    } else {
        0
    }
}

fn tail(s: &str) -> String {
    let t = s.trim();
    let n = t.len();
    let mut start = n.saturating_sub(300);
    while !t.is_char_boundary(start) {
        start += 1;
    }
    t[start..].replace('\n', " | ")
}

fn truncate(s: &str, n: usize) -> String {
    if s.len() <= n {
        s.to_string()
    } else {
        let mut e = n;
        while !s.is_char_boundary(e) {
            e -= 1;
        }
        format!("{}…", &s[..e])
    }
}

fn merge(total: &mut Acc, j: &J) {
    total.evaluations += j["evaluations"].as_u64().unwrap_or(0);
    if let Some(a) = j["hashes"].as_array() {
        for h in a {
            if let Some(x) = h.as_u64() {
                total.hashes.insert(x);
            }
        }
    }
    if let Some(m) = j["classes"].as_object() {
        for (k, v) in m {
            *total.classes.entry(k.clone()).or_insert(0) += v.as_u64().unwrap_or(0);
        }
    }
    if let Some(m) = j["maxima"].as_object() {
        for (k, v) in m {
            let e = total.maxima.entry(k.clone()).or_insert(0);
            *e = (*e).max(v.as_u64().unwrap_or(0));
        }
    }
    if let Some(a) = j["samples"].as_array() {
        for s in a.iter().take(2) {
            if total.samples.len() < 16 {
                total.samples.push(s.as_str().unwrap_or("").to_string());
            }
        }
    }
    if let Some(a) = j["known"].as_array() {
        for k in a {
            let e = total
                .known
                .entry(k["sig"].as_str().unwrap_or("").to_string())
                .or_insert((0, k["what"].as_str().unwrap_or("").to_string()));
            e.0 += k["count"].as_u64().unwrap_or(0);
        }
    }
    if let Some(a) = j["failures"].as_array() {
        for f in a {
            total.failures.push(f.clone());
        }
    }
}

/// Extra evidence supplied by the fuzz phase (thorough tier).
#[derive(Default, Clone)]
pub struct ExtraEvidence {
    pub fuzz_execs: u64,
    pub fuzz_corpus_replayed: u64,
    pub notes: Vec<String>,
}

fn write_evidence(
    p: &Property,
    tier: Tier,
    seed: u64,
    acc: &Acc,
    wall: f64,
    violations: usize,
    extra: Option<&ExtraEvidence>,
    inconclusive: Option<&str>,
) {
    let mut samples: Vec<J> = acc.samples.iter().map(|s| json!(s)).collect();
    if samples.is_empty() {
        samples.push(json!("(no non-trivial sample rendered)"));
    }
    let known: Vec<J> = acc.known.iter().map(|(k, (n, w))| json!({"sig":k,"cases":n,"what":w})).collect();
    let excluded: u64 = acc.known.values().map(|x| x.0).sum();
    let phase_exh = acc.classes.get("phase:exhaustive").copied().unwrap_or(0);
    let mut cov = json!({
        "evaluations": acc.evaluations,
        "distinct_nontrivial": acc.hashes.len(),
        "rule": p.rule,
        "samples": samples,
        "classes": acc.classes,
        "exhaustive": false,
        "exhaustive_domains": p.exhaustive_domains,
        "exhaustive_domain_evaluations": phase_exh,
        "excluded_known": excluded,
        "known_findings_observed": known,
        "observed_maxima": acc.maxima,
    });
    if let Some(e) = extra {
        cov["fuzz_execs"] = json!(e.fuzz_execs);
        cov["fuzz_corpus_replayed"] = json!(e.fuzz_corpus_replayed);
        cov["notes"] = json!(e.notes);
    }
    if let Some(i) = inconclusive {
        cov["inconclusive"] = json!(i);
    }
    let ev = json!({
        "property_id": p.id,
        "tier": tier.name(),
        "seed": seed as i64,
        "level": "exploration",
        "coverage": cov,
        "assumptions": p.assumptions,
        "wall_s": wall,
        "violations": violations,
    });
    let dir = verif_root().join("evidence");
    let _ = std::fs::create_dir_all(&dir);
    let path = dir.join(format!("{}.json", p.id));
    std::fs::write(&path, serde_json::to_vec_pretty(&ev).unwrap()).expect("write evidence");
}

// ---------------------------------------------------------------------------------------------
// replay and single-case entry points
// ---------------------------------------------------------------------------------------------

/// `harness replay <ID> <file>`: run one stored case, library-free. Exit 0 pass, 1 fail.
pub fn replay_main(p: &Property, path: &Path) -> i32 {
    install_quiet_panic_hook();
    let s = match load_stored(path) {
        Some(s) => s,
        None => {
            eprintln!("cannot read replay file {}", path.display());
            return 2;
        }
    };
    let p2 = p.clone();
    let h = std::thread::Builder::new()
        .stack_size(2 << 20)
        .spawn(move || {
            let mut ctx = Ctx::new(true);
            ctx.replay = true;
            let r = run_stored(&p2, &s, &mut ctx);
            (r, ctx.sample, ctx.known_hits)
        })
        .unwrap();
    let (r, sample, known) = h.join().expect("replay thread");
    if let Some(s) = sample {
        println!("case: {}", s);
    }
    for (sig, what) in known {
        println!("KNOWN-FINDING: property={} {} [sig={}]", p.id, what, sig);
    }
    match r {
        Ok(()) => {
            println!("replay: property {} held on {}", p.id, path.display());
            0
        }
        Err(m) => {
            println!("VIOLATION property={} replay={}", p.id, path.display());
            println!("  detail: {}", m);
            1
        }
    }
}

/// `harness one <ID> tape|bytes|exh <payload>`: exit 0 pass, 1 fail (used for out-of-process
/// minimisation; a crash shows as a signal).
pub fn one_main(p: &Property, kind: &str, payload: &str) -> i32 {
    install_quiet_panic_hook();
    limit_address_space(12 << 30);
    let s = match kind {
        "tape" => Stored::Tape(unhex(payload).unwrap_or_default()),
        "bytes" => Stored::Bytes(unhex(payload).unwrap_or_default()),
        "exh" => Stored::Exh(payload.parse().unwrap_or(0)),
        "file" => match load_stored(Path::new(payload)) {
            Some(s) => s,
            None => return 2,
        },
        _ => return 2,
    };
    let p2 = p.clone();
    let h = std::thread::Builder::new()
        .stack_size(2 << 20)
        .spawn(move || {
            let mut ctx = Ctx::new(false);
            run_stored(&p2, &s, &mut ctx)
        })
        .unwrap();
    match h.join() {
        Ok(Ok(())) => 0,
        Ok(Err(_)) => 1,
        Err(_) => 1,
    }
}

/// `harness confirm <ID> <dir>…`: run every file of the directories through the bytes/tape oracle
/// in this (stable, library-free) process; used after libFuzzer campaigns.  Prints VIOLATION lines
/// for failures, returns (files run, violations).
pub fn confirm_dir(p: &Property, dir: &Path, as_tape: bool, acc_classes: &mut BTreeSet<String>) -> (u64, Vec<(PathBuf, String)>) {
    let mut n = 0;
    let mut bad = vec![];
    if let Ok(rd) = std::fs::read_dir(dir) {
        let mut files: Vec<PathBuf> = rd.flatten().map(|e| e.path()).filter(|p| p.is_file()).collect();
        files.sort();
        for f in files {
            let data = match std::fs::read(&f) {
                Ok(d) => d,
                Err(_) => continue,
            };
            n += 1;
            let mut ctx = Ctx::new(false);
            let r = if as_tape { run_case_fn(p, &data, &mut ctx) } else { run_bytes_fn(p, &data, &mut ctx) };
            for k in ctx.classes.keys() {
                acc_classes.insert(k.clone());
            }
            if let Err(m) = r {
                bad.push((f, m));
            }
        }
    }
    (n, bad)
}

/// `harness confirm <ID> bytes|tape <dir>`: journalled run of every file of a directory through the
/// stable oracle (child process of the supervisor; a crash is attributed to the last FILE line).
pub fn confirm_main(p: &Property, kind: &str, dir: &Path) -> i32 {
    install_quiet_panic_hook();
    limit_address_space(12 << 30);
    let p2 = p.clone();
    let dir = dir.to_path_buf();
    let as_tape = kind == "tape";
    let h = std::thread::Builder::new()
        .stack_size(2 << 20)
        .spawn(move || {
            let mut files: Vec<PathBuf> = match std::fs::read_dir(&dir) {
                Ok(rd) => rd.flatten().map(|e| e.path()).filter(|p| p.is_file()).collect(),
                Err(_) => vec![],
            };
            files.sort();
            let mut n = 0u64;
            let mut nontrivial = 0u64;
            for f in files {
                let data = match std::fs::read(&f) {
                    Ok(d) => d,
                    Err(_) => continue,
                };
                println!("FILE {}", f.display());
                let _ = std::io::stdout().flush();
                n += 1;
                let mut ctx = Ctx::new(false);
                let r = if as_tape { run_case_fn(&p2, &data, &mut ctx) } else { run_bytes_fn(&p2, &data, &mut ctx) };
                if !ctx.nontrivial.is_empty() {
                    nontrivial += 1;
                }
                if let Err(m) = r {
                    println!("BAD {}\t{}", f.display(), m.replace('\n', " | "));
                }
            }
            println!("DONE {} {}", n, nontrivial);
        })
        .unwrap();
    match h.join() {
        Ok(()) => 0,
        Err(_) => 1,
    }
}

/// Supervisor side of the confirmation of libFuzzer output (thorough tier).
fn confirm_fuzz_dirs(p: &Property, spec: &str) -> (u64, u64, Vec<(PathBuf, String)>, Option<String>) {
    let exe = std::env::current_exe().expect("exe");
    let mut files = 0u64;
    let mut nontrivial = 0u64;
    let mut bad = vec![];
    let mut inconclusive = None;
    for part in spec.split(',').filter(|s| !s.is_empty()) {
        let (kind, dir) = match part.split_once(':') {
            Some(x) => x,
            None => continue,
        };
        let out = Command::new(&exe).args(["confirm", p.id, kind, dir]).stderr(Stdio::null()).output();
        let out = match out {
            Ok(o) => o,
            Err(e) => {
                inconclusive = Some(format!("confirm child failed to start: {}", e));
                continue;
            }
        };
        let text = String::from_utf8_lossy(&out.stdout).to_string();
        let mut last_file: Option<String> = None;
        let mut done = false;
        for line in text.lines() {
            if let Some(f) = line.strip_prefix("FILE ") {
                last_file = Some(f.to_string());
            } else if let Some(rest) = line.strip_prefix("BAD ") {
                let (f, m) = rest.split_once('\t').unwrap_or((rest, ""));
                bad.push((PathBuf::from(f), m.to_string()));
            } else if let Some(rest) = line.strip_prefix("DONE ") {
                let mut it = rest.split_whitespace();
                files += it.next().and_then(|x| x.parse().ok()).unwrap_or(0);
                nontrivial += it.next().and_then(|x| x.parse().ok()).unwrap_or(0);
                done = true;
            }
        }
        if !done {
            match (out.status.code(), last_file) {
                (None, Some(f)) => bad.push((PathBuf::from(f), format!("process crash while confirming this input ({:?})", out.status))),
                (Some(3), _) => inconclusive = Some("confirm child hit the watchdog".into()),
                (c, f) => inconclusive = Some(format!("confirm child ended abnormally (code {:?}, last file {:?})", c, f)),
            }
        }
    }
    (files, nontrivial, bad, inconclusive)
}

//! The single random source: a byte tape read through `arbitrary::Unstructured`, plus the
//! proptest `Strategy` that produces and shrinks tapes.
//!
//! Every generator decision is read from the tape; an exhausted tape yields 0 / false / empty,
//! which every generator maps to its simplest alternative.

use arbitrary::Unstructured;
use proptest::strategy::{NewTree, Strategy, ValueTree};
use proptest::test_runner::TestRunner;

pub struct Gen<'a> {
    u: Unstructured<'a>,
    /// texts produced so far in this case (bounded), so that later texts can be *related* to
    /// earlier ones: equal up to a late difference, colliding under simple hashes, and so on
    recent: Vec<String>,
    /// partner of the last related pair, handed out by one of the next `text` calls
    pending: Option<String>,
    /// counter-signature nesting level of the header being generated (0 = a message's own
    /// headers); kept by the generators so that nesting stays within the decoder's limit of 8
    pub cs_level: usize,
}

impl<'a> Gen<'a> {
    pub fn new(tape: &'a [u8]) -> Self {
        Gen { u: Unstructured::new(tape), recent: Vec::new(), pending: None, cs_level: 0 }
    }
    pub fn remaining(&self) -> usize {
        self.u.len()
    }
    pub fn is_empty(&self) -> bool {
        self.u.is_empty()
    }
    /// Uniform in 0..n (n >= 1); 0 when the tape is exhausted.
    pub fn below(&mut self, n: usize) -> usize {
        if n <= 1 {
            return 0;
        }
        self.u.int_in_range(0..=(n - 1)).unwrap_or(0)
    }
    pub fn range_i64(&mut self, lo: i64, hi: i64) -> i64 {
        if lo >= hi {
            return lo;
        }
        self.u.int_in_range(lo..=hi).unwrap_or(lo)
    }
    pub fn range_u64(&mut self, lo: u64, hi: u64) -> u64 {
        if lo >= hi {
            return lo;
        }
        self.u.int_in_range(lo..=hi).unwrap_or(lo)
    }
    pub fn bool(&mut self) -> bool {
        self.below(2) == 1
    }
    /// true with probability num/den; false when exhausted (high draws select `true`, so that
    /// shrinking bytes toward 0 selects the plain alternative).
    pub fn ratio(&mut self, num: u32, den: u32) -> bool {
        let x = self.below(den as usize) as u32;
        x + num >= den && num > 0
    }
    pub fn byte(&mut self) -> u8 {
        self.below(256) as u8
    }
    pub fn u64(&mut self) -> u64 {
        self.u.int_in_range(0..=u64::MAX).unwrap_or(0)
    }
    pub fn i64(&mut self) -> i64 {
        self.u64() as i64
    }
    pub fn bytes(&mut self, n: usize) -> Vec<u8> {
        let take = n.min(self.u.len());
        let mut v = self.u.bytes(take).map(|b| b.to_vec()).unwrap_or_default();
        v.resize(n, 0);
        v
    }
    /// Index drawn by weights; index 0 when exhausted.
    pub fn weighted(&mut self, w: &[u32]) -> usize {
        let total: u32 = w.iter().sum();
        if total == 0 {
            return 0;
        }
        let mut x = self.below(total as usize) as u32;
        for (i, wi) in w.iter().enumerate() {
            if x < *wi {
                return i;
            }
            x -= *wi;
        }
        0
    }
    pub fn pick<'b, T>(&mut self, xs: &'b [T]) -> &'b T {
        &xs[self.below(xs.len())]
    }
    /// A short byte string: length biased to small, sometimes on class boundaries.
    pub fn small_bytes(&mut self) -> Vec<u8> {
        let n = match self.weighted(&[6, 6, 2, 1, 1]) {
            0 => self.below(4),
            1 => self.below(24),
            2 => 23 + self.below(3),
            3 => self.below(64),
            _ => 254 + self.below(4),
        };
        self.bytes(n)
    }
    pub fn nonempty_bytes(&mut self) -> Vec<u8> {
        let mut b = self.small_bytes();
        if b.is_empty() {
            b.push(self.byte());
        }
        b
    }
    /// A text: mostly short ASCII; sometimes multi-byte characters, registered names, or a text
    /// related to one produced earlier in the same case.
    pub fn text(&mut self) -> String {
        let t = self.text_inner();
        if self.recent.len() < 8 {
            self.recent.push(t.clone());
        } else {
            let at = self.below(8);
            self.recent[at] = t.clone();
        }
        t
    }

    fn text_inner(&mut self) -> String {
        if self.pending.is_some() && self.ratio(1, 2) {
            return self.pending.take().unwrap();
        }
        if self.ratio(1, 10) {
            // related to an earlier text of the case (or, for the first text, one half of a pair
            // whose other half is left pending)
            let src = if self.recent.is_empty() {
                self.text_fresh()
            } else {
                let at = self.below(self.recent.len());
                self.recent[at].clone()
            };
            return self.text_related(&src);
        }
        self.text_fresh()
    }

    /// The pending partner of the last pair-producing relation, if any.
    pub fn take_pending(&mut self) -> Option<String> {
        self.pending.take()
    }

    /// Two different, related texts.
    pub fn text_pair(&mut self) -> (String, String) {
        let a = self.text_fresh();
        let b = self.text_related(&a);
        match self.pending.take() {
            Some(p) => (b, p),
            None => (a, b),
        }
    }

    /// A text different from `src` and related to it; for the pair-producing relations the
    /// partner is left in `pending`.
    pub fn text_related(&mut self, src: &str) -> String {
        let bump = |s: &str, with: &str| -> String {
            // same text with the last character replaced by a different one
            let mut t: String = s.to_string();
            let last = t.pop();
            let rep = match last {
                Some(c) if c.to_string() == with => "~".to_string(),
                _ => with.to_string(),
            };
            t.push_str(&rep);
            t
        };
        match self.below(7) {
            // late difference
            0 => bump(src, *self.pick(&["1", "2", "b", "Z", "é"])),
            // long common prefix: pad to a length around the one-byte / two-byte length classes and
            // beyond any short comparison window, then differ in the tail; partner pending
            1 => {
                let target = *self.pick(&[20usize, 22, 23, 24, 25, 30, 40, 64, 255, 256, 300]);
                let mut p = src.to_string();
                const FILL: &str = "https://example.com/keys/params/0123456789/abcdefghijklmnopqrstuvwxyz/";
                while p.len() < target {
                    let need = target - p.len();
                    p.push_str(&FILL[..need.min(FILL.len())]);
                }
                let (a, b) = if self.bool() { ("v2", "v1") } else { ("a", "b") };
                self.pending = Some(format!("{}{}", p, b));
                format!("{}{}", p, a)
            }
            // collision partner under h = h*m + byte for m in {31, 33, 37}: (x, y) -> (x+1, y-m)
            2 => {
                let m = *self.pick(&[31u8, 33, 37]);
                let b = src.as_bytes();
                for i in 0..b.len().saturating_sub(1) {
                    if b[i] >= 0x20 && b[i] < 0x7e && b[i + 1] >= 0x20 + m && b[i + 1] < 0x7f {
                        let mut v = b.to_vec();
                        v[i] += 1;
                        v[i + 1] -= m;
                        if let Ok(t) = String::from_utf8(v) {
                            return t;
                        }
                    }
                }
                // no such position: make a colliding pair behind the text
                let (x, y) = match m {
                    31 => ("Aa", "BB"),
                    33 => ("Ab", "BA"),
                    _ => ("Ak", "BF"),
                };
                self.pending = Some(format!("{}{}", src, y));
                format!("{}{}", src, x)
            }
            // equal byte length, opposite order under UTF-8 bytes and UTF-16 code units
            3 => {
                self.pending = Some(format!("{}\u{1F600}", src));
                format!("{}\u{FF5E}a", src)
            }
            // case of one letter
            4 => {
                let mut cs: Vec<char> = src.chars().collect();
                let at = self.below(cs.len().max(1));
                match cs.get(at).copied() {
                    Some(c) if c.is_ascii_lowercase() => cs[at] = c.to_ascii_uppercase(),
                    Some(c) if c.is_ascii_uppercase() => cs[at] = c.to_ascii_lowercase(),
                    _ => cs.push('A'),
                }
                cs.into_iter().collect()
            }
            // composed / decomposed forms of the same rendered text
            5 => {
                self.pending = Some(format!("{}e\u{301}", src));
                format!("{}\u{e9}", src)
            }
            // white space or a NUL around it
            _ => format!("{}{}", src, *self.pick(&[" ", "\0", "\u{feff}", "\t"])),
        }
    }

    fn text_fresh(&mut self) -> String {
        const ALPH: &[&str] = &[
            "a", "b", "c", "x", "y", "z", "/", " ", "-", "0", "1", "A", "é", "ß", "€", "中", "😀",
            "\u{a0}", "\t", "\n", "_", ";", "=", "\"", "+", ".", ",", ":", "*", "%",
            // code-point class boundaries of UTF-8 and UTF-16
            "\u{7f}", "\u{80}", "\u{7ff}", "\u{800}", "\u{d7ff}", "\u{e000}", "\u{ff5e}", "\u{fffd}", "\u{ffff}", "\u{10000}", "\u{10ffff}",
        ];
        // texts that spell registered names or numbers (a text label is never the registered one)
        const NAMES: &[&str] = &[
            "iss", "sub", "aud", "exp", "nbf", "iat", "cti", "alg", "crit", "kid", "iv", "kty", "key_ops", "crv", "x", "y", "d",
            "k", "1", "-1", "0", "4", "ES256", "EdDSA", "sign", "verify",
            // IANA COSE registry names: curves, key types, algorithms, operations, header parameters
            "P-256", "P-384", "P-521", "X25519", "X448", "Ed25519", "Ed448", "secp256k1", "OKP", "EC2", "RSA", "Symmetric",
            "A128KW", "A192KW", "A256KW", "A128GCM", "HS256", "HMAC 256/256", "direct", "ECDH-ES + A128KW", "encrypt", "decrypt",
            "wrap key", "unwrap key", "derive key", "derive bits", "MAC create", "MAC verify", "content type", "counter signature",
            "Partial IV", "IV", "application/cwt", "application/cose-key", "application/cose-key-set",
        ];
        if self.ratio(1, 16) {
            return (*self.pick(NAMES)).to_string();
        }
        let n = match self.weighted(&[5, 5, 2, 1]) {
            0 => self.below(3),
            1 => self.below(8),
            2 => 22 + self.below(4),
            _ => self.below(40),
        };
        let mut s = String::new();
        for _ in 0..n {
            if self.ratio(4, 5) {
                s.push((b'a' + self.below(26) as u8) as char);
            } else {
                let a: &&str = self.pick(ALPH); s.push_str(a);
            }
        }
        s
    }
    /// A permutation of 0..n (identity when exhausted).
    pub fn permutation(&mut self, n: usize) -> Vec<usize> {
        let mut p: Vec<usize> = (0..n).collect();
        for i in 0..n {
            let j = i + self.below(n - i);
            p.swap(i, j);
        }
        p
    }
}

// ---------------------------------------------------------------------------------------------
// proptest strategy over tapes
// ---------------------------------------------------------------------------------------------

#[derive(Debug, Clone)]
pub struct TapeStrategy {
    pub max_len: usize,
}

impl Strategy for TapeStrategy {
    type Tree = TapeTree;
    type Value = Vec<u8>;
    fn new_tree(&self, runner: &mut TestRunner) -> NewTree<Self> {
        use proptest::prelude::RngCore;
        let rng = runner.rng();
        let classes: [usize; 8] = [64, 128, 256, 256, 512, 1024, 2048, 8192];
        let len = classes[(rng.next_u32() % 8) as usize].min(self.max_len);
        let mut tape = vec![0u8; len];
        rng.fill_bytes(&mut tape);
        // Bias: with probability 1/4 make a random half of the bytes small (generators map small
        // bytes to simple choices; this mixes simple and complex sub-structures).
        if rng.next_u32() % 4 == 0 {
            for b in tape.iter_mut() {
                if rng.next_u32() % 2 == 0 {
                    *b %= 4;
                }
            }
        }
        Ok(TapeTree::new(tape))
    }
}

/// Shrinks a tape by (1) truncating, (2) deleting chunks, (3) zeroing chunks, (4) lowering single
/// bytes.  `simplify` proposes the next candidate; `complicate` rejects the last one.
pub struct TapeTree {
    cur: Vec<u8>,
    prev: Option<Vec<u8>>,
    pass: usize,
    chunk: usize,
    pos: usize,
}

impl TapeTree {
    pub fn new(tape: Vec<u8>) -> Self {
        let chunk = tape.len().max(1);
        TapeTree { cur: tape, prev: None, pass: 0, chunk, pos: 0 }
    }
    fn propose(&mut self) -> Option<Vec<u8>> {
        loop {
            let n = self.cur.len();
            match self.pass {
                // pass 0: delete chunk [pos, pos+chunk)
                0 => {
                    if n == 0 {
                        self.pass = 1;
                        self.chunk = 1;
                        self.pos = 0;
                        continue;
                    }
                    if self.chunk == 0 {
                        self.pass = 1;
                        self.chunk = n.max(1);
                        self.pos = 0;
                        continue;
                    }
                    if self.pos >= n {
                        self.chunk /= 2;
                        self.pos = 0;
                        continue;
                    }
                    let end = (self.pos + self.chunk).min(n);
                    let mut c = self.cur[..self.pos].to_vec();
                    c.extend_from_slice(&self.cur[end..]);
                    return Some(c);
                }
                // pass 1: zero chunk
                1 => {
                    if self.chunk == 0 {
                        self.pass = 2;
                        self.pos = 0;
                        continue;
                    }
                    if self.pos >= n {
                        self.chunk /= 2;
                        self.pos = 0;
                        continue;
                    }
                    let end = (self.pos + self.chunk).min(n);
                    if self.cur[self.pos..end].iter().all(|b| *b == 0) {
                        self.pos += self.chunk;
                        continue;
                    }
                    let mut c = self.cur.clone();
                    for b in &mut c[self.pos..end] {
                        *b = 0;
                    }
                    return Some(c);
                }
                // pass 2: halve / decrement single bytes
                2 => {
                    if self.pos >= n {
                        self.pass = 3;
                        self.pos = 0;
                        continue;
                    }
                    if self.cur[self.pos] == 0 {
                        self.pos += 1;
                        continue;
                    }
                    let mut c = self.cur.clone();
                    c[self.pos] /= 2;
                    return Some(c);
                }
                3 => {
                    if self.pos >= n {
                        return None;
                    }
                    if self.cur[self.pos] == 0 {
                        self.pos += 1;
                        continue;
                    }
                    let mut c = self.cur.clone();
                    c[self.pos] -= 1;
                    return Some(c);
                }
                _ => return None,
            }
        }
    }
}

impl ValueTree for TapeTree {
    type Value = Vec<u8>;
    fn current(&self) -> Vec<u8> {
        self.cur.clone()
    }
    fn simplify(&mut self) -> bool {
        // The previous candidate (now `cur`) was accepted: stay at the same position (pass 0:
        // the content shifted; pass 2: try halving again).
        match self.propose() {
            Some(c) => {
                self.prev = Some(std::mem::replace(&mut self.cur, c));
                true
            }
            None => false,
        }
    }
    fn complicate(&mut self) -> bool {
        // The last candidate was rejected: restore and advance.
        if let Some(p) = self.prev.take() {
            self.cur = p;
            match self.pass {
                0 | 1 => self.pos += self.chunk.max(1),
                _ => self.pos += 1,
            }
            if self.pass == 2 {
                // halving failed; pass 3 will try decrementing later
            }
            true
        } else {
            false
        }
    }
}

/// Library-free shrinker used for crashes detected out of process (and as a fallback): `fails`
/// must return true when the candidate still fails.  Bounded by `budget` evaluations.
pub fn shrink_with(tape: Vec<u8>, budget: usize, mut fails: impl FnMut(&[u8]) -> bool) -> Vec<u8> {
    let mut tree = TapeTree::new(tape);
    let mut n = 0;
    while n < budget && tree.simplify() {
        n += 1;
        if !fails(&tree.cur) {
            tree.complicate();
        } else {
            tree.prev = None;
        }
    }
    tree.cur
}

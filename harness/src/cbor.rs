//! Independent CBOR codec (shares no code with ciborium): abstract `Item`, deterministic and
//! styled encoders, strict and lenient readers, key orders, diagnostic rendering.

use crate::tape::Gen;
use std::cmp::Ordering;
use std::fmt::Write as _;

pub const INT_MIN: i128 = -(1i128 << 64);
pub const INT_MAX: i128 = (1i128 << 64) - 1;

#[derive(Clone, Debug)]
pub enum Item {
    Int(i128),
    Bytes(Vec<u8>),
    Text(String),
    Array(Vec<Item>),
    Map(Vec<(Item, Item)>),
    Tag(u64, Box<Item>),
    Bool(bool),
    Null,
    Undefined,
    Simple(u8),
    Float(f64),
    /// A byte string whose content is an encoding of `inner` (minus `cut` trailing bytes, plus
    /// `junk`).  Never produced by the readers; used by generators for protected-header slots.
    /// `wire` holds the content bytes once an encoder has chosen them.
    Wrapped(Box<Wrapped>),
}

#[derive(Clone, Debug)]
pub struct Wrapped {
    pub inner: Item,
    pub junk: Vec<u8>,
    pub cut: usize,
    pub wire: Option<Vec<u8>>,
}

impl Wrapped {
    pub fn new(inner: Item) -> Item {
        Item::Wrapped(Box::new(Wrapped { inner, junk: vec![], cut: 0, wire: None }))
    }
    /// Content bytes: the recorded wire bytes, or the deterministic encoding.
    pub fn content(&self) -> Vec<u8> {
        if let Some(w) = &self.wire {
            return w.clone();
        }
        let mut c = encode(&self.inner);
        let keep = c.len().saturating_sub(self.cut);
        c.truncate(keep);
        c.extend_from_slice(&self.junk);
        c
    }
    pub fn is_clean(&self) -> bool {
        self.junk.is_empty() && self.cut == 0
    }
}

/// Structural equality; floats by bit pattern except that all NaNs are equal.
impl PartialEq for Item {
    fn eq(&self, o: &Item) -> bool {
        use Item::*;
        match (self, o) {
            (Int(a), Int(b)) => a == b,
            (Bytes(a), Bytes(b)) => a == b,
            (Text(a), Text(b)) => a == b,
            (Array(a), Array(b)) => a == b,
            (Map(a), Map(b)) => a == b,
            (Tag(t, a), Tag(u, b)) => t == u && a == b,
            (Bool(a), Bool(b)) => a == b,
            (Null, Null) => true,
            (Undefined, Undefined) => true,
            (Simple(a), Simple(b)) => a == b,
            (Float(a), Float(b)) => (a.is_nan() && b.is_nan()) || a.to_bits() == b.to_bits(),
            (Wrapped(a), Wrapped(b)) => a.content() == b.content(),
            (Wrapped(a), Bytes(b)) | (Bytes(b), Wrapped(a)) => &a.content() == b,
            _ => false,
        }
    }
}
impl Eq for Item {}

impl Item {
    pub fn int(i: i64) -> Item {
        Item::Int(i as i128)
    }
    pub fn text(s: &str) -> Item {
        Item::Text(s.to_string())
    }
    pub fn bytes(b: &[u8]) -> Item {
        Item::Bytes(b.to_vec())
    }
    pub fn kind(&self) -> &'static str {
        match self {
            Item::Int(_) => "int",
            Item::Bytes(_) => "bstr",
            Item::Text(_) => "tstr",
            Item::Array(_) => "array",
            Item::Map(_) => "map",
            Item::Tag(..) => "tag",
            Item::Bool(_) => "bool",
            Item::Null => "null",
            Item::Undefined => "undefined",
            Item::Simple(_) => "simple",
            Item::Float(_) => "float",
            Item::Wrapped(_) => "bstr",
        }
    }
    pub fn as_bytes(&self) -> Option<&Vec<u8>> {
        if let Item::Bytes(b) = self {
            Some(b)
        } else {
            None
        }
    }
    pub fn as_array(&self) -> Option<&Vec<Item>> {
        if let Item::Array(b) = self {
            Some(b)
        } else {
            None
        }
    }
    pub fn as_map(&self) -> Option<&Vec<(Item, Item)>> {
        if let Item::Map(b) = self {
            Some(b)
        } else {
            None
        }
    }
    pub fn as_int(&self) -> Option<i128> {
        if let Item::Int(b) = self {
            Some(*b)
        } else {
            None
        }
    }
    pub fn as_text(&self) -> Option<&str> {
        if let Item::Text(b) = self {
            Some(b)
        } else {
            None
        }
    }
    /// Nesting depth (leaf = 0).
    pub fn depth(&self) -> usize {
        match self {
            Item::Array(a) => 1 + a.iter().map(|i| i.depth()).max().unwrap_or(0),
            Item::Map(m) => 1 + m.iter().map(|(k, v)| k.depth().max(v.depth())).max().unwrap_or(0),
            Item::Tag(_, i) => 1 + i.depth(),
            Item::Wrapped(w) => 1 + w.inner.depth(),
            _ => 0,
        }
    }
    pub fn contains_nan(&self) -> bool {
        match self {
            Item::Float(f) => f.is_nan(),
            Item::Array(a) => a.iter().any(|i| i.contains_nan()),
            Item::Map(m) => m.iter().any(|(k, v)| k.contains_nan() || v.contains_nan()),
            Item::Tag(_, i) => i.contains_nan(),
            _ => false,
        }
    }
}

// ---------------------------------------------------------------------------------------------
// encoding
// ---------------------------------------------------------------------------------------------

/// Write a head with the shortest argument encoding.
pub fn head(out: &mut Vec<u8>, major: u8, arg: u64) {
    head_w(out, major, arg, 0)
}

/// Minimal width class of an argument: 0 = immediate, 1, 2, 4, 8 bytes.
pub fn min_width(arg: u64) -> u8 {
    if arg < 24 {
        0
    } else if arg <= 0xff {
        1
    } else if arg <= 0xffff {
        2
    } else if arg <= 0xffff_ffff {
        4
    } else {
        8
    }
}

/// Write a head with argument width `w` bytes (0 = immediate); `w` is raised to the minimum
/// legal width for `arg`.
pub fn head_w(out: &mut Vec<u8>, major: u8, arg: u64, w: u8) {
    let w = w.max(min_width(arg));
    let m = major << 5;
    match w {
        0 => out.push(m | arg as u8),
        1 => {
            out.push(m | 24);
            out.push(arg as u8)
        }
        2 => {
            out.push(m | 25);
            out.extend_from_slice(&(arg as u16).to_be_bytes())
        }
        4 => {
            out.push(m | 26);
            out.extend_from_slice(&(arg as u32).to_be_bytes())
        }
        _ => {
            out.push(m | 27);
            out.extend_from_slice(&arg.to_be_bytes())
        }
    }
}

fn f16_bits_exact(f: f64) -> Option<u16> {
    // Return Some(bits) if f is exactly representable as IEEE half.
    let b = f.to_bits();
    let sign = ((b >> 63) as u16) << 15;
    let exp = ((b >> 52) & 0x7ff) as i32;
    let man = b & ((1u64 << 52) - 1);
    if exp == 0x7ff {
        if man == 0 {
            return Some(sign | 0x7c00);
        }
        // NaN: representable if payload fits in top 10 bits
        if man & ((1u64 << 42) - 1) == 0 {
            return Some(sign | 0x7c00 | (man >> 42) as u16);
        }
        return None;
    }
    if exp == 0 && man == 0 {
        return Some(sign);
    }
    let e = exp - 1023;
    if (-14..=15).contains(&e) {
        if man & ((1u64 << 42) - 1) == 0 {
            return Some(sign | (((e + 15) as u16) << 10) | (man >> 42) as u16);
        }
        return None;
    }
    if (-24..-14).contains(&e) {
        // subnormal half: value = m * 2^-24, m in 1..1023
        let shift = (-14 - e) as u32; // 1..=10
        let full = (1u64 << 52) | man; // 53-bit significand
        let drop = 42 + shift;
        if full & ((1u64 << drop) - 1) == 0 {
            return Some(sign | (full >> drop) as u16);
        }
    }
    None
}

pub fn f16_to_f64(h: u16) -> f64 {
    let sign = if h & 0x8000 != 0 { -1.0 } else { 1.0 };
    let exp = ((h >> 10) & 0x1f) as i32;
    let man = (h & 0x3ff) as u64;
    if exp == 0 {
        sign * (man as f64) * 2f64.powi(-24)
    } else if exp == 31 {
        if man == 0 {
            sign * f64::INFINITY
        } else {
            let bits = ((h as u64 & 0x8000) << 48) | (0x7ffu64 << 52) | (man << 42);
            f64::from_bits(bits)
        }
    } else {
        sign * (1.0 + man as f64 / 1024.0) * 2f64.powi(exp - 15)
    }
}

fn f32_exact(f: f64) -> Option<f32> {
    let g = f as f32;
    if (g as f64).to_bits() == f.to_bits() {
        Some(g)
    } else {
        None
    }
}

/// Float with width `w` ∈ {2,4,8}; raised to the smallest exact width.
fn put_float(out: &mut Vec<u8>, f: f64, w: u8) {
    let h = f16_bits_exact(f);
    let s = f32_exact(f);
    let minw = if h.is_some() {
        2
    } else if s.is_some() {
        4
    } else {
        8
    };
    // a NaN payload may be exact in 16 bits and not survive the f64->f32->f64 conversion, so a
    // width is used only when its own exactness test passed
    match (w.max(minw), h, s) {
        (2, Some(h), _) => {
            out.push(0xf9);
            out.extend_from_slice(&h.to_be_bytes())
        }
        (2, None, Some(s)) | (4, _, Some(s)) => {
            out.push(0xfa);
            out.extend_from_slice(&s.to_bits().to_be_bytes())
        }
        _ => {
            out.push(0xfb);
            out.extend_from_slice(&f.to_bits().to_be_bytes())
        }
    }
}

/// RFC 8949 §4.2.1 deterministic encoding *without* sorting map keys (order is part of the item).
pub fn encode(item: &Item) -> Vec<u8> {
    let mut out = Vec::new();
    enc(item, &mut out);
    out
}

pub fn enc(item: &Item, out: &mut Vec<u8>) {
    match item {
        Item::Int(i) => {
            assert!(*i >= INT_MIN && *i <= INT_MAX);
            if *i >= 0 {
                head(out, 0, *i as u64)
            } else {
                head(out, 1, (-1 - *i) as u64)
            }
        }
        Item::Bytes(b) => {
            head(out, 2, b.len() as u64);
            out.extend_from_slice(b)
        }
        Item::Text(t) => {
            head(out, 3, t.len() as u64);
            out.extend_from_slice(t.as_bytes())
        }
        Item::Array(a) => {
            head(out, 4, a.len() as u64);
            for i in a {
                enc(i, out)
            }
        }
        Item::Map(m) => {
            head(out, 5, m.len() as u64);
            for (k, v) in m {
                enc(k, out);
                enc(v, out)
            }
        }
        Item::Tag(t, i) => {
            head(out, 6, *t);
            enc(i, out)
        }
        Item::Bool(false) => out.push(0xf4),
        Item::Bool(true) => out.push(0xf5),
        Item::Null => out.push(0xf6),
        Item::Undefined => out.push(0xf7),
        Item::Simple(s) => {
            if *s < 24 {
                out.push(0xe0 | *s)
            } else {
                out.push(0xf8);
                out.push(*s)
            }
        }
        Item::Float(f) => put_float(out, *f, 2),
        Item::Wrapped(w) => {
            let c = w.content();
            head(out, 2, c.len() as u64);
            out.extend_from_slice(&c)
        }
    }
}

/// What the styled encoder may vary.
#[derive(Clone, Copy, Debug)]
pub struct StyleOpts {
    /// non-minimal head widths
    pub wide: bool,
    /// indefinite-length arrays/maps/strings
    pub indefinite: bool,
    /// tag 2/3 bignum form for integers (ciborium reads it back as an integer)
    pub bignum: bool,
    /// wider-than-needed floats
    pub wide_float: bool,
    /// `undefined` in place of `null` (ciborium reads both as Null)
    pub undefined_for_null: bool,
}

impl StyleOpts {
    pub const ALL: StyleOpts =
        StyleOpts { wide: true, indefinite: true, bignum: true, wide_float: true, undefined_for_null: false };
    pub const NONE: StyleOpts =
        StyleOpts { wide: false, indefinite: false, bignum: false, wide_float: false, undefined_for_null: false };
}

fn draw_width(g: &mut Gen, arg: u64) -> u8 {
    // 3/4: minimal; else any legal wider width
    if g.ratio(1, 4) {
        let ws = [0u8, 1, 2, 4, 8];
        let minw = min_width(arg);
        let legal: Vec<u8> = ws.iter().copied().filter(|w| *w >= minw).collect();
        *g.pick(&legal)
    } else {
        0
    }
}

fn char_boundaries(s: &str) -> Vec<usize> {
    let mut v: Vec<usize> = s.char_indices().map(|(i, _)| i).collect();
    v.push(s.len());
    v
}

/// Encode choosing an encoding style per node from the tape.  An exhausted tape gives the
/// deterministic encoding.  Returns whether anything non-deterministic was chosen via `varied`.
pub fn encode_styled(item: &mut Item, g: &mut Gen, o: StyleOpts) -> Vec<u8> {
    let mut out = Vec::new();
    enc_styled(item, g, o, &mut out);
    out
}

pub fn enc_styled(item: &mut Item, g: &mut Gen, o: StyleOpts, out: &mut Vec<u8>) {
    match item {
        Item::Int(i) => {
            let (major, arg) = if *i >= 0 { (0u8, *i as u64) } else { (1u8, (-1 - *i) as u64) };
            if o.bignum && g.ratio(1, 10) {
                // bignum form: tag 2/3, definite byte string, up to 16 bytes, optional leading zeros
                let mut be = arg.to_be_bytes().to_vec();
                while be.first() == Some(&0) {
                    be.remove(0);
                }
                let pad = g.below(17 - be.len().min(16));
                let mut bytes = vec![0u8; pad];
                bytes.extend_from_slice(&be);
                let tw = if o.wide { draw_width(g, 2) } else { 0 };
                head_w(out, 6, if major == 0 { 2 } else { 3 }, tw);
                let bw = if o.wide { draw_width(g, bytes.len() as u64) } else { 0 };
                head_w(out, 2, bytes.len() as u64, bw);
                out.extend_from_slice(&bytes);
            } else {
                let w = if o.wide { draw_width(g, arg) } else { 0 };
                head_w(out, major, arg, w)
            }
        }
        Item::Wrapped(w) => {
            // choose the content encoding first, record it, then emit it as a styled byte string
            let mut c = Vec::new();
            enc_styled(&mut w.inner, g, o, &mut c);
            let keep = c.len().saturating_sub(w.cut);
            c.truncate(keep);
            c.extend_from_slice(&w.junk);
            w.wire = Some(c.clone());
            let mut tmp = Item::Bytes(c);
            enc_styled(&mut tmp, g, o, out)
        }
        Item::Bytes(b) => {
            if o.indefinite && g.ratio(1, 8) {
                out.push(0x5f);
                let mut pos = 0;
                // 0..n chunks (possibly empty chunks)
                while pos < b.len() || g.ratio(1, 6) {
                    let take = if pos < b.len() { g.below(b.len() - pos + 1) } else { 0 };
                    let take = if take == 0 && pos < b.len() && !g.bool() { 1 } else { take };
                    let w = if o.wide { draw_width(g, take as u64) } else { 0 };
                    head_w(out, 2, take as u64, w);
                    out.extend_from_slice(&b[pos..pos + take]);
                    pos += take;
                    if g.is_empty() && pos < b.len() {
                        // finish in one chunk
                        head_w(out, 2, (b.len() - pos) as u64, 0);
                        out.extend_from_slice(&b[pos..]);
                        pos = b.len();
                    }
                }
                out.push(0xff);
            } else {
                let w = if o.wide { draw_width(g, b.len() as u64) } else { 0 };
                head_w(out, 2, b.len() as u64, w);
                out.extend_from_slice(b)
            }
        }
        Item::Text(t) => {
            if o.indefinite && g.ratio(1, 8) {
                out.push(0x7f);
                let bounds = char_boundaries(t);
                let mut bi = 0; // index into bounds
                while bi + 1 < bounds.len() || g.ratio(1, 6) {
                    let rem = bounds.len() - 1 - bi;
                    let mut step = if rem > 0 { g.below(rem + 1) } else { 0 };
                    if step == 0 && rem > 0 && (!g.bool() || g.is_empty()) {
                        step = if g.is_empty() { rem } else { 1 };
                    }
                    let (a, b) = (bounds[bi], bounds[bi + step]);
                    let w = if o.wide { draw_width(g, (b - a) as u64) } else { 0 };
                    head_w(out, 3, (b - a) as u64, w);
                    out.extend_from_slice(&t.as_bytes()[a..b]);
                    bi += step;
                }
                out.push(0xff);
            } else {
                let w = if o.wide { draw_width(g, t.len() as u64) } else { 0 };
                head_w(out, 3, t.len() as u64, w);
                out.extend_from_slice(t.as_bytes())
            }
        }
        Item::Array(a) => {
            if o.indefinite && g.ratio(1, 8) {
                out.push(0x9f);
                for i in a.iter_mut() {
                    enc_styled(i, g, o, out)
                }
                out.push(0xff);
            } else {
                let w = if o.wide { draw_width(g, a.len() as u64) } else { 0 };
                head_w(out, 4, a.len() as u64, w);
                for i in a.iter_mut() {
                    enc_styled(i, g, o, out)
                }
            }
        }
        Item::Map(m) => {
            if o.indefinite && g.ratio(1, 8) {
                out.push(0xbf);
                for (k, v) in m.iter_mut() {
                    enc_styled(k, g, o, out);
                    enc_styled(v, g, o, out)
                }
                out.push(0xff);
            } else {
                let w = if o.wide { draw_width(g, m.len() as u64) } else { 0 };
                head_w(out, 5, m.len() as u64, w);
                for (k, v) in m.iter_mut() {
                    enc_styled(k, g, o, out);
                    enc_styled(v, g, o, out)
                }
            }
        }
        Item::Tag(t, i) => {
            let w = if o.wide { draw_width(g, *t) } else { 0 };
            head_w(out, 6, *t, w);
            enc_styled(i, g, o, out)
        }
        Item::Null => {
            if o.undefined_for_null && g.ratio(1, 8) {
                out.push(0xf7)
            } else {
                out.push(0xf6)
            }
        }
        Item::Float(f) => {
            let w = if o.wide_float { *g.pick(&[2u8, 2, 4, 8]) } else { 2 };
            put_float(out, *f, w)
        }
        other => enc(other, out),
    }
}

// ---------------------------------------------------------------------------------------------
// reading
// ---------------------------------------------------------------------------------------------

#[derive(Debug, Clone, PartialEq, Eq)]
pub enum ReadError {
    Eof,
    Malformed(&'static str),
    NotStrict(&'static str),
    Trailing,
    TooDeep,
}

pub struct Reader<'a> {
    pub data: &'a [u8],
    pub pos: usize,
    pub strict: bool,
    pub max_depth: usize,
    /// number of nodes read (for classification)
    pub nodes: usize,
    /// saw tag 2 or 3 applied to an indefinite-length byte string
    pub bignum_over_indefinite: bool,
}

impl<'a> Reader<'a> {
    pub fn new(data: &'a [u8], strict: bool) -> Self {
        Reader { data, pos: 0, strict, max_depth: 100_000, nodes: 0, bignum_over_indefinite: false }
    }
    fn u8(&mut self) -> Result<u8, ReadError> {
        let b = *self.data.get(self.pos).ok_or(ReadError::Eof)?;
        self.pos += 1;
        Ok(b)
    }
    fn take(&mut self, n: usize) -> Result<&'a [u8], ReadError> {
        if self.data.len() - self.pos < n {
            return Err(ReadError::Eof);
        }
        let s = &self.data[self.pos..self.pos + n];
        self.pos += n;
        Ok(s)
    }
    /// (major, minor, arg) ; arg = None for minor 31
    fn head(&mut self) -> Result<(u8, u8, Option<u64>), ReadError> {
        let b = self.u8()?;
        let major = b >> 5;
        let minor = b & 31;
        let arg = match minor {
            0..=23 => Some(minor as u64),
            24 => Some(self.u8()? as u64),
            25 => Some(u16::from_be_bytes(self.take(2)?.try_into().unwrap()) as u64),
            26 => Some(u32::from_be_bytes(self.take(4)?.try_into().unwrap()) as u64),
            27 => Some(u64::from_be_bytes(self.take(8)?.try_into().unwrap())),
            28..=30 => return Err(ReadError::Malformed("reserved minor")),
            _ => None,
        };
        if self.strict && major != 7 {
            if let Some(a) = arg {
                let w = match minor {
                    24 => 1,
                    25 => 2,
                    26 => 4,
                    27 => 8,
                    _ => 0,
                };
                if w != min_width(a) {
                    return Err(ReadError::NotStrict("non-minimal head"));
                }
            }
        }
        Ok((major, minor, arg))
    }
    pub fn item(&mut self, depth: usize) -> Result<Item, ReadError> {
        if depth > self.max_depth {
            return Err(ReadError::TooDeep);
        }
        self.nodes += 1;
        let (major, minor, arg) = self.head()?;
        match major {
            0 => Ok(Item::Int(arg.ok_or(ReadError::Malformed("indef int"))? as i128)),
            1 => Ok(Item::Int(-1 - arg.ok_or(ReadError::Malformed("indef int"))? as i128)),
            2 | 3 => {
                let bytes = match arg {
                    Some(n) => {
                        let n = usize::try_from(n).map_err(|_| ReadError::Eof)?;
                        self.take(n)?.to_vec()
                    }
                    None => {
                        if self.strict {
                            return Err(ReadError::NotStrict("indefinite string"));
                        }
                        let mut acc = Vec::new();
                        // (the CBOR library under test also takes an indefinite-length chunk inside an
                        // indefinite-length string, to any depth: the lenient reader follows it)
                        let mut open = 1usize;
                        loop {
                            if self.data.get(self.pos) == Some(&0xff) {
                                self.pos += 1;
                                open -= 1;
                                if open == 0 {
                                    break;
                                }
                                continue;
                            }
                            let (m2, _mi, a2) = self.head()?;
                            if m2 != major {
                                return Err(ReadError::Malformed("bad chunk"));
                            }
                            let n = match a2 {
                                Some(n) => n,
                                None => {
                                    open += 1;
                                    if open > 1000 {
                                        return Err(ReadError::Malformed("chunk nesting"));
                                    }
                                    continue;
                                }
                            };
                            let n = usize::try_from(n).map_err(|_| ReadError::Eof)?;
                            let chunk = self.take(n)?;
                            if major == 3 && std::str::from_utf8(chunk).is_err() {
                                return Err(ReadError::Malformed("chunk utf8"));
                            }
                            acc.extend_from_slice(chunk);
                        }
                        acc
                    }
                };
                if major == 2 {
                    Ok(Item::Bytes(bytes))
                } else {
                    String::from_utf8(bytes).map(Item::Text).map_err(|_| ReadError::Malformed("utf8"))
                }
            }
            4 => {
                let mut v = Vec::new();
                match arg {
                    Some(n) => {
                        for _ in 0..n {
                            v.push(self.item(depth + 1)?);
                        }
                    }
                    None => {
                        if self.strict {
                            return Err(ReadError::NotStrict("indefinite array"));
                        }
                        loop {
                            if self.data.get(self.pos) == Some(&0xff) {
                                self.pos += 1;
                                break;
                            }
                            v.push(self.item(depth + 1)?);
                        }
                    }
                }
                Ok(Item::Array(v))
            }
            5 => {
                let mut v = Vec::new();
                match arg {
                    Some(n) => {
                        for _ in 0..n {
                            let k = self.item(depth + 1)?;
                            let val = self.item(depth + 1)?;
                            v.push((k, val));
                        }
                    }
                    None => {
                        if self.strict {
                            return Err(ReadError::NotStrict("indefinite map"));
                        }
                        loop {
                            if self.data.get(self.pos) == Some(&0xff) {
                                self.pos += 1;
                                break;
                            }
                            let k = self.item(depth + 1)?;
                            let val = self.item(depth + 1)?;
                            v.push((k, val));
                        }
                    }
                }
                Ok(Item::Map(v))
            }
            6 => {
                let t = arg.ok_or(ReadError::Malformed("indef tag"))?;
                if (t == 2 || t == 3) && self.data.get(self.pos) == Some(&0x5f) {
                    self.bignum_over_indefinite = true;
                }
                let inner = self.item(depth + 1)?;
                Ok(Item::Tag(t, Box::new(inner)))
            }
            _ => match minor {
                20 => Ok(Item::Bool(false)),
                21 => Ok(Item::Bool(true)),
                22 => Ok(Item::Null),
                23 => Ok(Item::Undefined),
                0..=19 => Ok(Item::Simple(minor)),
                24 => {
                    let s = arg.unwrap() as u8;
                    if s < 32 {
                        Err(ReadError::Malformed("two-byte simple < 32"))
                    } else {
                        Ok(Item::Simple(s))
                    }
                }
                25 => Ok(Item::Float(f16_to_f64(arg.unwrap() as u16))),
                26 => {
                    let f = f32::from_bits(arg.unwrap() as u32) as f64;
                    if self.strict && !f.is_nan() && f16_bits_exact(f).is_some() {
                        return Err(ReadError::NotStrict("float not shortest"));
                    }
                    Ok(Item::Float(f))
                }
                27 => {
                    let f = f64::from_bits(arg.unwrap());
                    if self.strict && !f.is_nan() && (f16_bits_exact(f).is_some() || f32_exact(f).is_some()) {
                        return Err(ReadError::NotStrict("float not shortest"));
                    }
                    Ok(Item::Float(f))
                }
                _ => Err(ReadError::Malformed("unexpected break")),
            },
        }
    }
}

/// Strict reader: exactly one item, definite lengths, shortest heads, shortest exact floats.
pub fn read_strict(data: &[u8]) -> Result<Item, ReadError> {
    let mut r = Reader::new(data, true);
    let i = r.item(0)?;
    if r.pos != data.len() {
        return Err(ReadError::Trailing);
    }
    Ok(i)
}

/// Lenient reader: RFC 8949 well-formedness, exactly one item.
pub fn read_lenient(data: &[u8]) -> Result<Item, ReadError> {
    let mut r = Reader::new(data, false);
    r.max_depth = 2000;
    let i = r.item(0)?;
    if r.pos != data.len() {
        return Err(ReadError::Trailing);
    }
    Ok(i)
}

/// Whether the (well-formed) input applies tag 2 or 3 to an indefinite-length byte string anywhere
/// outside byte strings (ciborium reads that as a generic tag but reads its own definite-length
/// re-encoding as an integer).
pub fn has_bignum_over_indefinite_bstr(data: &[u8]) -> bool {
    let mut r = Reader::new(data, false);
    r.max_depth = 2000;
    let _ = r.item(0);
    r.bignum_over_indefinite
}

/// Lenient reader of a prefix: returns the item and the number of bytes consumed.
pub fn read_prefix(data: &[u8]) -> Result<(Item, usize), ReadError> {
    let mut r = Reader::new(data, false);
    r.max_depth = 2000;
    let i = r.item(0)?;
    Ok((i, r.pos))
}

// ---------------------------------------------------------------------------------------------
// key orders
// ---------------------------------------------------------------------------------------------

/// RFC 8949 §4.2.1: bytewise lexicographic order of deterministic encodings.
pub fn cmp_lex(a: &[u8], b: &[u8]) -> Ordering {
    a.cmp(b)
}

/// RFC 7049 §3.9 / RFC 8949 §4.2.3: shorter first, then bytewise.
pub fn cmp_len_first(a: &[u8], b: &[u8]) -> Ordering {
    a.len().cmp(&b.len()).then_with(|| a.cmp(b))
}

// ---------------------------------------------------------------------------------------------
// rendering
// ---------------------------------------------------------------------------------------------

pub fn hex(b: &[u8]) -> String {
    let mut s = String::with_capacity(b.len() * 2);
    for x in b {
        let _ = write!(s, "{:02x}", x);
    }
    s
}

pub fn unhex(s: &str) -> Option<Vec<u8>> {
    let s = s.trim();
    if s.len() % 2 != 0 {
        return None;
    }
    (0..s.len()).step_by(2).map(|i| u8::from_str_radix(&s[i..i + 2], 16).ok()).collect()
}

pub fn hex_trunc(b: &[u8], max: usize) -> String {
    if b.len() <= max {
        hex(b)
    } else {
        format!("{}…({} bytes)", hex(&b[..max]), b.len())
    }
}

/// CBOR diagnostic notation (abbreviated for long strings).
pub fn diag(i: &Item) -> String {
    let mut s = String::new();
    diag_into(i, &mut s);
    s
}

fn diag_into(i: &Item, s: &mut String) {
    match i {
        Item::Int(x) => {
            let _ = write!(s, "{}", x);
        }
        Item::Bytes(b) => {
            let _ = write!(s, "h'{}'", hex_trunc(b, 24));
        }
        Item::Text(t) => {
            if t.len() > 40 {
                let cut = t.char_indices().map(|(i, _)| i).take_while(|i| *i <= 40).last().unwrap_or(0);
                let _ = write!(s, "{:?}…({}B)", &t[..cut], t.len());
            } else {
                let _ = write!(s, "{:?}", t);
            }
        }
        Item::Array(a) => {
            s.push('[');
            for (n, x) in a.iter().enumerate() {
                if n > 0 {
                    s.push_str(", ");
                }
                diag_into(x, s);
            }
            s.push(']');
        }
        Item::Map(m) => {
            s.push('{');
            for (n, (k, v)) in m.iter().enumerate() {
                if n > 0 {
                    s.push_str(", ");
                }
                diag_into(k, s);
                s.push_str(": ");
                diag_into(v, s);
            }
            s.push('}');
        }
        Item::Tag(t, x) => {
            let _ = write!(s, "{}(", t);
            diag_into(x, s);
            s.push(')');
        }
        Item::Bool(b) => {
            let _ = write!(s, "{}", b);
        }
        Item::Null => s.push_str("null"),
        Item::Undefined => s.push_str("undefined"),
        Item::Simple(x) => {
            let _ = write!(s, "simple({})", x);
        }
        Item::Float(f) => {
            let _ = write!(s, "{:?}_f", f);
        }
        Item::Wrapped(w) => {
            s.push_str("<<");
            diag_into(&w.inner, s);
            if w.cut > 0 {
                let _ = write!(s, " cut {}", w.cut);
            }
            if !w.junk.is_empty() {
                let _ = write!(s, " + junk {}", hex_trunc(&w.junk, 8));
            }
            s.push_str(">>");
        }
    }
}

#[cfg(test)]
mod tests {
    use super::*;

    #[test]
    fn rfc8949_appendix_a() {
        let cases: &[(&str, Item)] = &[
            ("00", Item::Int(0)),
            ("17", Item::Int(23)),
            ("1818", Item::Int(24)),
            ("1903e8", Item::Int(1000)),
            ("1b000000e8d4a51000", Item::Int(1000000000000)),
            ("1bffffffffffffffff", Item::Int(18446744073709551615)),
            ("3bffffffffffffffff", Item::Int(-18446744073709551616)),
            ("20", Item::Int(-1)),
            ("3903e7", Item::Int(-1000)),
            ("f90000", Item::Float(0.0)),
            ("f98000", Item::Float(-0.0)),
            ("f93c00", Item::Float(1.0)),
            ("fb3ff199999999999a", Item::Float(1.1)),
            ("f93e00", Item::Float(1.5)),
            ("f97bff", Item::Float(65504.0)),
            ("fa47c35000", Item::Float(100000.0)),
            ("fa7f7fffff", Item::Float(3.4028234663852886e+38)),
            ("fb7e37e43c8800759c", Item::Float(1.0e+300)),
            ("f90001", Item::Float(5.960464477539063e-8)),
            ("f90400", Item::Float(0.00006103515625)),
            ("f9c400", Item::Float(-4.0)),
            ("fbc010666666666666", Item::Float(-4.1)),
            ("f97c00", Item::Float(f64::INFINITY)),
            ("f97e00", Item::Float(f64::NAN)),
            ("f9fc00", Item::Float(f64::NEG_INFINITY)),
            ("f4", Item::Bool(false)),
            ("f6", Item::Null),
            ("f7", Item::Undefined),
            ("f0", Item::Simple(16)),
            ("f8ff", Item::Simple(255)),
            ("c074323031332d30332d32315432303a30343a30305a", Item::Tag(0, Box::new(Item::text("2013-03-21T20:04:00Z")))),
            ("4401020304", Item::bytes(&[1, 2, 3, 4])),
            ("62c3bc", Item::text("\u{fc}")),
            ("64f0908591", Item::text("\u{10151}")),
            ("8301820203820405", Item::Array(vec![Item::Int(1), Item::Array(vec![Item::Int(2), Item::Int(3)]), Item::Array(vec![Item::Int(4), Item::Int(5)])])),
            ("a201020304", Item::Map(vec![(Item::Int(1), Item::Int(2)), (Item::Int(3), Item::Int(4))])),
        ];
        for (h, it) in cases {
            let b = unhex(h).unwrap();
            assert_eq!(&read_strict(&b).unwrap(), it, "{}", h);
            assert_eq!(hex(&encode(it)), *h);
        }
        // indefinite forms (lenient only)
        let b = unhex("5f42010243030405ff").unwrap();
        assert_eq!(read_lenient(&b).unwrap(), Item::bytes(&[1, 2, 3, 4, 5]));
        assert!(read_strict(&b).is_err());
        let b = unhex("bf61610161629f0203ffff").unwrap();
        assert_eq!(
            read_lenient(&b).unwrap(),
            Item::Map(vec![(Item::text("a"), Item::Int(1)), (Item::text("b"), Item::Array(vec![Item::Int(2), Item::Int(3)]))])
        );
        assert!(read_strict(&unhex("1817").unwrap()).is_err());
        assert!(read_strict(&unhex("fa3fc00000").unwrap()).is_err());
        assert_eq!(read_lenient(&unhex("fa3fc00000").unwrap()).unwrap(), Item::Float(1.5));
    }

    #[test]
    fn f16_roundtrip_all() {
        for h in 0..=u16::MAX {
            let f = f16_to_f64(h);
            assert_eq!(f16_bits_exact(f), Some(h), "{:04x}", h);
        }
    }
}

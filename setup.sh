#!/bin/bash
# MANIFEST.setup_cmd: offline build of the harness (stable toolchain) from files on disk only.
set -e
cd "$(dirname "$(readlink -f "$0")")"
export CARGO_NET_OFFLINE=true
mkdir -p out evidence
( cd harness && cargo build --release --offline )
if [ -d harness/fuzz ]; then
  ( cd harness && cargo +nightly fuzz build -s none 2>&1 | tail -3 ) || echo "warning: fuzz targets did not build (thorough tier falls back to generated cases only)"
fi
echo "setup ok"
